"""C18 -- nice / ionice / cpu_affinity / rlimit: get reads the kernel, set changes exactly that."""
import itertools
import os

from pv import gallina as G
from pv.canon import B, Exc, T, Val, outcome, unB
from props import _c18_sim as S

ID = "C18"
COQ_REQUIRE = "C18.Run"
SHARD = 100
CASE_TIMEOUT = 30
RULE = ("one public call (nice/ionice/cpu_affinity/rlimit, get or set form) on one process of a two- or three-process kernel state; "
        "SIM: simulated kernel behind the patched native calls (fake /proc with the kernel-printed status file), sweeping every nice "
        "value -20..19 and the ring around it, every I/O class (None,-1..5,2^18-1) x level (None,-1..8,100), every non-empty subset of "
        "a 6-CPU eligible set, duplicates, ineligible / nonexistent / huge ids, [] and the get form on seven affinity situations "
        "(plain range, multi-range cpuset, narrowed, single CPU, range-free cpuset, lxcfs-like, 2-CPU), all 16 RLIMIT_* x "
        "{(0,0),(0,1),(1,1),(5,inf),(inf,inf),(2^63-1,inf),(-2,inf)}, invalid resources / non-pairs / scalars / soft>hard / values around "
        "2^63 and 2^64; four capability sets (none, CAP_SYS_NICE, CAP_SYS_ADMIN, CAP_SYS_RESOURCE) x nice lowering inside/outside "
        "RLIMIT_NICE, RT I/O class, raising hard limits, RLIMIT_NOFILE vs fs.nr_open; kernels whose ioprio_get reports the effective class; "
        "STATUS: the Cpus_allowed_list parser alone on printed lists (ranges, singletons) with random lines before (incl. Name: lines that "
        "look like the key) and text after; "
        "LIVE: the same calls on a spawned `sleep` child with a bystander child (capabilities, fs.nr_open and the ioprio_get behaviour of "
        "this box detected first), read back with os.getpriority, os.sched_getaffinity, resource.prlimit and a raw ioprio_get syscall. "
        "Compared: answer (psutil exceptions with the pid they carry), get form afterwards, complete state of every process afterwards "
        "(against specification and model), and the value of _get_eligible_cpus() on the start state (against the model). "
        "A case is non-trivial when it is a set form or a get on a non-default state; distinct = distinct canonical case hash.")
TRUSTED = ["correspondence harness props/C18.py + props/_c18_sim.py (SimKernel: Python twin of coq/C18/Kernel.v incl. the C argument "
           "conversions of the patched native calls; live part: raw syscalls through ctypes/os/resource)",
           "kernel rules of setpriority (can_nice/RLIMIT_NICE), ioprio_set (ioprio_check_cap), ioprio_get (effective class on >= 5.18), "
           "sched_setaffinity (cpuset clipping), do_prlimit (nr_open, CAP_SYS_RESOURCE) and the Cpus_allowed_list format transcribed in "
           "coq/C18/Kernel.v",
           "the real C wrappers (proc.c, _psutil_posix.c) are tied to the model only by the LIVE cases",
           "source translator props/_c18_gen.py (Python ast -> coq/Gen/C18_Tables.v; rejects every shape it does not know) and the "
           "interpreter of the statement language coq/C18/PyGen.v (Python semantics of is None / truthiness / chained comparison / "
           "`in` a set display / len() / list(set()) / return; LINUX taken as true; an except-OSError handler that re-raises is transparent)"]
ASSUMPTIONS = ["Process._raise_if_pid_reused() passes (the object still denotes its process): C01/C02 own that layer",
               "the caller's uids match the target's (no EPERM from the ownership tests); capabilities are the three modelled flags",
               "scheduling policy SCHED_OTHER for the effective I/O class",
               "x86_64 syscall numbers 251/252 for the raw ioprio calls; LIVE needs root (skipped otherwise)"]
EXHAUSTIVE = {"quick": "nice -20..19 (sim+live); I/O class 0-3 x level None,0..7 (sim+live); all 63 non-empty subsets of a 6-CPU eligible set (sim) "
                       "and all 15 of 4 live CPUs; 16 RLIMIT_* x 7 value pairs (sim); 4 capability sets x RT/BE/IDLE/NONE x 5 levels",
              "thorough": "same sweeps plus all 255 non-empty subsets of an 8-CPU eligible set, the full permission grid and random states/requests"}

INF = -1
DEFAULT_RLIM = [[INF, INF], [INF, INF], [INF, INF], [8388608, INF], [0, INF], [INF, INF], [63000, 63000], [1024, 4096],
                [65536, 65536], [INF, INF], [INF, INF], [63000, 63000], [819200, 819200], [0, 0], [0, 0], [INF, INF]]


def _proc(pid, elig, mask=None, nice=0, ioprio=0, rlim=None):
    """limits are given Python-style (-1 = RLIM_INFINITY) and stored as the kernel holds them (rlim_t)"""
    return {"pid": pid, "nice": nice, "ioprio": ioprio, "mask": list(elig if mask is None else mask), "elig": list(elig),
            "rlim": [[S.u64(a), S.u64(b)] for a, b in (rlim or DEFAULT_RLIM)]}


NOCAPS = {"nice": False, "admin": False, "resource": False}


# affinity situations of the target process: (name, eligible, mask, ncpu)
SITUATIONS = [
    ("plain", [0, 1, 2, 3, 4, 5], None, 8),
    ("multirange", [0, 1, 2, 3, 8, 9, 10, 11], None, 12),
    ("narrowed", [0, 1, 2, 3, 4, 5, 6, 7], [0, 1], 8),
    ("single", [0, 1, 2, 3, 4, 5, 6, 7], [5], 8),
    ("rangefree", [0, 2], None, 4),
    ("lxcfs", [6, 7], None, 2),
    ("first-single", [0, 2, 3], None, 4),
]


def _sim(cls, sit, req, nice=0, ioprio=0, rlim=None, extra_by=True, caps=None, nr_open=1048576, eff=False):
    name, elig, mask, ncpu = sit
    procs = [_proc(4242, elig, mask, nice, ioprio, rlim), _proc(4243, [0, 1, 2, 3], [1, 2], 3, (2 << 13) | 2)]
    if extra_by:
        procs.insert(0, _proc(77, [0, 1], [0], -5, (3 << 13)))
    return {"kind": "sim", "cls": cls, "ncpu": ncpu, "nr": 64 if len(procs) == 2 else 200, "procs": procs, "pid": 4242, "req": req,
            "caps": dict(caps or S.ROOT_CAPS), "nr_open": nr_open, "ioget_eff": eff}


def gen_tables(impl_dir, out_dir):
    """Translate Process.nice/ionice/rlimit/cpu_affinity (psutil/__init__.py) and Process.ionice_set/rlimit
    (psutil/_pslinux.py) of the tree under check into coq/Gen/C18_Tables.v (props/_c18_gen.py; fails closed with
    TranslateError).  coq/C18/ProofsGen.v proves the translated programs equal to the model for all arguments."""
    from props import _c18_gen
    _c18_gen.write_tables(impl_dir, out_dir)


RL_VALUES = [[0, 0], [0, 1], [1, 1], [5, INF], [INF, INF], [2 ** 63 - 1, INF], [-2, INF]]


def gen_cases(rng, tier):
    cases = []
    plain = SITUATIONS[0]
    # ---------------- nice
    for v in list(range(-20, 20)):
        cases.append(_sim("nice-set", plain, ["nice", v], nice=rng.randint(-20, 19)))
    for v in [-21, 20, 100, -2 ** 31, 2 ** 31 - 1, 2 ** 31, -2 ** 31 - 1, 2 ** 64]:
        cases.append(_sim("nice-outside", plain, ["nice", v]))
    for n in [-20, -1, 0, 1, 19]:
        cases.append(_sim("nice-get" if n else "trivial", plain, ["nice", None], nice=n))
    # ---------------- ionice
    for c in [None, -1, 0, 1, 2, 3, 4, 2 ** 18, 2 ** 31] + ([5, 2 ** 18 - 1] if tier != "quick" else []):
        for v in [None, -1, 0, 1, 2, 3, 4, 5, 6, 7, 8, 100, 2 ** 40]:
            cls = "ionice-get" if c is None and v is None else "ionice-valid" if c in (0, 1, 2, 3) and v in (None, 0, 1, 2, 3, 4, 5, 6, 7) \
                else "ionice-invalid"
            cases.append(_sim(cls, plain, ["ionice", c, v], ioprio=rng.choice([0, (1 << 13) | 3, (2 << 13) | 7, 3 << 13])))
    # ---------------- affinity
    el = plain[1]
    for n in range(1, len(el) + 1):
        for sub in itertools.combinations(el, n):
            sub = list(sub)
            rng.shuffle(sub)
            cases.append(_sim("aff-subset", plain, ["aff", sub]))
    for sit in SITUATIONS:
        name, elig, mask, ncpu = sit
        cases.append(_sim("aff-empty-" + name, sit, ["aff", []]))
        cases.append(_sim("aff-get-" + name, sit, ["aff", None]))
        inel = [c for c in range(max(ncpu, max(elig) + 1) + 1) if c not in elig]
        lists = [[elig[0], elig[0]], elig + elig[::-1], [elig[-1]], list(elig)]
        lists += [[c] for c in inel[:4]] + [inel[:3], [99], [-1], [-5], [1024], [1023], [2 ** 63 - 1], [-2 ** 63], [2 ** 70], [-1, 99],
                                            [99, 99], [ncpu], [ncpu - 1], [elig[0], 99], [elig[0], -1], [elig[0], inel[0]], [2 ** 70, elig[0]],
                                            [2 ** 31], [2 ** 32], [2 ** 32 + 1], [2 ** 62], [2 ** 32 + elig[0]], [2 ** 32, elig[0]],
                                            [-1, elig[0]], [99, elig[0], elig[-1]], [elig[0], elig[-1], 99], [99, 98]]
        for l in lists:
            if not l:
                continue
            k = "aff-valid-" if all(c in elig for c in l) else "aff-invalid-" if not any(c in elig for c in l) else "aff-mixed-"
            cases.append(_sim(k + name, sit, ["aff", l]))
    # every shape x {empty, eligible with duplicates, invalid element first / last, only invalid}
    for sh in SHAPES:
        for l in ([], [3, 1, 1], [99, 2], [2, 99], [99], [-1, 2], [2, -1]):
            if _shape_ok(sh, l):
                k = "aff-shape-empty" if not l else "aff-shape-valid" if all(c in el for c in l) else "aff-shape-invalid" if not any(c in el for c in l) else "aff-shape-mixed"
                c = _sim(k, SITUATIONS[2], ["aff", l])
                c["shape"] = sh
                cases.append(c)
    # ---------------- rlimit
    for res in range(16):
        for pair in RL_VALUES:
            cases.append(_sim("rlimit-set", plain, ["rlimit", res, pair]))
        cases.append(_sim("rlimit-get", plain, ["rlimit", res, None]))
    for res, lim in [(-1, None), (16, None), (17, [1, 2]), (2 ** 31, None), (0, []), (1, [1]), (2, [1, 2, 3]), (3, [5, 3]), (4, [INF, 5]),
                     (5, [2 ** 63, 2 ** 63]), (6, [1, 2 ** 64]), (7, [0, 1, 2, 3]), (-1, [1]), (15, [-2 ** 63, -2 ** 63]), (9, [-3, -2])]:
        cases.append(_sim("rlimit-invalid", plain, ["rlimit", res, lim]))
    # ---------------- permissions (EPERM / EACCES paths) and kernel variants
    for caps in (NOCAPS, {"nice": True, "admin": False, "resource": False}, {"nice": False, "admin": True, "resource": False},
                 {"nice": False, "admin": False, "resource": True}):
        tag = "+".join(k for k in ("nice", "admin", "resource") if caps[k]) or "nocaps"
        for start, soft13 in ((0, 0), (0, 25), (5, 0), (-3, 30), (10, 15))[:5 if tier == "thorough" else 2]:
            rl = [list(x) for x in DEFAULT_RLIM]
            rl[13] = [soft13, 40]
            for v in (-20, -10, -6, -5, -4, -1, 0, 4, 5, 6, 10, 19, -21, 25) if tier == "thorough" else (-20, -6, -5, -4, 0, 6, 19, -21):
                cases.append(_sim("perm-nice-" + tag, plain, ["nice", v], nice=start, rlim=rl, caps=caps))
        for c in (0, 1, 2, 3):
            for v in (None, 0, 4, 7, 8) if tier != "quick" else (None, 4, 8):
                cases.append(_sim("perm-ionice-" + tag, plain, ["ionice", c, v], ioprio=(2 << 13) | 1, caps=caps))
        for res, init, pairs in ((7, [1024, 4096], [[5, 4096], [5, 4097], [4096, 8192], [0, 1048576], [0, 1048577], [INF, INF], [5, 10]]),
                                 (4, [0, 100], [[0, 100], [100, 100], [0, 101], [INF, INF], [5, INF], [0, 0]]),
                                 (13, [0, 0], [[0, 0], [0, 1], [20, 40]]),
                                 (0, [INF, INF], [[INF, INF], [5, INF], [-2, INF], [-5, -3], [-3, -5]])):
            rl = [list(x) for x in DEFAULT_RLIM]
            rl[res] = init
            for pair in pairs:
                cases.append(_sim("perm-rlimit-" + tag, plain, ["rlimit", res, pair], rlim=rl, caps=caps))
    cases.append(_sim("perm-rlimit-nr_open", plain, ["rlimit", 7, [10, 2000]], nr_open=1999))
    cases.append(_sim("perm-rlimit-nr_open", plain, ["rlimit", 7, [10, 2000]], nr_open=2000))
    # ioprio_get reporting the effective class (kernels >= 5.18)
    for nice0 in (-20, -7, 0, 3, 19) if tier == "thorough" else (-20, 3, 19):
        for c in (None, 0, 1, 2, 3):
            for v in (None, 0, 5):
                cases.append(_sim("ionice-effective-get", plain, ["ionice", c, v], nice=nice0, ioprio=rng.choice([0, (2 << 13) | 7, 3 << 13]),
                                  eff=True))
        cases.append(_sim("nice-effective-get", plain, ["nice", rng.randint(-20, 19)], nice=nice0, ioprio=0, eff=True))
    # rlimit: scalar limits, representation edge values
    for res in (0, 7, 15, 16, -1):
        for v in (5, 0, -1, 2 ** 70):
            cases.append(_sim("rlimit-scalar", plain, ["rlimit_scalar", res, v]))
    for pair in ([2 ** 63 - 1, 2 ** 63 - 1], [2 ** 63, 2 ** 63], [2 ** 64 - 1, 2 ** 64 - 1], [5, 2 ** 64 - 1], [-1, 2 ** 63 - 1], [2 ** 63 - 1, -1],
                 [-2 ** 63, -1], [-2 ** 63, -2 ** 63], [-2 ** 63 - 1, -1], [-1, -2], [-2, -1], [0, -2 ** 63]):
        cases.append(_sim("rlimit-representation", plain, ["rlimit", 2, pair]))
    # the status parser alone: arbitrary lines before the key line, arbitrary text after it
    cases.extend(_status_cases(rng, 60 if tier == "quick" else 1500 if tier == "thorough" else 200))
    # ---------------- the handle is psutil.Process() of the worker itself: the native calls must get that pid, never 0 / "self"
    for req in (["nice", None], ["nice", 4], ["ionice", None, None], ["ionice", 2, 3], ["aff", None], ["aff", [1, 3]],
                ["rlimit", 7, None], ["rlimit", 7, [100, 4096]]):
        c = _sim("own-pid", plain, req, nice=1, ioprio=(2 << 13) | 5, extra_by=False)
        c["own"] = True
        cases.append(c)
    # ---------------- handle histories: Process / Popen objects whose pid is gone, recycled or still the same process
    cases.extend(_hist_cases(rng, tier))
    # ---------------- random states / requests
    n_rand = {"quick": 60, "thorough": 6000, "search": 400}[tier]
    if tier == "thorough":
        el8 = list(range(2, 10))
        sit8 = ("plain8", el8, None, 12)
        for n in range(1, 9):
            for sub in itertools.combinations(el8, n):
                cases.append(_sim("aff-subset8", sit8, ["aff", list(sub)]))
    for _ in range(n_rand):
        cases.append(_random_sim(rng))
    # ---------------- live
    if tier != "search":
        cases.extend(_live_cases(rng, tier))
    return _assign_forms(cases)


def _random_sim(rng):
    ncpu = rng.choice([1, 2, 4, 8, 12, 16])
    universe = list(range(rng.choice([ncpu, ncpu, ncpu + 4])))
    elig = sorted(rng.sample(universe, rng.randint(1, len(universe))))
    mask = elig if rng.random() < 0.5 else sorted(rng.sample(elig, rng.randint(1, len(elig))))
    rlim = []
    for _ in range(16):
        h = rng.choice([INF, 0, 1, 1024, 2 ** 40, 2 ** 63 - 1])
        s = rng.choice([x for x in [0, 1, 7, 1024, 2 ** 40, INF] if S.u64(x) <= S.u64(h)])
        rlim.append([s, h])
    sit = ("random", elig, mask, ncpu)
    k = rng.random()
    if k < 0.15:
        req = ["nice", rng.choice([None] + list(range(-22, 22)))]
    elif k < 0.35:
        req = ["ionice", rng.choice([None, 0, 1, 2, 3, 4]), rng.choice([None, 0, 1, 4, 7, 8, -1])]
    elif k < 0.8:
        kind = rng.random()
        pool = universe + [ncpu, ncpu + 1, 99, -1, -2, 1023, 1024]
        if kind < 0.2:
            cpus = []
        elif kind < 0.3:
            cpus = None
        elif kind < 0.6:
            cpus = [rng.choice(elig) for _ in range(rng.randint(1, 5))]
        elif kind < 0.8:
            inel = [c for c in pool if c not in elig]
            cpus = [rng.choice(inel) for _ in range(rng.randint(1, 3))]
        else:
            cpus = [rng.choice(pool) for _ in range(rng.randint(1, 4))]
        req = ["aff", cpus]
    else:
        h = rng.choice([INF, 0, 5, 2 ** 63 - 1])
        req = ["rlimit", rng.choice(list(range(16)) + [-1, 16]),
               rng.choice([None, [rng.choice([0, 1, 5, INF]), h], [1], [1, 2, 3], [rng.choice([0, 1, 5, INF]), h]])]
    caps = {k: rng.random() < 0.6 for k in ("nice", "admin", "resource")}
    c = _sim("random-" + req[0], sit, req, nice=rng.randint(-20, 19),
             ioprio=rng.choice([0, (1 << 13) | 3, (2 << 13) | 7, 3 << 13, (2 << 13)]), rlim=rlim, extra_by=rng.random() < 0.5,
             caps=caps, nr_open=rng.choice([1048576, 1024, 2 ** 40]), eff=rng.random() < 0.3)
    return c


HIST_REQS = [["nice", 5], ["nice", 0], ["ionice", 2, 4], ["ionice", 0, None], ["aff", [1, 0]], ["aff", []], ["rlimit", 3, [5, INF]],
             ["rlimit", 4, [0, 0]], ["ionice", 2, 0], ["nice", -3], ["ionice", 3, None], ["aff", [99]], ["rlimit", 7, [10, 20]],
             ["rlimit_scalar", 4, 5], ["rlimit_scalar", 4, 0]]
T0, T1 = 5000, 9000          # start time of the process the handle is created for / of the process that recycled the pid


def _hist(handle, reap, state, req, pre_gone=False, own=None, getpid_after="same"):
    sit = ("plain", [0, 1, 2, 3, 4, 5], None, 8)
    c = _sim("hist-%s-%s-%s%s" % (handle, reap, state, "-pregone" if pre_gone else ""), sit, req, nice=2, ioprio=(2 << 13) | 6, extra_by=False)
    c["kind"] = "hist"
    c.update(handle=handle, reap=reap, state=state, pre_gone=pre_gone)
    if own:
        # wave 8: the handle's pid has the same NUMBER as the observer's os.getpid() when the object is built
        # (own = "arg": Process(pid), "noarg": Process()); getpid_after = "changed": os.getpid() answers another
        # number at the time of the call (what a real os.fork() does to an inherited handle)
        c.update(own=own, getpid_after=getpid_after)
        c["cls"] = "hist-ownalias-%s-%s-getpid-%s" % (own, state, getpid_after)
    if state == "gone":
        c["procs"] = [p for p in c["procs"] if p["pid"] != c["pid"]]
    return c


def _hist_cases(rng, tier):
    out = []
    reqs = HIST_REQS if tier != "quick" else HIST_REQS[:8]
    for req in reqs:
        for reap in ("none", "wait", "poll", "communicate", "with"):
            for state in ("gone", "recycled"):
                out.append(_hist("Popen", reap, state, req))
        for reap in ("none", "wait"):
            for state in ("gone", "recycled"):
                out.append(_hist("Process", reap, state, req))
        out.append(_hist("Popen", "none", "same", req))
        out.append(_hist("Process", "none", "same", req))
        for state in ("gone", "recycled"):
            out.append(_hist("Popen", rng.choice(["none", "wait", "poll"]), state, req, pre_gone=True))
    # SYSTEMATIC, never trimmed (wave 8): process-wide "who am I" state.  Every set form x {Process(pid), Process()} built while
    # os.getpid() == that pid x {pid recycled, gone, same occupant} x {os.getpid() unchanged / changed before the call}
    for req in reqs:
        for own in ("arg", "noarg"):
            for state in ("recycled", "gone", "same"):
                for ga in ("same", "changed"):
                    out.append(_hist("Process", "none", state, req, own=own, getpid_after=ga))
    return out


STATUS_LINES = [b"Name:\tsleep", b"Name:\tCpus_allowed_list:\t0-1", b"Name:\tCpus_allowed_list:", b"Umask:\t0022", b"State:\tS (sleeping)",
                b"Tgid:\t4242", b"Pid:\t4242", b"PPid:\t1", b"Uid:\t0\t0\t0\t0", b"Groups:\t0 ", b"VmPeak:\t    1000 kB", b"Threads:\t1",
                b"CapInh:\t0000000000000000", b"Cpus_allowed:\tffff", b"Cpus_allowed:\t0-3", b"xCpus_allowed_list:\t7-9",
                b" Cpus_allowed_list:\t7-9", b"cpus_allowed_list:\t7-9", b"Cpus_allowed_list\t7-9", b"", b"\t", b"Cpus_allowed_lis",
                b"Name:\t\\nCpus_allowed_list:\t5-6", b"Mems_allowed:\t1", b"Seccomp:\t0"]
STATUS_POST = [b"", b"Mems_allowed_list:\t0\nvoluntary_ctxt_switches:\t1\nnonvoluntary_ctxt_switches:\t2\n",
               b"Cpus_allowed_list:\t0-1023\n", b"Mems_allowed_list:\t0", b"\n\nCpus_allowed_list:\t9-12\nx"]


def _status_cases(rng, n):
    out = []
    for i in range(n):
        ncpu = rng.choice([1, 2, 4, 8, 16, 64])
        universe = rng.choice([8, 16, 40, 300, 1024])
        k = rng.random()
        if k < 0.2:
            mask = sorted(rng.sample(range(universe), rng.randint(1, min(universe, 6))))
        elif k < 0.4:
            a = rng.randrange(universe)
            mask = list(range(a, min(universe, a + rng.randint(1, 12))))
        else:
            mask = sorted(c for c in range(universe) if rng.random() < rng.choice([0.2, 0.5, 0.8]) ) or [rng.randrange(universe)]
            mask = mask[:64]
        pre = [rng.choice(STATUS_LINES) for _ in range(rng.choice([0, 1, 3, 8, 15]))]
        has_range = any(b == a + 1 for a, b in zip(mask, mask[1:]))
        out.append({"kind": "status", "cls": "status-" + ("ranges" if has_range else "singles") + ("-spoofname" if any(b"Name:\tCpus" in l for l in pre) else ""),
                    "pre": [l.hex() for l in pre], "post": rng.choice(STATUS_POST).hex(), "mask": mask, "ncpu": ncpu})
    return out


# ------------------------------------------------------------------ live cases
def _machine():
    """facts of this box: eligible CPUs of a fresh child as the kernel clips them, number of cpuN lines in /proc/stat,
    effective capabilities of this process, fs.nr_open, whether ioprio_get reports the effective class for NONE"""
    import subprocess
    c = subprocess.Popen(["sleep", "5"])
    eff = False
    try:
        os.sched_setaffinity(c.pid, range(1024))
        elig = sorted(os.sched_getaffinity(c.pid))
        try:
            S.raw_ioprio_set(c.pid, 0)
            eff = S.raw_ioprio_get(c.pid) != 0
        except OSError:
            pass
    finally:
        c.kill()
        c.wait()
    ncpu = 0
    with open("/proc/stat") as f:
        f.readline()
        for ln in f:
            if ln.startswith("cpu"):
                ncpu += 1
    capeff = 0
    with open("/proc/self/status") as f:
        for ln in f:
            if ln.startswith("CapEff:"):
                capeff = int(ln.split()[1], 16)
    caps = {"admin": bool(capeff >> 21 & 1), "nice": bool(capeff >> 23 & 1), "resource": bool(capeff >> 24 & 1)}
    with open("/proc/sys/fs/nr_open") as f:
        nr_open = int(f.read())
    return {"elig": elig, "ncpu": ncpu, "caps": caps, "nr_open": nr_open, "eff": eff}


_MACHINE = {}


def _m():
    if not _MACHINE:
        _MACHINE.update(_machine())
    return _MACHINE


def _live(cls, elig, ncpu, req, mask=None, nice=0, ioprio=0, rlim=None):
    procs = [_proc(1000, elig, mask, nice, ioprio, rlim), _proc(1001, elig, elig[:2], 3, (2 << 13) | 2, rlim)]
    m = _m()
    return {"kind": "live", "cls": cls, "ncpu": ncpu, "nr": 1024, "procs": procs, "pid": 1000, "req": req,
            "caps": dict(m["caps"]), "nr_open": m["nr_open"], "ioget_eff": m["eff"]}


def _live_cases(rng, tier):
    import platform
    if platform.machine() != "x86_64" or os.geteuid() != 0:
        return []
    m = _m()
    elig, ncpu = m["elig"], m["ncpu"]
    out = []
    for v in range(-20, 20):
        out.append(_live("live-nice-set", elig, ncpu, ["nice", v], nice=rng.choice([0, 5, -5])))
    # SYSTEMATIC, never trimmed: the errno protocol of psutil_posix_getpriority.  The child sits at nice v; a call that fails (and
    # leaves errno set in this thread) comes first; p.nice() and p.as_dict(['nice']) must still return v
    for v in (-20, -2, -1, 0, 1, 19):
        for pre in ("none", "kill_dead", "stat_vanished", "process_dead"):
            c = _live("live-nice-get-after-failing-call", elig, ncpu, ["nice", None], nice=v)
            c["pre"] = pre
            out.append(c)
    for v in [-21, 20, 2 ** 31]:
        out.append(_live("live-nice-outside", elig, ncpu, ["nice", v]))
    out.append(_live("live-nice-get", elig, ncpu, ["nice", None], nice=-1))
    for c in [None, 0, 1, 2, 3, 4, -1]:
        for v in [None, -1, 0, 1, 2, 3, 4, 5, 6, 7, 8]:
            cls = "live-ionice-get" if c is None and v is None else "live-ionice-valid" if c in (0, 1, 2, 3) and v in (None, 0, 1, 2, 3, 4, 5, 6, 7) \
                else "live-ionice-invalid"
            out.append(_live(cls, elig, ncpu, ["ionice", c, v], ioprio=rng.choice([0, (1 << 13) | 3, (2 << 13) | 7, 3 << 13])))
    few = elig[:4]
    for n in range(1, len(few) + 1):
        for sub in itertools.combinations(few, n):
            out.append(_live("live-aff-subset", elig, ncpu, ["aff", list(sub)], mask=rng.choice([None, elig[-1:]])))
    for sh in SHAPES:
        for l in ([], elig[:2] + elig[:1], [1024, elig[0]], [1024]):
            if _shape_ok(sh, l):
                c = _live("live-aff-shape", elig, ncpu, ["aff", list(l)], mask=elig[-1:])
                c["shape"] = sh
                out.append(c)
    states = [("fresh", None), ("single", elig[-1:])]
    if len(elig) >= 3:
        states.append(("narrowed", elig[:2]))
    if len(elig) >= 6:
        states.append(("multirange", elig[:2] + elig[3:5]))
        states.append(("first-single", elig[:1] + elig[2:4]))
    inel = [c for c in range(1024) if c not in elig][:2]
    for name, mask in states:
        out.append(_live("live-aff-empty-" + name, elig, ncpu, ["aff", []], mask=mask))
        out.append(_live("live-aff-get-" + name, elig, ncpu, ["aff", None], mask=mask))
        # incl. numbers that fit a C long but not an int: a C layer narrowing them would turn 2^32+k into CPU k
        for l in [[elig[0], elig[0]], list(elig) + [elig[0]], [1023], [-1], [-5], [1024], [2 ** 63 - 1], [2 ** 70], inel[:1], inel[:2],
                  [elig[0], 1024], [1024, -1], [2 ** 31], [2 ** 32], [2 ** 32 + 1], [2 ** 62], [2 ** 32 + elig[0]], [2 ** 32 + elig[-1]],
                  [-2 ** 32], [2 ** 31 + elig[0]], [2 ** 32, elig[0]], [2 ** 32 + elig[-1], elig[0]]]:
            if not l:
                continue
            k = "live-aff-valid-" if all(c in elig for c in l) else "live-aff-invalid-" if not any(c in elig for c in l) else "live-aff-mixed-"
            out.append(_live(k + name, elig, ncpu, ["aff", l], mask=mask))
    import resource
    base = [list(resource.getrlimit(r)) for r in range(16)]
    for c in out:
        for pr in c["procs"]:
            pr["rlim"] = [[S.u64(a), S.u64(b)] for a, b in base]
    for res in range(16):
        H = base[res][1]
        cand = [[0, 0], [0, 1], [1, 1], [5, INF], [INF, INF], [7, H], [H, H], [0, H], [base[res][0], H], [2 ** 63 - 1, INF]]
        seen = []
        for s_, h_ in cand:
            if S.u64(h_) <= S.u64(H) and S.u64(s_) <= S.u64(h_) and [s_, h_] not in seen:
                seen.append([s_, h_])
        for pair in seen:
            c = _live("live-rlimit-set", elig, ncpu, ["rlimit", res, list(pair)], rlim=base)
            c["fresh"] = True
            out.append(c)
        out.append(_live("live-rlimit-get", elig, ncpu, ["rlimit", res, None], rlim=base))
        for lim in ([], [1], [1, 2, 3], [5, 3]) if (tier != "quick" or res in (0, 7, 13, 15)) else ([1],):
            out.append(_live("live-rlimit-invalid", elig, ncpu, ["rlimit", res, lim], rlim=base))
        out.append(_live("live-rlimit-scalar", elig, ncpu, ["rlimit_scalar", res, 5], rlim=base))
        if H != INF:
            # raising the hard limit: AccessDenied without CAP_SYS_RESOURCE, success with it (fresh pair: irreversible either way)
            for pair in ([base[res][0], H + 1], [H + 1, H + 1], [0, INF]):
                if res == 7 and S.u64(pair[1]) > m["nr_open"] and m["caps"]["resource"]:
                    continue
                c = _live("live-rlimit-raise-hard", elig, ncpu, ["rlimit", res, pair], rlim=base)
                c["fresh"] = True
                out.append(c)
    out.extend(_fork_cases(m, base))
    return out


def _fork_cases(m, base):
    """parent = the worker (pid 1000 in the model) creates psutil.Process() for itself and forks; the child (1001) gives itself
    other settings and calls through the inherited handle: the call must read / change the PARENT"""
    elig, ncpu = m["elig"], m["ncpu"]
    if len(elig) < 3 or base[7][0] < 64:
        return []
    nice0 = os.getpriority(os.PRIO_PROCESS, 0)
    mask0 = sorted(os.sched_getaffinity(0))
    try:
        io0 = S.raw_ioprio_get(0)
    except OSError:
        return []
    if m["eff"] or nice0 > 10 or len(mask0) < 3:
        return []
    soft, hard = base[7]
    child_rl = [list(x) for x in base]
    child_rl[7] = [soft - 7, hard]
    reqs = [["rlimit", 7, None], ["nice", None], ["aff", None], ["ionice", None, None],
            ["rlimit", 7, [soft - 11, hard]], ["aff", mask0[1:3]], ["ionice", 2, 5]]
    if m["caps"]["nice"]:
        reqs.append(["nice", nice0 + 1])
    out = []
    for req in reqs:
        procs = [_proc(1000, elig, mask0, nice0, io0, base), _proc(1001, elig, mask0[:1], nice0 + 3, (2 << 13) | 1, child_rl)]
        out.append({"kind": "fork", "cls": "fork-" + ("get" if req[-1] is None else "set"), "ncpu": ncpu, "nr": 1024, "procs": procs,
                    "pid": 1000, "req": req, "caps": dict(m["caps"]), "nr_open": m["nr_open"], "ioget_eff": m["eff"]})
    return out


# ------------------------------------------------------------------ call forms
METHOD = {"nice": ("nice", "MNice", ["value"]), "ionice": ("ionice", "MIonice", ["ioclass", "value"]),
          "aff": ("cpu_affinity", "MAffinity", ["cpus"]), "rlimit": ("rlimit", "MRlimit", ["resource", "limits"]),
          "rlimit_scalar": ("rlimit", "MRlimit", ["resource", "limits"])}
FORMS = ["pos", "kw", "mixed", "kwrev", "omit"]


def mk_call(req, form):
    """(python method name, Coq method, positional values, keyword (name, value) pairs) of a request in a call form:
    pos = all positional (None spelled out); kw = all keywords; kwrev = keywords in reverse order; mixed = first positional, rest
    keywords; omit = arguments that are None are left out (the others positional, after a gap as keywords)."""
    meth, cm, names = METHOD[req[0]]
    vals = list(req[1:])
    if form == "pos":
        pos, kw = vals, []
    elif form == "kw":
        pos, kw = [], list(zip(names, vals))
    elif form == "kwrev":
        pos, kw = [], list(zip(names, vals))[::-1]
    elif form == "mixed":
        pos, kw = vals[:1], list(zip(names[1:], vals[1:]))
    elif form == "omit":
        pos, kw, gap = [], [], False
        for n, v in zip(names, vals):
            if v is None and n != "resource":
                gap = True
            elif gap:
                kw.append((n, v))
            else:
                pos.append(v)
    else:
        raise ValueError(form)
    return meth, cm, pos, kw


SHAPES = ["list", "generator", "tuple", "iter", "set", "map", "frozenset", "chain", "dict_keys", "lines", "range"]
COQ_SHAPE = {"list": "SList", "tuple": "STuple", "set": "SSet", "frozenset": "SFrozenset", "range": "SRange", "dict_keys": "SDictKeys",
             "iter": "SIter", "generator": "SGenerator", "map": "SMap", "chain": "SChain", "lines": "SLines"}
LTYPES = ["tuple", "list", "generator", "iter"]
VTYPES = ["int", "intenum", "bool", "intsub"]


class _Lines:
    """a file-like line iterator yielding ints (one-shot)"""

    def __init__(self, items):
        self._it = iter(list(items))

    def __iter__(self):
        return self

    def __next__(self):
        return next(self._it)

    def readline(self):
        return next(self._it, "")


def mk_iterable(shape, items):
    """a fresh object of that shape yielding [items] (sets: in their own order, duplicates merged)"""
    import itertools
    items = list(items)
    if shape == "list":
        return list(items)
    if shape == "tuple":
        return tuple(items)
    if shape == "set":
        return set(items)
    if shape == "frozenset":
        return frozenset(items)
    if shape == "range":
        return range(items[0], items[-1] + 1) if items else range(0)
    if shape == "dict_keys":
        return dict.fromkeys(items).keys()
    if shape == "iter":
        return iter(items)
    if shape == "generator":
        return (x for x in items)
    if shape == "map":
        return map(int, [str(x) for x in items])
    if shape == "chain":
        return itertools.chain(items[:1], items[1:])
    if shape == "lines":
        return _Lines(items)
    raise ValueError(shape)


def _shape_ok(shape, items):
    if shape == "range":
        return all(abs(x) < 2 ** 40 for x in items) and items == list(range(items[0], items[-1] + 1)) if items else True
    return True


def mk_value(vtype, v):
    """the int v as an instance of a subclass of int"""
    import enum
    if vtype == "bool" and v in (0, 1):
        return bool(v)
    if vtype == "intenum" and isinstance(v, int):
        return enum.IntEnum("E", {"A": v}).A
    if vtype == "intsub" and isinstance(v, int):
        return type("MyInt", (int,), {})(v)
    return v


def _assign_forms(cases):
    _assign_shapes(cases)
    return _assign_forms0(cases)


def _assign_shapes(cases):
    """the container shape is a dimension of every cpu_affinity set request, the sequence type of every rlimit limits
    argument, the int type of every nice / ionice value: dealt round-robin per class"""
    seen = {}
    for c in cases:
        req = c.get("req")
        if not req:
            continue
        key = (c["kind"], c["cls"], req[0])
        i = seen.get(key, 3 * len(seen))
        seen[key] = i + 1
        if req[0] == "aff" and req[1] is not None and "shape" not in c:
            for j in range(len(SHAPES)):
                sh = SHAPES[(i + j) % len(SHAPES)]
                if _shape_ok(sh, req[1]):
                    break
            c["shape"] = sh
        elif req[0] == "rlimit" and req[2] is not None and "ltype" not in c:
            c["ltype"] = LTYPES[i % len(LTYPES)]
        elif req[0] in ("nice", "ionice") and "vtype" not in c:
            c["vtype"] = VTYPES[i % len(VTYPES)]
    return cases


def _assign_forms0(cases):
    """the call form is a dimension of every request: forms are dealt round-robin per (kind, class) so that each class meets all"""
    seen = {}
    for c in cases:
        if "req" in c and "form" not in c:
            key = (c["kind"], c["cls"])
            i = seen.get(key, len(seen))          # classes start at different offsets
            c["form"] = FORMS[i % len(FORMS)]
            seen[key] = i + 1
    return cases


def _pyval(v):
    if v is None:
        return "PNone"
    if isinstance(v, int):
        return "(PInt %s)" % G.z(v)
    return "(PList %s)" % _zl(v)


def _call_term(case):
    meth, cm, pos, kw = mk_call(case["req"], case.get("form", "pos"))
    names = METHOD[case["req"][0]][2]

    def pv(n, v):
        if n == "cpus" and isinstance(v, list) and case.get("shape", "list") != "list":
            return "(PIter %s %s)" % (COQ_SHAPE[case["shape"]], _zl(v))
        if n == "limits" and isinstance(v, list) and case.get("ltype", "tuple") in ("generator", "iter"):
            return "(PIter %s %s)" % (COQ_SHAPE[case["ltype"]], _zl(v))
        return _pyval(v)
    return "%s (Build_call %s %s)" % (cm, G.lst([pv(n, v) for n, v in zip(names, pos)]),
                                      G.lst(['("%s"%%string, %s)' % (n, pv(n, v)) for n, v in kw]))


# ------------------------------------------------------------------ Coq terms
def _opt(x, f):
    return "None" if x is None else "(Some %s)" % f(x)


def _zl(l):
    return "[" + ";".join(G.z(x) for x in l) + "]"


def _req_term(req):
    k = req[0]
    if k == "nice":
        return "(Nice %s)" % _opt(req[1], G.z)
    if k == "ionice":
        return "(Ionice %s %s)" % (_opt(req[1], G.z), _opt(req[2], G.z))
    if k == "aff":
        return "(Affinity %s)" % _opt(req[1], _zl)
    if k == "rlimit":
        return "(Rlimit %s %s)" % (G.z(req[1]), _opt(req[2], _zl))
    if k == "rlimit_scalar":
        return "(RlimitScalar %s %s)" % (G.z(req[1]), G.z(req[2]))
    raise ValueError(k)


def _proc_term(p):
    def lim(v):      # large numerals are slow to parse: name the common one
        return "RLIM_INFINITY" if v == 2 ** 64 - 1 else G.z(v)
    rl = "[" + ";".join("(%s,%s)" % (lim(s), lim(h)) for s, h in p["rlim"]) + "]"
    return "(%s, Build_proc %s %s %s %s %s)" % (G.z(p["pid"]), G.z(p["nice"]), G.z(p["ioprio"]), _zl(p["mask"]), _zl(p["elig"]), rl)


def _fill_auto(case):
    """A live corpus case carries only the request; the machine-dependent start state is filled in here."""
    import resource
    m = _m()
    base = [list(resource.getrlimit(r)) for r in range(16)]
    mask = {"fresh": None, "last": m["elig"][-1:], "two": m["elig"][:2]}[case.get("state", "fresh")]
    full = _live(case.get("cls", "live-corpus"), m["elig"], m["ncpu"], case["req"], mask=mask, rlim=base)
    for k, v in full.items():
        case.setdefault(k, v)


def coq_term(case):
    if case["kind"] == "status":
        return "run_status %s %s %s %s" % (G.lst([G.by(bytes.fromhex(l)) for l in case["pre"]]), G.by(bytes.fromhex(case["post"])),
                                           _zl(case["mask"]), G.z(case["ncpu"]))
    if case.get("auto") and "procs" not in case:
        _fill_auto(case)
    if "caps" not in case:
        S.normalise(case)        # corpus files written before the kernel had these parameters
    c = case["caps"]
    k = "(Build_kernel %s %s %s %s %s %s %s %s)" % (G.lst([_proc_term(p) for p in case["procs"]]), G.z(case["ncpu"]), G.z(case["nr"]),
                                                    G.bo(c["nice"]), G.bo(c["admin"]), G.bo(c["resource"]), G.z(case["nr_open"]),
                                                    G.bo(case["ioget_eff"]))
    if case["kind"] == "hist":
        h = "(Build_handle %s %s %s %s false %s)" % ({"Popen": "HPopen", "Process": "HProcess"}[case["handle"]], G.z(case["pid"]), G.z(T0),
                                                     G.bo(case["pre_gone"]),
                                                     {"none": "NotReaped", "wait": "ByWait", "poll": "ByPoll", "communicate": "ByCommunicate",
                                                      "with": "ByWith"}[case["reap"]])
        occ = {"gone": "None", "recycled": "(Some %s)" % G.z(T1), "same": "(Some %s)" % G.z(T0)}[case["state"]]
        return "run_hist_c %s %s %s %s" % (h, occ, k, _call_term(case))
    return "run_case_c %s %s %s" % (k, G.z(case["pid"]), _call_term(case))


def _expand(case, dump):
    """replace the markers Same pid of a printed kernel state by the start state of that process"""
    start = {p["pid"]: [p["pid"], p["nice"], S.reported_ioprio(case["ioget_eff"], p["ioprio"], p["nice"]), list(p["mask"]), list(p["elig"]),
                        [list(x) for x in p["rlim"]]] for p in case["procs"]}
    return [start[e["a"][0]] if isinstance(e, dict) and e.get("t") == "Same" else e for e in dump]


def coq_struct(case, raw):
    if case["kind"] == "status":
        return {"printed": raw[0], "model": raw[1], "spec": None}
    if case["kind"] == "hist":
        if raw[6] is not True:
            raise RuntimeError("C18 generator produced an ill-formed kernel state: %r" % (case,))
        spec = raw[5]
        if spec is not None:
            spec = [spec[0], _expand(case, spec[1])]
        return {"printed": raw[0], "model": [raw[1], _expand(case, raw[2]), raw[3], raw[4]], "spec": spec}
    raw[3] = _expand(case, raw[3])
    if raw[5] is not None:
        raw[5][2] = _expand(case, raw[5][2])
    if raw[6] is not True:
        raise RuntimeError("C18 generator produced an ill-formed kernel state: %r" % (case,))
    return {"printed": raw[0], "model": [raw[1], raw[2], raw[3], raw[4]], "spec": raw[5]}


# ------------------------------------------------------------------ verdict
def judge(case, coq, impl):
    """impl = [answer, get form afterwards, state of every process afterwards, _get_eligible_cpus() before];
    the first three are what the property speaks about (spec), the fourth ties the status parser to the model."""
    from pv.core import Verdict
    if isinstance(impl, dict) and impl.get("t") == "Skip":
        return Verdict("skip", str(impl.get("a")))
    if case["kind"] == "status":
        return Verdict("ok") if impl == coq["model"] else Verdict("corr", "_get_eligible_cpus(): impl != model")
    if case["kind"] == "hist":
        # impl = [answer, state of every process afterwards, was a native set call entered?, [_gone, _pid_reused]]
        if coq["spec"] is not None:
            if impl[:2] != coq["spec"]:
                return Verdict("violation", "impl != spec")
            if case["state"] == "recycled" and impl[2]:
                return Verdict("violation", "a setter system call was issued for a recycled pid")
        mo = coq["model"]
        if impl[0] != mo[0] or impl[1] != mo[1] or impl[3] != mo[3] or (mo[2] is False and impl[2]):
            return Verdict("corr", "impl != model")
        return Verdict("ok")
    m = coq["model"][0]
    if isinstance(m, dict) and m.get("t") == "OutOfModel":
        return Verdict("skip", "OutOfModel")
    if len(impl) > 4:
        if impl[4] is not True:
            return Verdict("violation", "a native call was issued with a pid other than the handle's: %r" % (impl[4],))
        impl = impl[:4]
    if coq["spec"] is not None and impl[:3] != coq["spec"]:
        return Verdict("violation", "impl != spec")
    if impl != coq["model"]:
        return Verdict("corr", "impl != model")
    return Verdict("ok")


# ------------------------------------------------------------------ implementation side
def _conv(r):
    if r is None:
        return None
    if isinstance(r, int):
        return int(r)
    return [int(x) for x in r]


def _out(fn, conv, pidmap=None):
    """like pv.canon.outcome, but psutil's own exceptions keep the pid they carry (mapped to the model's pid)"""
    try:
        r = fn()
    except BaseException as e:  # noqa
        if isinstance(e, (KeyboardInterrupt, SystemExit, S.OutOfModel)):
            raise
        from pv.canon import PSUTIL_EXC, exc_name
        n = exc_name(e)
        if n in PSUTIL_EXC:
            pid = getattr(e, "pid", None)
            return T("Exc", T(n, (pidmap or {}).get(pid, pid)))
        return Exc(n)
    return Val(conv(r))


def _call(p, req, form="pos", case=None):
    meth, _, pos, kw = mk_call(req, form)
    case = case or {}

    def conv(name, v):
        if name == "cpus" and isinstance(v, list):
            return mk_iterable(case.get("shape", "list"), v)
        if name == "limits" and isinstance(v, list):
            return mk_iterable(case.get("ltype", "tuple"), v)
        if name in ("value", "ioclass") and isinstance(v, int):
            return mk_value(case.get("vtype", "int"), v)
        return v
    names = METHOD[req[0]][2]
    args = [conv(n, v) for n, v in zip(names, pos)]
    kwargs = {n: conv(n, v) for n, v in kw}
    return lambda: getattr(p, meth)(*args, **kwargs)


def _get_call(p, req):
    k = req[0]
    if k == "nice":
        return lambda: p.nice()
    if k == "ionice":
        return lambda: p.ionice()
    if k == "aff":
        return lambda: p.cpu_affinity()
    return lambda: p.rlimit(req[1])


def impl_run(case, coq, env):
    if case["kind"] == "sim":
        return _run_sim(case, coq, env)
    if case["kind"] == "status":
        return _run_status(case, coq, env)
    if case["kind"] == "hist":
        return _run_hist(case, coq, env)
    if case["kind"] == "fork":
        import platform
        if platform.machine() != "x86_64" or os.geteuid() != 0:
            return T("Skip", "live cases need root on x86_64")
        return _run_fork(case, coq, env)
    import platform
    if platform.machine() != "x86_64" or os.geteuid() != 0:
        return T("Skip", "live cases need root on x86_64")
    return _run_live(case, coq, env)


def _run_status(case, coq, env):
    import psutil
    from pv import fakeproc
    root = os.path.join(env["work"], "proc")
    fp = fakeproc.FakeProc(root)
    with open(os.path.join(root, "stat"), "wb") as f:
        f.write(b"cpu  10 0 10 100 0 0 0 0 0 0\n" + b"".join(b"cpu%d 1 0 1 10 0 0 0 0 0 0\n" % i for i in range(case["ncpu"]))
                + b"intr 5\nctxt 7\nbtime 1500000000\nprocesses 3\nprocs_running 1\nprocs_blocked 0\nsoftirq 9\n")
    fakeproc.attach(psutil, root)
    fp.add(4242, comm=b"sleep")
    fp.write(4242, "status", unB(coq["printed"]))
    p = psutil.Process(4242)
    return outcome(p._proc._get_eligible_cpus, _conv)


def _run_hist(case, coq, env):
    """A real child spawned through psutil.Popen (or wrapped in psutil.Process); /proc is the fake tree, in which the child
    appears with start time T0; its exit status is collected through the handle in the stated way; then the fake tree shows
    nobody / somebody else (start time T1) / the same process under that pid, and one set form is called through the handle
    with the native set calls replaced by the SimKernel (which records every call)."""
    import copy
    import resource
    import signal
    import subprocess
    import time
    import psutil
    from psutil import _psutil_linux as cext
    from psutil import _psutil_posix as cext_posix
    from pv import fakeproc
    root = os.path.join(env["work"], "proc")
    fp = fakeproc.FakeProc(root)
    with open(os.path.join(root, "stat"), "wb") as f:
        f.write(b"cpu  10 0 10 100 0 0 0 0 0 0\n" + b"".join(b"cpu%d 1 0 1 10 0 0 0 0 0 0\n" % i for i in range(case["ncpu"]))
                + b"intr 5\nctxt 7\nbtime 1500000000\nprocesses 3\nprocs_running 1\nprocs_blocked 0\nsoftirq 9\n")
    fakeproc.attach(psutil, root)
    status = {q: unB(b) for q, b in coq["printed"]}
    real_popen = subprocess.Popen

    def show(pid, starttime):
        fp.add(pid, comm=b"sleep", starttime=starttime)
        if case["pid"] in status:
            fp.write(pid, "status", status[case["pid"]])

    class Hooked(real_popen):
        def __init__(self, *a, **k):
            super().__init__(*a, **k)
            if not case["pre_gone"]:
                show(self.pid, T0)

    own = case.get("own")
    real_getpid = os.getpid
    if own:
        # no real child: the process the handle is built for exists in the fake tree only, under the number that
        # os.getpid() answers while the object is built
        show(case["pid"], T0)
        os.getpid = lambda: case["pid"]
        try:
            p = psutil.Process() if own == "noarg" else psutil.Process(case["pid"])
        except BaseException:
            os.getpid = real_getpid
            raise
        try:
            return _run_hist_rest(case, p, None, fp, show, own, real_getpid)
        finally:
            os.getpid = real_getpid
    subprocess.Popen = Hooked
    try:
        if case["handle"] == "Popen":
            p = psutil.Popen(["sleep", "30"])
            child = None
        else:
            child = Hooked(["sleep", "30"])
            p = psutil.Process(child.pid)
    finally:
        subprocess.Popen = real_popen
    return _run_hist_rest(case, p, child, fp, show, None, real_getpid)


def _run_hist_rest(case, p, child, fp, show, own, real_getpid):
    import copy
    import resource
    import signal
    import time
    from psutil import _psutil_linux as cext
    from psutil import _psutil_posix as cext_posix
    pid = p.pid
    alive = not own
    try:
        if own:
            pass
        elif case["reap"] != "none" or case["state"] != "same":
            os.kill(pid, signal.SIGKILL)
            alive = False
        if case["reap"] == "wait":
            p.wait()
        elif case["reap"] == "poll":
            while p.poll() is None:
                time.sleep(0.002)
        elif case["reap"] == "communicate":
            p.communicate()
        elif case["reap"] == "with":
            with p:
                pass
        elif not alive and not own:
            os.waitpid(pid, 0)           # somebody else collected it; the handle was not told
        # what the kernel shows under that pid now
        if case["state"] == "gone":
            fp.remove(pid)
        elif case["state"] == "recycled":
            show(pid, T1)
        elif case["pre_gone"]:
            show(pid, T0)
        kc = copy.deepcopy(case)
        for pr in kc["procs"]:
            if pr["pid"] == case["pid"]:
                pr["pid"] = pid
        for pr in kc["procs"]:
            if pr["pid"] != pid:
                fp.add(pr["pid"], comm=b"other")
        sk = S.SimKernel(kc)
        calls = []

        def counted(name):
            f = getattr(sk, name)

            def g(*a, **k):
                if name != "prlimit" or len(a) > 2 or "limits" in k:
                    calls.append(name)
                return f(*a, **k)
            return g
        saved = [(cext_posix, "getpriority"), (cext_posix, "setpriority"), (cext, "proc_ioprio_get"), (cext, "proc_ioprio_set"),
                 (cext, "proc_cpu_affinity_get"), (cext, "proc_cpu_affinity_set"), (resource, "prlimit")]
        orig = [(m, n, getattr(m, n)) for m, n in saved]
        try:
            for m, n in saved:
                setattr(m, n, counted(n) if n in ("setpriority", "proc_ioprio_set", "proc_cpu_affinity_set", "prlimit") else getattr(sk, n))
            if own and case.get("getpid_after") == "changed":
                os.getpid = lambda: case["pid"] + 1000
            res = _out(_call(p, case["req"], case.get("form", "pos"), case), _conv, {pid: case["pid"]})
        finally:
            for m, n, f in orig:
                setattr(m, n, f)
            if own:
                os.getpid = real_getpid
        dump = [[case["pid"] if e[0] == pid else e[0]] + e[1:] for e in sk.dump()]
        return [res, dump, bool(calls), [bool(p._gone), bool(p._pid_reused)]]
    finally:
        if alive:
            try:
                os.kill(pid, signal.SIGKILL)
                os.waitpid(pid, 0)
            except OSError:
                pass


def _run_sim(case, coq, env):
    import resource
    import psutil
    from psutil import _psutil_linux as cext
    from psutil import _psutil_posix as cext_posix
    from pv import fakeproc
    root = os.path.join(env["work"], "proc")
    fp = fakeproc.FakeProc(root)
    with open(os.path.join(root, "stat"), "wb") as f:
        f.write(b"cpu  10 0 10 100 0 0 0 0 0 0\n" + b"".join(b"cpu%d 1 0 1 10 0 0 0 0 0 0\n" % i for i in range(case["ncpu"]))
                + b"intr 5\nctxt 7\nbtime 1500000000\nprocesses 3\nprocs_running 1\nprocs_blocked 0\nsoftirq 9\n")
    fakeproc.attach(psutil, root)
    status = {q: unB(b) for q, b in coq["printed"]}
    for pr in case["procs"]:
        fp.add(pr["pid"], comm=b"sleep")
        if pr["pid"] in status:
            fp.write(pr["pid"], "status", status[pr["pid"]])
    tpid = case["pid"]
    kc = case
    if case.get("own"):
        # the target is this very process: its pid appears in the fake tree and in the simulated kernel
        import copy
        tpid = os.getpid()
        kc = copy.deepcopy(case)
        for pr in kc["procs"]:
            if pr["pid"] == case["pid"]:
                pr["pid"] = tpid
        fp.add(tpid, comm=b"python")
        if case["pid"] in status:
            fp.write(tpid, "status", status[case["pid"]])
    sk = S.SimKernel(kc)
    saved = [(cext_posix, "getpriority"), (cext_posix, "setpriority"), (cext, "proc_ioprio_get"), (cext, "proc_ioprio_set"),
             (cext, "proc_cpu_affinity_get"), (cext, "proc_cpu_affinity_set"), (resource, "prlimit")]
    orig = [(m, n, getattr(m, n)) for m, n in saved]
    try:
        for m, n in saved:
            setattr(m, n, getattr(sk, n))
        p = psutil.Process() if case.get("own") else psutil.Process(case["pid"])
        elig = _out(p._proc._get_eligible_cpus, _conv, {tpid: case["pid"]})
        try:
            res = _out(_call(p, case["req"], case.get("form", "pos"), case), _conv, {tpid: case["pid"]})
        except S.OutOfModel as e:
            return T("Skip", str(e))
        got = _out(_get_call(p, case["req"]), _conv, {tpid: case["pid"]})
    except S.OutOfModel as e:
        return T("Skip", str(e))
    finally:
        for m, n, f in orig:
            setattr(m, n, f)
    dump = [[case["pid"] if e[0] == tpid else e[0]] + e[1:] for e in sk.dump()]
    wrong = sorted(set(q for q in sk.pids if q != tpid))
    return [res, got, dump, elig, True if not wrong else wrong]


def _run_fork(case, coq, env):
    """the worker creates psutil.Process() for itself and forks; the child gives itself the settings of model process 1001 and calls
    through the inherited handle; it reports through a pipe what the kernel says about the parent and about itself afterwards"""
    import json
    import resource
    import psutil
    psutil.PROCFS_PATH = "/proc"
    try:
        psutil._pmap.clear()
        psutil._pids_reused.clear()
    except Exception:
        pass
    req = case["req"]
    par, chi = case["procs"]
    me = os.getpid()

    def observe(pid):
        return {"nice": os.getpriority(os.PRIO_PROCESS, pid), "ioprio": S.raw_ioprio_get(pid),
                "mask": sorted(os.sched_getaffinity(pid)), "rlim": [[S.u64(x) for x in resource.prlimit(pid, r)] for r in range(16)]}

    def state_of(st):
        return {"nice": st["nice"], "ioprio": S.reported_ioprio(case["ioget_eff"], st["ioprio"], st["nice"]), "mask": st["mask"],
                "rlim": st["rlim"]}
    mine = observe(me)
    if mine != state_of(par):
        return T("Skip", "the worker is not in the start state the case was generated for")
    p = psutil.Process()                      # created in the parent, for the parent
    r, w = os.pipe()
    child = os.fork()
    if child == 0:
        try:
            os.close(r)
            cpid = os.getpid()
            os.setpriority(os.PRIO_PROCESS, 0, chi["nice"])
            S.raw_ioprio_set(cpid, chi["ioprio"])
            os.sched_setaffinity(0, chi["mask"])
            resource.setrlimit(7, (S.rlim2py(chi["rlim"][7][0]), S.rlim2py(chi["rlim"][7][1])))
            before = [observe(me), observe(cpid)]
            pidmap = {me: par["pid"], cpid: chi["pid"]}
            elig = _out(p._proc._get_eligible_cpus, _conv, pidmap)
            res = _out(_call(p, req, case.get("form", "pos"), case), _conv, pidmap)
            got = _out(_get_call(p, req), _conv, pidmap)
            after = [observe(me), observe(cpid)]
            os.write(w, json.dumps({"before": before, "after": after, "res": res, "got": got, "elig": elig}).encode())
        except BaseException as e:  # noqa
            import traceback
            os.write(w, json.dumps({"error": traceback.format_exc()[-1500:]}).encode())
        finally:
            os._exit(0)
    os.close(w)
    data = b""
    while True:
        b = os.read(r, 65536)
        if not b:
            break
        data += b
    os.close(r)
    os.waitpid(child, 0)
    # put the worker back where it was
    try:
        os.setpriority(os.PRIO_PROCESS, 0, mine["nice"])
        S.raw_ioprio_set(me, par["ioprio"])
        os.sched_setaffinity(0, mine["mask"])
        resource.setrlimit(7, (S.rlim2py(mine["rlim"][7][0]), S.rlim2py(mine["rlim"][7][1])))
    except OSError:
        pass
    rep = json.loads(data.decode())
    if "error" in rep:
        raise RuntimeError("fork child failed: " + rep["error"])
    if rep["before"] != [state_of(par), state_of(chi)]:
        return T("Skip", "could not bring parent and child into the start state")
    dump = [[st["pid"], a["nice"], a["ioprio"], a["mask"], list(st["elig"]), a["rlim"]] for st, a in zip((par, chi), rep["after"])]
    return [rep["res"], rep["got"], dump, rep["elig"]]


_live_state = {}


def _spawn():
    import subprocess

    def pre():
        S.libc().prctl(1, 9)   # PR_SET_PDEATHSIG, SIGKILL
    return subprocess.Popen(["sleep", "3600"], preexec_fn=pre, stdin=subprocess.DEVNULL, stdout=subprocess.DEVNULL,
                            stderr=subprocess.DEVNULL, close_fds=True)


def _children():
    import atexit
    for name in ("child", "by"):
        c = _live_state.get(name)
        if c is None or c.poll() is not None:
            _live_state[name] = _spawn()
    if "atexit" not in _live_state:
        _live_state["atexit"] = True

        def _kill():
            for name in ("child", "by"):
                c = _live_state.get(name)
                if c is not None and c.poll() is None:
                    c.kill()
                    c.wait()
        atexit.register(_kill)
    return _live_state["child"], _live_state["by"]


def _run_live(case, coq, env):
    import resource
    import psutil
    psutil.PROCFS_PATH = "/proc"
    try:
        psutil._pmap.clear()
        psutil._pids_reused.clear()
    except Exception:
        pass
    req = case["req"]
    res_idx = req[1] if req[0] in ("rlimit", "rlimit_scalar") and isinstance(req[1], int) and 0 <= req[1] < 16 else None
    fresh = []
    if case.get("fresh"):
        fresh = [_spawn(), _spawn()]
        child, by = fresh
    else:
        child, by = _children()
    real = [child.pid, by.pid]
    try:
        return _run_live2(case, req, res_idx, child, real)
    finally:
        for c in fresh:
            c.kill()
            c.wait()


def _run_live2(case, req, res_idx, child, real):
    import resource
    import psutil

    def reset(pid, st):
        os.setpriority(os.PRIO_PROCESS, pid, st["nice"])
        S.raw_ioprio_set(pid, st["ioprio"])
        os.sched_setaffinity(pid, range(1024))
        os.sched_setaffinity(pid, st["mask"])

    def observe(pid):
        return {"nice": os.getpriority(os.PRIO_PROCESS, pid), "ioprio": S.raw_ioprio_get(pid),
                "mask": sorted(os.sched_getaffinity(pid)), "rlim": [[S.u64(x) for x in resource.prlimit(pid, r)] for r in range(16)]}

    for pid, st in zip(real, case["procs"]):
        reset(pid, st)
    before = [observe(pid) for pid in real]
    for b, st in zip(before, case["procs"]):
        if (b["nice"], b["ioprio"], b["mask"], b["rlim"]) != (st["nice"], S.reported_ioprio(case["ioget_eff"], st["ioprio"], st["nice"]),
                                                              st["mask"], st["rlim"]):
            return T("Skip", "could not bring the live child into the start state: %r vs %r" % (b, st))
    p = psutil.Process(child.pid)
    pidmap = {real[0]: case["procs"][0]["pid"], real[1]: case["procs"][1]["pid"]}
    elig = _out(p._proc._get_eligible_cpus, _conv, pidmap)
    pre = case.get("pre")
    if pre:
        import subprocess
        dead = subprocess.Popen(["true"])
        dead.wait()

        def failing_call():
            try:
                if pre == "kill_dead":
                    os.kill(dead.pid, 0)
                elif pre == "stat_vanished":
                    os.stat("/proc/%d" % dead.pid)
                elif pre == "process_dead":
                    psutil.Process(dead.pid)
            except (OSError, psutil.Error):
                pass
        failing_call()
        res = _out(_call(p, req, case.get("form", "pos"), case), _conv, pidmap)
        failing_call()
        got = _out(lambda: p.as_dict(["nice"])["nice"], _conv, pidmap)
    else:
        res = _out(_call(p, req, case.get("form", "pos"), case), _conv, pidmap)
        got = _out(_get_call(p, req), _conv, pidmap)
    dump = []
    for pid, st, b in zip(real, case["procs"], before):
        if psutil.Process(pid).status() == psutil.STATUS_ZOMBIE:
            return T("Skip", "live child died")
        a = observe(pid)
        rl = [list(x) for x in st["rlim"]]
        for r in range(16):
            if r == res_idx:
                rl[r] = a["rlim"][r]
            elif a["rlim"][r] != b["rlim"][r]:
                rl[r] = ["changed", b["rlim"][r], a["rlim"][r]]
        dump.append([st["pid"], a["nice"], a["ioprio"], a["mask"], list(st["elig"]), rl])
    return [res, got, dump, elig]


MANIFEST = {
    "text": "Theorems (Coq, 25, closed under the global context) about the model of Process.nice/ionice/cpu_affinity/rlimit over a simulated "
            "kernel with the kernel's validity AND permission rules (capability flags, RLIMIT_NICE, fs.nr_open, cpuset clipping, effective "
            "ioprio_get): class<<13|data packing round-trips; the get forms return what the kernel reports (legitimate nice -1, growing CPU-set "
            "loop for every nr_cpu_ids <= 2^30, RLIM_INFINITY = 2^64-1 shown as -1 with a lossless Python<->rlim_t conversion); after a "
            "permitted set with any valid value (nice -20..19, class x level incl. level 0 for idle/none, any non-empty list of eligible CPUs, "
            "any resource with soft<=hard as rlim_t) the kernel entry and the get form equal exactly that value, every other field and process "
            "unchanged; refused sets (lower nice beyond RLIMIT_NICE without CAP_SYS_NICE, RT class without CAP_SYS_ADMIN/NICE, raising a hard "
            "limit without CAP_SYS_RESOURCE, NOFILE above nr_open) give AccessDenied carrying the pid with the state unchanged; the invalid "
            "requests (level outside 0-7, level for idle/none, level without class, class outside 0-3, CPU lists without an eligible CPU incl. "
            "ids of any size, limits that are not a pair) give ValueError, soft>hard ValueError, values beyond a C long long OverflowError, a "
            "scalar TypeError -- all with the state unchanged; cpu_affinity([]) selects all eligible CPUs for every eligible set and mask; the "
            "Cpus_allowed_list parser returns exactly the printed set for EVERY kernel-printed list with arbitrary lines before it (incl. a "
            "Name: line that looks like the key) and arbitrary text after. Four legacy theorems keep the repaired defects refuted on the old "
            "code; one theorem ties the whole model to the specification function used as the oracle, without exclusions. The model is tied to "
            "the code by running both on the same requests (simulated kernel: full finite sweeps; live kernel: child + bystander read back with "
            "raw system calls). Round 2: the argument checks and the dispatch are ALSO tied by translation -- props/_c18_gen.py translates the "
            "current source of Process.nice/ionice/rlimit/cpu_affinity (__init__.py) and Process.ionice_set/rlimit (_pslinux.py) into "
            "programs of coq/C18/PyGen.v on every run (coq/Gen/C18_Tables.v, fail-closed), and five C18_gen_* theorems prove that these "
            "programs, continued by the model's native calls, equal the model's run_req / ionice_set / rlimit for every request, and that "
            "_raise_if_pid_reused() precedes the platform layer exactly for the set forms (Handle.guarded).",
    "note": "Trusted: Coq kernel + vm_compute; kernel rules and status format in coq/C18/Kernel.v; hand-written model coq/C18/Model.v (native calls, "
            "cpu_affinity_set diagnosis, _get_eligible_cpus, wrap_exceptions: tied by the correspondence run only; the front-end methods, ionice_set "
            "and rlimit: also by translation, trusting the translator props/_c18_gen.py and the interpreter coq/C18/PyGen.v); SimKernel and the live accessors in props/_c18_sim.py; CPython (re, set order, resource module). The real "
            "kernel's semantics are sampled by the live cases, not modelled beyond Kernel.v; the C wrappers are exercised by the live cases only. "
            "Where the property text is silent (refused sets, unknown class, scalar limits, mixed CPU lists) the oracle demands nothing; those "
            "answers are covered by theorems about the model plus the model-vs-code comparison.",
}
