"""C20 -- every platform layer keeps the same error contract and record layout.

The five non-Linux platform modules of the psutil under test (three flavours of _psbsd) are
imported on Linux over a stub native layer (props/_c20_stub.py) and driven exhaustively:
platform x Process method x failing native call x error x process state x pid in {0,7};
slot usage on random native records; a copy of the package front end per platform for
net_if_addrs() post-processing and exposed names.  props/_c20_probe.py is the translator that
dumps the probed tables to coq/Gen/C20_Tables.v on every run."""
import json
import os
import shutil
import subprocess
import sys
import tempfile

from pv import gallina as G
from pv.canon import B, Exc, T, Val

ID = "C20"
COQ_REQUIRE = "C20.Run"
COQ_DIRS = ["Gen/C20_Tables.v"]
SHARD = 1200
RULE = ("ladder: every (platform in FreeBSD/OpenBSD/NetBSD/macOS/SunOS/AIX/Windows) x (public method of the platform Process "
        "class) x (native call the method makes, discovered by a fault-free run for pid 7 and pid 0) x (ESRCH, ENOENT, EPERM, "
        "EACCES, EIO, EINVAL; on Windows also winerror 5, 1314, 299, 87) x (alive, zombie, gone = not listed) x pid in {7, 0}, plus ESRCH for a PID "
        "listed with EVERY native status code of the platform's PROC_STATUSES; list-then-read loops (Solaris threads / open_files / memory_maps): "
        "listing of 2..4 items x every per-item outcome list (one failing item j with every errno; every list over read / vanished / EIO) x "
        "answer of the trailing liveness probe os.stat x process state; layout: every "
        "documented (platform, method, route) on random native records of distinct values; front end: random IPv4 address/mask "
        "(prefix masks, host masks, non-contiguous, missing), IPv6, MACs of 1..6 octets, per platform; exposed names per "
        "platform. Non-trivial = the fault fires / the record is non-empty; distinct = distinct canonical case hash.")
TRUSTED = ["stub native layer and loaders props/_c20_stub.py (the C layers of the seven platforms are replaced by it)",
           "translator props/_c20_probe.py -> coq/Gen/C20_Tables.v (fail-closed, re-run on every invocation)",
           "documented contract transcribed by hand in coq/C20/Spec.v (docs/index.rst, property text, Py_BuildValue order of the C sources)",
           "CPython: errno -> OSError subclass mapping (PEP 3151), ipaddress module"]
ASSUMPTIONS = ["only the Python layers of the platforms are exercised; native C code is stubbed",
               "one failing native call per run (all its invocations fail), plus the documented two-call pairs and PARTIAL_COPY retry counts, plus "
               "(list-then-read loops) faults addressed by access point and ordinal of the call there combined with a fault of the trailing os.stat; "
               "ladder probes (is_zombie, pid_exists, pids) run for real over the world model and are answered truthfully",
               "wait() is driven with timeout 0 only; AIX open_files() (subprocess) is not driven; the system-wide functions are not called "
               "(their named-tuple classes are read)"]
EXHAUSTIVE = {"quick": "by theorem over the tables regenerated from the code on every run: the whole ladder, status-code, all-sites, double-fault and "
                       "two-call spaces. Case by case (concrete replays): every method x failing call x one errno per exception class x state "
                       "(pid 0 on the PID-0-rule platforms), the whole list-then-read loop block (1 245 cases, never sampled), retry counts 1/2/32/33/34, wait scenarios, all documented layouts, 7 x 5 system tuples",
              "thorough": "as quick with all state/pid combinations of the pairs; 40 random records per documented layout; 300 front-end rows per platform"}

PLATS = ["freebsd", "openbsd", "netbsd", "macos", "sunos", "aix", "windows"]
COQ_PLAT = dict(freebsd="FreeBSD", openbsd="OpenBSD", netbsd="NetBSD", macos="MacOS", sunos="SunOS", aix="AIX", windows="Windows")
POSIX_ERRS = ["ESRCH", "ENOENT", "EPERM", "EACCES", "EIO", "EINVAL"]
WIN_ERRS = ["ESRCH", "EPERM", "EACCES", "EIO", "EINVAL", "WACCESS", "WPRIV", "WPARTIAL", "WINVAL"]
STATES = ["alive", "zombie", "gone"]
COQ_STATE = dict(alive="Alive", zombie="Zombie", gone="Gone")
VERIF = os.path.dirname(os.path.dirname(os.path.abspath(__file__)))
_PROBE = {}


# ------------------------------------------------------------------ translator
def _run_probe(impl_dir):
    work = tempfile.mkdtemp(prefix="c20probe.", dir=os.environ.get("VERIF_SCRATCH_BASE", "/var/tmp"))
    try:
        outp = os.path.join(work, "probe.json")
        env = dict(os.environ)
        env["PYTHONPATH"] = impl_dir + os.pathsep + VERIF
        env["PYTHONHASHSEED"] = "0"
        env["PYTHONDONTWRITEBYTECODE"] = "1"
        r = subprocess.run(["/venv/bin/python", "-m", "props._c20_probe", impl_dir, os.path.join(work, "fe"), outp],
                           env=env, cwd=VERIF, stdout=subprocess.PIPE, stderr=subprocess.STDOUT, text=True, timeout=600)
        if r.returncode != 0:
            raise RuntimeError("C20 translator failed (tables not regenerated):\n" + r.stdout[-3000:])
        return json.load(open(outp))
    finally:
        shutil.rmtree(work, ignore_errors=True)


def gen_tables(impl_dir, out_dir):
    from props import _c20_probe
    data = _run_probe(impl_dir)
    _PROBE.clear()
    _PROBE.update(data)
    txt = _c20_probe.emit_coq(data)
    os.makedirs(out_dir, exist_ok=True)
    p = os.path.join(out_dir, "C20_Tables.v")
    old = open(p).read() if os.path.exists(p) else None
    if old != txt:
        tmp = p + ".tmp"
        with open(tmp, "w") as f:
            f.write(txt)
        os.replace(tmp, p)


# ------------------------------------------------------------------ cases
LAYOUT_KEYS = None


def _records(rng, plat):
    from props import _c20_stub as S
    pool = rng.sample(range(100000, 10 ** 9), 120)
    it = iter(pool)
    rec = {}
    for fn, n, st in S.RECORDS[plat]:
        rec[fn] = [next(it) for _ in range(n)]
    for fn in S.SCALARS + ["ppid_map"]:
        rec[fn] = [next(it)]
    rec["proc_threads"] = [next(it) for _ in range(6)]
    rec["proc_open_files"] = [next(it) for _ in range(2)]
    return rec


def _mask_cases(rng):
    p = rng.randint(0, 32)
    nm = (2 ** 32 - 2 ** (32 - p))
    kinds = [("prefix", nm, p), ("prefix", 2 ** 32 - 2 ** (32 - 24), 24), ("none", None, None),
             ("hostmask", 2 ** (32 - p) - 1, None), ("noncontig", rng.choice([0xFF00FF00, 0x00FF00FF, 0xFFFF00FF, 5]), None)]
    return rng.choice(kinds)


def gen_cases(rng, tier):
    if not _PROBE:
        raise RuntimeError("C20: gen_tables did not run")
    n_lay = {"quick": 3, "thorough": 40, "search": 4}[tier]
    n_nic = {"quick": 25, "thorough": 300, "search": 30}[tier]
    cases = [{"kind": "tables", "cls": "tables"}]
    for plat in PLATS:
        cases.append({"kind": "names", "cls": "names", "plat": plat})
    for plat in PLATS:
        for fn in ("cpu_times", "virtual_memory", "swap_memory", "disk_io_counters", "net_io_counters"):
            cases.append({"kind": "sysfields", "cls": "sysfields", "plat": plat, "fn": fn})
    # ---- front-end histories: [name() called / not called / failing], then a failing method, through <frontend>.Process
    from props import _c20_probe as _P
    for plat in PLATS:
        if plat == "windows":
            continue
        names = list(_P.FE_NAMES[:3] if tier == "quick" else _P.FE_NAMES)
        for _ in range(2 if tier == "quick" else 20):
            n = rng.choice([14, 15, 15, 16, 20])
            kn = "".join(rng.choice("abcdefgh-_k") for _ in range(n))
            ext = rng.choice(["", "d", "-daemon", "/x"])
            c0 = rng.choice(["/usr/sbin/", "", "rel/"]) + (kn + ext if rng.random() < 0.7 else "other-" + kn)
            names.append((kn, c0))
        for kn, c0 in names:
            for mode in ("call", "skip", "fail"):
                for meth, err, st in _P.FE_GRID:
                    site = _P.FE_METHODS[meth].get(plat)
                    if site is None or (tier == "quick" and meth in ("cwd", "num_fds", "environ")):
                        continue        # (C20_frontend_cached_name_rows covers the whole grid on every run)
                    cases.append({"kind": "fename", "cls": "fename-%s-%s" % (plat, mode), "plat": plat, "kname": kn, "cmd0": c0,
                                  "mode": mode, "femeth": meth, "meth": _P.FE_PLAT_METH.get(meth, meth),
                                  "site": "" if meth == "wait" else site, "err": err or "ESRCH", "state": st})
    # ---- ladder: the whole space
    for plat in PLATS:
        errs = WIN_ERRS if plat == "windows" else POSIX_ERRS
        for meth, sites in sorted(_PROBE["sites"][plat].items()):
            for pid in (7, 0):
                for site in sites[str(pid)]:
                    for e in errs:
                        for st in STATES:
                            # quick: one errno per exception class, and pid 0 only where it matters (the PID-0 rule platforms,
                            # not as a zombie); C20_ladder_contract / _tables_equal_model cover the whole space on every run
                            if tier == "quick" and (e in ("EACCES", "WINVAL")
                                                    or (pid == 0 and (st == "zombie" or plat in ("macos", "aix", "windows")))):
                                continue
                            cases.append({"kind": "ladder", "cls": "ladder-%s-%s" % (plat, e), "plat": plat, "meth": meth,
                                          "site": site, "err": e, "state": st, "pid": pid})
    # ---- every native call of the method fails with the same error (really gone / really off-limits process)
    for plat in PLATS:
        errs = WIN_ERRS if plat == "windows" else POSIX_ERRS
        for meth, sites in sorted(_PROBE["sites"][plat].items()):
            first = (sites["7"] or sites["0"] or [None])[0]
            if first is None:
                continue
            for pid in (7, 0):
                if not sites[str(pid)]:
                    continue
                if pid == 0 and tier == "quick" and plat not in ("freebsd", "openbsd", "netbsd", "sunos"):
                    continue
                for e in errs:
                    for st in STATES:
                        if tier == "quick" and ((pid == 0 and (st == "zombie" or e not in ("ESRCH", "ENOENT", "EIO")))
                                                or e in ("EACCES", "EINVAL", "WPRIV", "WINVAL")):
                            continue      # (the table theorem C20_allfail_contract covers the whole space on every run)
                        cases.append({"kind": "allfail", "cls": "allfail-%s-%s" % (plat, e), "plat": plat, "meth": meth,
                                      "site": first, "err": e, "state": st, "pid": pid})
    # ---- double fault: the method's call fails with e1, every follow-up probe of the error path with e2
    for plat in PLATS:
        if plat == "windows":
            continue
        for meth, sites in sorted(_PROBE["sites"][plat].items()):
            for pid in (7, 0):
                for site in sites[str(pid)]:
                    for e1 in POSIX_ERRS:
                        if tier == "quick" and e1 not in (("ESRCH", "ENOENT", "EIO") if plat in ("sunos", "aix", "netbsd") else ("ESRCH", "EIO")):
                            continue      # (C20_probe_contract covers every e1 on every run)
                        if tier == "quick" and pid == 0 and (e1 != "EIO" or plat in ("macos", "aix")):
                            continue
                        for e2 in POSIX_ERRS:
                            if tier == "quick" and (e2 == e1 or e2 in ("EACCES", "EINVAL")):
                                continue
                            cases.append({"kind": "probe", "cls": "probe-%s-%s" % (plat, e1), "plat": plat, "meth": meth,
                                          "site": site, "err1": e1, "err2": e2, "pid": pid})
    # ---- the zombie test for EVERY native status code of PROC_STATUSES (ESRCH; ENOENT too where it means "gone")
    for r in _PROBE["status"]:
        plat = r["plat"]
        for meth, sites in sorted(_PROBE["sites"][plat].items()):
            for pid in (7, 0):
                if pid == 0 and tier == "quick":
                    continue            # (C20_zombie_by_status_code covers pid 0 too on every run)
                for site in sites[str(pid)]:
                    for code, _text in r["codes"]:
                        if tier == "quick" and _text != "zombie" and code not in ("SSTOP", "SRUN"):
                            continue        # (C20_zombie_by_status_code covers every code on every run)
                        for e in (["ESRCH", "ENOENT"] if plat in ("sunos", "aix") else ["ESRCH"]):
                            cases.append({"kind": "ladder", "cls": "status-%s-%s" % (plat, code), "plat": plat, "meth": meth,
                                          "site": site, "err": e, "state": "code:" + code, "pid": pid})
    # ---- list-then-read loops (Solaris threads / open_files / memory_maps): listing of length n, per-item outcome list
    # (fault plan addressed by access point AND ordinal of the call there) combined with a fault at the trailing liveness
    # probe os.stat(<procfs>/<pid>).  SYSTEMATIC, same block in every tier, never sampled.
    cases.extend(_loop_cases())
    # ---- two native calls in one method (first fails with e1, the second route with e2), retry counts, wait()
    from props import _c20_probe as P
    for plat, prs in sorted(P.PAIRS.items()):
        errs = WIN_ERRS if plat == "windows" else POSIX_ERRS
        for meth, s1, s2 in prs:
            for e1 in errs:
                for e2 in errs:
                    for st, pid in (("alive", 7), ("gone", 7), ("alive", 0), ("zombie", 7)) if plat == "windows" else \
                            [(a, b) for a in STATES for b in (7, 0)]:
                        if tier == "quick" and ((plat == "windows" and (st, pid) != ("alive", 7))
                                                or (plat != "windows" and (st == "zombie" or (pid == 0 and st == "gone")))
                                                or "EACCES" in (e1, e2) or "WINVAL" in (e1, e2)):
                            continue      # (C20_pair_contract covers every e1 x e2 x state x pid on every run)
                        cases.append({"kind": "pair", "cls": "pair-%s-%s" % (plat, meth), "plat": plat, "meth": meth, "site1": s1,
                                      "site2": s2, "err1": e1, "err2": e2, "state": st, "pid": pid})
    for meth, site in P.RETRY + [("exe", "proc_exe")]:
        for k in (1, 2, 32, 33, 34):
            for then in [None] + [e for e in WIN_ERRS if e != "WPARTIAL"]:
                cases.append({"kind": "retry", "cls": "retry-" + meth, "meth": meth, "site": site, "k": k, "then": then,
                              "state": "alive", "pid": 7})
    for plat in PLATS:
        for st in STATES:
            for scen in (["WPlain", "WNativeTimeout", "WAbandoned"] if plat == "windows" else ["WPlain"]):
                cases.append({"kind": "wait", "cls": "wait-" + plat, "plat": plat, "scen": scen, "state": st, "pid": 7})
    # ---- layout on random records
    for u in _PROBE["usage"]:
        plat, meth, var = u["plat"], u["meth"], u["variant"]
        from props import _c20_stub as _S
        if any(src[0] in ("Unknown", "Fun") or (src[0] == "Slot" and src[1] not in _S.INT_FNS) for _n, src in u["fields"]):
            continue        # answers not decodable into int slots: table theorem only (+ their error ladder)
        for _ in range(n_lay):
            cases.append({"kind": "layout", "cls": "layout-" + plat, "plat": plat, "meth": meth, "variant": var,
                          "records": _records(rng, plat)})
        # "falsy sentinel" rows: 0 and -1 in each native int slot that a field copies
        for _n, src in u["fields"]:
            if src[0] != "Slot":
                continue
            for val in (0, -1):
                if meth == "terminal" and val == -1:
                    continue
                rec = _records(rng, plat)
                rec[src[1]][src[2]] = val
                cases.append({"kind": "layout", "cls": "layout-falsy-" + plat, "plat": plat, "meth": meth, "variant": var,
                              "records": rec})
    # ---- the decoded slot usage of every probed method/route (covers the list / dict / row answers too)
    for u in _PROBE["usage"]:
        cases.append({"kind": "olayout", "cls": "olayout-" + u["plat"], "plat": u["plat"], "meth": u["meth"], "variant": u["variant"]})
    # ---- dependency of status()/terminal() on their slot
    for plat in PLATS:
        if plat == "windows":
            continue
        for meth in ("status", "terminal"):
            cases.append({"kind": "dep", "cls": "dep", "plat": plat, "meth": meth})
    # ---- front end
    for plat in PLATS:
        cases.append({"kind": "nic", "cls": "nic-inet", "plat": plat, "fam": 0, "addrz": 0xC0A80107, "maskz": 0xFFFFFF00,
                      "prefix": 24, "bcast": None})
        for _ in range(n_nic):
            k = rng.random()
            if k < 0.6:
                kind, m, p = _mask_cases(rng)
                cases.append({"kind": "nic", "cls": "nic-inet-" + kind, "plat": plat, "fam": 0,
                              "addrz": rng.randrange(2 ** 32), "maskz": m, "prefix": p,
                              "bcast": rng.choice([None, None, rng.randrange(2 ** 32)])})
            elif k < 0.7:
                p = rng.randint(0, 128)
                form = rng.choice(["none", "addr", "prefix", "prefix"])
                cases.append({"kind": "nic", "cls": "nic-inet6-" + form, "plat": plat, "fam": 1, "addrz": rng.randrange(2 ** 128),
                              "maskz": {"none": None, "addr": 2 ** 128 - 2 ** (128 - p), "prefix": p}[form],
                              "maskform": form, "prefix": None if form == "none" else p, "bcast": None})
            elif k < 0.75:
                p = rng.randint(0, 32)
                cases.append({"kind": "nic", "cls": "nic-inet-prefixlen", "plat": plat, "fam": 0, "addrz": rng.randrange(2 ** 32),
                              "maskz": p, "maskform": "prefix", "prefix": p, "bcast": None})
            else:
                n = rng.randint(1, 6)
                cases.append({"kind": "nic", "cls": "nic-mac%d" % n, "plat": plat, "fam": 2,
                              "octets": ["%02x" % rng.randrange(256) for _ in range(n)]})
    return cases


LOOP_WORLDS = [("alive", None), ("gone", "ENOENT"), ("zombie", "ENOENT"), ("gone", "ESRCH"), ("alive", "ENOENT"),
               ("alive", "EPERM"), ("alive", "EIO"), ("gone", "EIO")]
COQ_LMETH = dict(threads="LThreads", open_files="LOpenFiles", memory_maps="LMemoryMaps")


def _loop_cases():
    import itertools
    from props import _c20_stub as S
    out, seen = [], set()

    def add(plat, meth, outs, st, stat):
        key = (plat, meth, tuple(outs), st, stat)
        if key in seen:
            return
        seen.add(key)
        nf = sum(1 for o in outs if o is not None)
        out.append({"kind": "loop", "cls": "loop-%s-%s-n%d-f%d%s" % (plat, meth, len(outs), nf, "-probe" if stat else ""),
                    "plat": plat, "meth": meth, "outs": list(outs), "stat": stat, "state": st, "pid": 7})
    for (plat, meth) in sorted(S.LOOPS):
        for n in (2, 3, 4):
            # one failing item j (every j, every errno) after the items < j were read, every (state, liveness answer)
            for j in range(n):
                for e in POSIX_ERRS:
                    outs = [None] * n
                    outs[j] = e
                    for st, stat in (LOOP_WORLDS if e == "ENOENT" else [("alive", None), ("gone", "ENOENT"), ("gone", e)]):
                        add(plat, meth, outs, st, stat)
            # every outcome list over {read, vanished item, another error} (n = 4: {read, vanished})
            alpha = [None, "ENOENT", "EIO"] if n < 4 else [None, "ENOENT"]
            for outs in itertools.product(alpha, repeat=n):
                for st, stat in LOOP_WORLDS[:4] + [("alive", "EPERM")]:
                    add(plat, meth, outs, st, stat)
        add(plat, meth, [], "alive", None)
        add(plat, meth, [None], "gone", "ENOENT")
        add(plat, meth, ["ENOENT"], "gone", "ENOENT")
    return out


# ------------------------------------------------------------------ Coq terms
def _qs(s):
    return '"%s"%%string' % s


def _records_term(rec):
    return G.lst(["(%s, %s)" % (_qs(fn), G.zs(v)) for fn, v in sorted(rec.items())])


def _nic_row(case):
    plat = case["plat"]
    if case["fam"] == 2:
        sep = "-" if plat == "windows" else ":"
        return "(Build_nicrow 2 %s 0 MNone None)" % G.by(sep.join(case["octets"])), "None", G.lst([G.by(o) for o in case["octets"]])
    import ipaddress
    a = str(ipaddress.IPv4Address(case["addrz"]) if case["fam"] == 0 else ipaddress.IPv6Address(case["addrz"]))
    if case["maskz"] is None:
        mk = "MNone"
    elif case.get("maskform") == "prefix":
        mk = "(MPrefix %s)" % G.z(case["maskz"])
    else:
        mk = "(MAddr %s)" % G.z(case["maskz"])
    return ("(Build_nicrow %d %s %s %s %s)" % (case["fam"], G.by(a), G.z(case["addrz"]), mk, G.opt(case["bcast"], G.z)),
            G.opt(case.get("prefix"), G.z), "[]")


def coq_term(case):
    k = case["kind"]
    if k == "tables":
        return "run_tables"
    if k == "names":
        return "run_names %s" % COQ_PLAT[case["plat"]]
    if k == "ladder":
        st = case["state"]
        st = "(state_of_code %s %s)" % (COQ_PLAT[case["plat"]], _qs(st[5:])) if st.startswith("code:") else COQ_STATE[st]
        return "run_ladder %s %s %s %s %s %s" % (COQ_PLAT[case["plat"]], _qs(case["meth"]), _qs(case["site"]), case["err"],
                                                 st, G.z(case["pid"]))
    if k == "olayout":
        return "run_olayout %s %s %s" % (COQ_PLAT[case["plat"]], _qs(case["meth"]), _qs(case["variant"]))
    if k == "sysfields":
        return "run_sysfields %s %s" % (COQ_PLAT[case["plat"]], _qs(case["fn"]))
    if k == "fename":
        return "run_fename %s %s %s %d %s %s %s %s" % (COQ_PLAT[case["plat"]], G.by(case["kname"]), G.by(case["cmd0"]),
                                                       {"call": 0, "skip": 1, "fail": 2}[case["mode"]], _qs(case["meth"]),
                                                       _qs(case["site"]), case["err"], COQ_STATE[case["state"]])
    if k == "probe":
        return "run_probe %s %s %s %s %s %s" % (COQ_PLAT[case["plat"]], _qs(case["meth"]), _qs(case["site"]), case["err1"],
                                                case["err2"], G.z(case["pid"]))
    if k == "allfail":
        return "run_allfail %s %s %s %s %s %s" % (COQ_PLAT[case["plat"]], _qs(case["meth"]), _qs(case["site"]), case["err"],
                                                  COQ_STATE[case["state"]], G.z(case["pid"]))
    if k == "pair":
        return "run_pair %s %s %s %s %s %s %s %s" % (COQ_PLAT[case["plat"]], _qs(case["meth"]), _qs(case["site1"]), _qs(case["site2"]),
                                                     case["err1"], case["err2"], COQ_STATE[case["state"]], G.z(case["pid"]))
    if k == "retry":
        return "run_retry %s %s %s %s %s %s" % (_qs(case["meth"]), _qs(case["site"]), G.z(case["k"]),
                                                "None" if case["then"] is None else "(Some %s)" % case["then"],
                                                COQ_STATE[case["state"]], G.z(case["pid"]))
    if k == "wait":
        return "run_wait %s %s %s %s" % (COQ_PLAT[case["plat"]], case["scen"], COQ_STATE[case["state"]], G.z(case["pid"]))
    if k == "loop":
        outs = "[" + "; ".join("IOk" if o is None else "IFail %s" % o for o in case["outs"]) + "]"
        return "run_loop %s %s %s %s %s" % (COQ_LMETH[case["meth"]], outs,
                                            "None" if case["stat"] is None else "(Some %s)" % case["stat"],
                                            COQ_STATE[case["state"]], G.z(case["pid"]))
    if k == "layout":
        return "run_layout %s %s %s %s" % (COQ_PLAT[case["plat"]], _qs(case["meth"]), _qs(case["variant"]),
                                           _records_term(case["records"]))
    if k == "dep":
        return "run_dep %s %s" % (COQ_PLAT[case["plat"]], _qs(case["meth"]))
    if k == "nic":
        row, prefix, octs = _nic_row(case)
        return "run_nic %s %s %s %s" % (COQ_PLAT[case["plat"]], row, prefix, octs)
    raise ValueError(k)


def coq_struct(case, raw):
    k = case["kind"]
    if k == "tables":
        return {"model": raw, "spec": None}
    if k == "names":
        return {"model": [raw[0], raw[1], raw[2]], "spec": None, "missing": [raw[3], raw[4]]} if isinstance(raw, list) else {"model": raw, "spec": None}
    if k == "ladder":
        return {"model": raw[0], "spec": raw[1], "contract": raw[2]}
    if k == "fename":
        return {"model": raw, "spec": None}
    if k in ("probe", "loop"):
        return {"model": raw[0], "spec": None, "allowed": raw[1]}
    if k in ("layout", "dep", "nic", "pair", "retry", "wait", "sysfields", "olayout", "allfail", "probe", "fename"):
        return {"model": raw[0], "spec": raw[1]}
    raise ValueError(k)


# ------------------------------------------------------------------ findings / judge
def finding_key(case, coq):
    # fixed (old inputs replayed from corpus/C20): windows-ppid-not-wrapped a2d103c, gids-returns-puids 1275da7+5229996,
    # sunos-terminal-ignores-ttynr 5229996.  Open: a PID 0 the OS does not list is taken to exist (_psposix.pid_exists(0)).
    if case["kind"] in ("ladder", "allfail") and case["pid"] == 0 and case["state"] == "gone":
        if case["plat"] == "sunos" and case["err"] in ("ESRCH", "ENOENT"):
            return "pid0-unlisted-taken-to-exist"
        if case["plat"] == "netbsd" and case["meth"] == "cmdline" and case["site"] == "proc_cmdline" and case["err"] == "EINVAL":
            return "pid0-unlisted-taken-to-exist"
    # fixed: windows-memory_maps-querydosdevice d6fc959, windows-ipv6-broadcast-address-form-netmask 0a57bb9
    if case["kind"] == "pair" and case["plat"] == "sunos" and case["pid"] == 0 and case["state"] == "gone" \
            and ("ESRCH" in (case["err1"], case["err2"]) or "ENOENT" in (case["err1"], case["err2"])):
        return "pid0-unlisted-taken-to-exist"
    return None


_known_cache = None
_announced = set()


def _local_known():
    """Known-finding keys recorded in this property's notes/findings/C20.json but NOT yet merged into
    known_findings.json (merged ones are handled by pv.core: witness replay, exemption, KNOWN-FINDING line)."""
    global _known_cache
    if _known_cache is None:
        def load(p):
            try:
                d = json.load(open(p))
            except Exception:
                return {}
            return {f["key"]: f.get("what", "") for f in (d.get("findings", []) if isinstance(d, dict) else d)
                    if f.get("property") == ID and f.get("status") == "known"}
        merged = load(os.path.join(VERIF, "known_findings.json"))
        local = load(os.path.join(VERIF, "notes", "findings", "C20.json"))
        _known_cache = {k: v for k, v in local.items() if k not in merged}
    return _known_cache


def judge(case, coq, impl):
    from pv.core import Verdict, default_judge
    k = case["kind"]
    if k == "tables":
        m = coq["model"]
        bad = [i for i, x in enumerate(m) if x not in ([], True)]
        if impl != T("TablesSeen"):
            return Verdict("corr", "tables case not run")
        return Verdict("ok") if not bad else Verdict("corr", "table checks failing (indices %r): %r" % (bad, m))
    if k == "names":
        if isinstance(impl, dict) and impl.get("t") == "Exc":
            return Verdict("violation", "front end of %s does not import: %r" % (case["plat"], impl))
        miss = coq.get("missing")
        if impl != coq["model"]:
            return Verdict("corr", "exposed names differ from the generated table")
        if miss and (miss[0] or miss[1]):
            return Verdict("violation", "documented names not exposed: %r" % (miss,))
        return Verdict("ok")
    if k == "ladder" and isinstance(impl, dict) and impl.get("t") == "NotFired":
        return Verdict("corr", "native call %s not reached by %s.%s(pid=%d)" % (case["site"], case["plat"], case["meth"], case["pid"]))
    if k == "layout" and isinstance(coq["model"], list) and coq["model"][2] == T("OutOfModel"):
        return Verdict("skip", "answer not decodable into native slots")
    if k == "fename":
        ret, out = impl[0], impl[1]
        if isinstance(out, dict) and out.get("t") in ("NoSuchProcess", "ZombieProcess", "AccessDenied", "TimeoutExpired"):
            if out["a"][0] != 7 or out["a"][1] != ret:
                return Verdict("violation", "%s raised by %s() after name() returned %r carries pid/name %r"
                               % (out["t"], case["femeth"], ret, out["a"]))
        return Verdict("ok") if impl == coq["model"] else Verdict("corr", "impl != model")
    if k == "loop":
        allowed = coq["allowed"]
        if isinstance(impl, dict) and impl.get("t") == "LoopCalls":
            return Verdict("corr", "the loop made %r calls at its per-item access point, planned %d" % (impl["a"], len(case["outs"])))
        if impl not in allowed:
            return Verdict("violation", "%s.%s(): listing of %d items, per-item outcomes %r, liveness probe os.stat -> %r, PID %s: "
                           "got %r, acceptable %r" % (case["plat"], case["meth"], len(case["outs"]),
                                                      ["read" if o is None else o for o in case["outs"]],
                                                      case["stat"] or "ok", case["state"], impl, allowed))
        return Verdict("ok") if impl == coq["model"] else Verdict("corr", "impl != model")
    if k == "probe":
        if isinstance(impl, dict) and impl.get("t") == "NotFired":
            return Verdict("corr", "native call %s not reached" % case["site"])
        allowed = coq.get("allowed")
        if allowed is not None and impl not in allowed:
            v = Verdict("violation", "double fault (%s at %s, probes %s): %r is not among the acceptable outcomes %r"
                        % (case["err1"], case["site"], case["err2"], impl, allowed))
            key = finding_key(case, coq)
            if key is not None and impl == coq["model"]:
                if key in _local_known():
                    if key not in _announced:
                        _announced.add(key)
                        print("KNOWN-FINDING: property=%s %s" % (ID, _local_known()[key]))
                    return Verdict("known", key)
            return v
        return Verdict("ok") if impl == coq["model"] else Verdict("corr", "impl != model")
    if k == "sysfields":
        if impl != coq["model"]:
            return Verdict("corr", "field list differs from the generated table")
        if isinstance(impl, list) and sorted(x["b"] for x in impl) == sorted(x["b"] for x in coq["spec"]):
            return Verdict("ok")
        v = Verdict("violation", "fields %r, documented %r" % (impl, coq["spec"]))
        key = finding_key(case, coq)
        if key is not None and key in _local_known():
            if key not in _announced:
                _announced.add(key)
                print("KNOWN-FINDING: property=%s %s" % (ID, _local_known()[key]))
            return Verdict("known", key)
        return v
    if k == "nic":
        spec, model = coq["spec"], coq["model"]
        spec_fail = impl[0] != spec[0] or (spec[1] != T("Any") and impl[1] != spec[1])
        if spec_fail:
            key = finding_key(case, coq)
            if key is not None and key in _local_known() and impl == model:
                if key not in _announced:
                    _announced.add(key)
                    print("KNOWN-FINDING: property=%s %s" % (ID, _local_known()[key]))
                return Verdict("known", key)
            return Verdict("violation", "net_if_addrs() post-processing: got %r, documented %r" % (impl, spec))
        return Verdict("ok") if impl == model else Verdict("corr", "impl != model")
    v = default_judge(None, case, coq, impl)
    if v.kind == "violation":
        key = finding_key(case, coq)
        known = _local_known()
        if key is not None and key in known and impl == coq["model"]:
            # class of a recorded finding, still the modelled defective answer
            if key not in _announced:
                _announced.add(key)
                print("KNOWN-FINDING: property=%s %s" % (ID, known[key]))
            return Verdict("known", key)
    return v


def nontrivial(case, coq, impl):
    return case["kind"] in ("ladder", "layout", "nic", "dep", "pair", "retry", "wait", "sysfields", "olayout", "allfail", "probe", "fename", "loop")


# ------------------------------------------------------------------ implementation side (worker)
_layers = {}
_fes = {}


def _layer(plat, env):
    from props import _c20_stub as S
    if plat not in _layers:
        _layers[plat] = S.Layer(plat, env["impl_dir"])
    return _layers[plat]


def _fe(plat, env):
    from props import _c20_stub as S
    if plat not in _fes:
        _fes[plat] = S.load_frontend(plat, env["impl_dir"], os.path.join(env["work"], "fe"))
    return _fes[plat]


def _canon_fields(cv):
    out = []
    for n, v in cv["fields"]:
        out.append([B(n), v if (v is None or isinstance(v, int)) else T("Str", B(v["s"]))])
    return out


def impl_run(case, coq, env):
    from props import _c20_probe as P
    from props import _c20_stub as S
    k = case["kind"]
    if k == "tables":
        return T("TablesSeen")
    if k == "names":
        try:
            pkg = _fe(case["plat"], env).mod
        except Exception as e:  # the front end does not import for that platform
            return Exc(type(e).__name__)
        return [[B(n) for n in sorted(n for n in dir(pkg) if not n.startswith("_") or n in pkg.__all__)],
                [B(n) for n in sorted(n for n in dir(pkg.Process) if not n.startswith("_"))],
                [B(n) for n in sorted(set(pkg.__all__))]]
    if k == "ladder":
        L = _layer(case["plat"], env)
        if case["meth"] not in P.methods_of(L):
            return T("NoSuchMethod")
        kind, r = L.run(case["meth"], pid=case["pid"], state=case["state"], site=case["site"], err=case["err"])
        return S.classify(L, kind, r)
    if k == "olayout":
        L = _layer(case["plat"], env)
        if not case["meth"].startswith("sys:") and case["meth"] not in P.methods_of(L):
            return T("NoSuchMethod")
        u = P.probe_usage(L, case["meth"], case["variant"])
        if u is None:
            return T("NoAnswer")

        def src(x):
            if x[0] == "Slot":
                return T("Slot", B(x[1]), x[2], x[3])
            if x[0] == "Const":
                return T("Const", x[1])
            if x[0] == "None":
                return T("SNone")
            if x[0] == "Fun":
                return T("Fun", B(x[1]), list(x[2]))
            return T("Unknown")
        return [B(u["shape"]), B(u["type"]), [[B(n), src(x)] for n, x in u["fields"]], [[B(n), v] for n, v in u["falsy_bad"]]]
    if k == "sysfields":
        pkg = _fe(case["plat"], env).mod
        cls = {"cpu_times": lambda: pkg._psplatform.scputimes, "virtual_memory": lambda: pkg._psplatform.svmem,
               "swap_memory": lambda: pkg._common.sswap,
               "disk_io_counters": lambda: getattr(pkg._psplatform, "sdiskio", pkg._common.sdiskio),
               "net_io_counters": lambda: pkg._common.snetio}[case["fn"]]()
        if not callable(getattr(pkg, case["fn"], None)):
            return T("NoSuchFunction")
        return [B(f) for f in cls._fields]
    if k == "fename":
        fe = _fe(case["plat"], env)
        return P.fe_history(fe, case["kname"], case["cmd0"], case["mode"], case["femeth"], case["site"] or None,
                            None if case["femeth"] == "wait" else case["err"], case["state"])
    if k == "probe":
        L = _layer(case["plat"], env)
        if case["meth"] not in P.methods_of(L):
            return T("NoSuchMethod")
        return P.probefault_outcome(L, case["meth"], case["site"], case["err1"], case["err2"], case["pid"])
    if k == "loop":
        L = _layer(case["plat"], env)
        if case["meth"] not in P.methods_of(L):
            return T("NoSuchMethod")
        site = S.LOOPS[(case["plat"], case["meth"])]
        kind, r = L.run(case["meth"], pid=case["pid"], state=case["state"], nitems=len(case["outs"]),
                        faults=S.loop_faults(case["plat"], case["meth"], case["outs"], case["stat"]))
        hard = [o for o in case["outs"] if o not in (None, "ENOENT")]
        made = L.world.ncalls.get(site, 0)
        if kind == "val":
            if made != len(case["outs"]):
                return T("LoopCalls", made)
            return S.loop_answer(L, case["meth"], r)
        if not hard and made != len(case["outs"]):
            return T("LoopCalls", made)
        return S.classify(L, kind, r, need_fired=False)
    if k == "allfail":
        L = _layer(case["plat"], env)
        if case["meth"] not in P.methods_of(L):
            return T("NoSuchMethod")
        kind, r = L.run(case["meth"], pid=case["pid"], state=case["state"], faults={"*": [(None, case["err"])]})
        return S.classify(L, kind, r)
    if k == "pair":
        L = _layer(case["plat"], env)
        return P.pair_outcome(L, case["meth"], case["site1"], case["site2"], case["err1"], case["err2"], case["state"], case["pid"])
    if k == "retry":
        return P.retry_outcome(_layer("windows", env), case["meth"], case["site"], case["k"], case["then"], case["state"], case["pid"])
    if k == "wait":
        return P.wait_outcome(_layer(case["plat"], env), case["scen"], case["state"], case["pid"])
    if k == "layout":
        L = _layer(case["plat"], env)
        if case["meth"] not in P.methods_of(L):
            return T("NoSuchMethod")
        kw = {}
        if case["variant"] == "fallback":
            kw = dict(site=P.FALLBACK[(case["plat"], case["meth"])], err="WACCESS" if case["plat"] == "windows" else "EACCES")
        kind, r = L.run(case["meth"], records=case["records"], **kw)
        if kind != "val":
            return [None, None, Exc(type(r).__name__)]
        cv = P.canon_value(r)
        return [B(cv["shape"]), B(cv["type"]), Val(_canon_fields(cv))]
    if k == "dep":
        L = _layer(case["plat"], env)
        fn, n, st = S.RECORDS[case["plat"]][0]
        idx = st if case["meth"] == "status" else {"freebsd": 8, "openbsd": 8, "netbsd": 8, "macos": 7, "sunos": 7, "aix": 7}[case["plat"]]
        base = [S.BASE[fn] + j for j in range(n)]
        base[st] = L.const("SSTOP")
        other = list(base)
        other[idx] = L.const("SRUN") if idx == st else (L.const("PRNODEV") if case["plat"] == "sunos" else S.NOTTY)
        k1, r1 = L.run(case["meth"], records={fn: base})
        k2, r2 = L.run(case["meth"], records={fn: other})
        if k1 != "val" or k2 != "val":
            return Exc(type(r1 if k1 != "val" else r2).__name__)
        return bool(r1 != r2)
    if k == "nic":
        fe = _fe(case["plat"], env)
        import ipaddress
        if case["fam"] == 2:
            addr, mask, bc = ":".join(case["octets"]), None, None
        else:
            conv = ipaddress.IPv4Address if case["fam"] == 0 else ipaddress.IPv6Address
            addr = str(conv(case["addrz"]))
            mask = None if case["maskz"] is None else (str(case["maskz"]) if case.get("maskform") == "prefix" else str(conv(case["maskz"])))
            bc = None if case.get("bcast") is None else str(conv(case["bcast"]))
        r = P.run_nic(fe, case["fam"], addr, mask, bc)
        b = r[1]
        if isinstance(b, dict):
            b = T("Str", B(b["s"]))
        if case["fam"] == 2 and not r[2]:
            return [T("FamilyNotAFLINK"), b]
        return [B(r[0]), b]
    raise ValueError(k)


MANIFEST = {
    "text": "Theorems (Coq, closed under the global context). Hand-written model of the five wrap_exceptions ladders and the per-method "
            "handlers: for every platform, method name, failing native call, error, process state and pid the outcome is what the documented "
            "contract demands (NoSuchProcess / ZombieProcess / AccessDenied with pid and cached name, other errors unchanged, PID-0 rule on BSD "
            "and Solaris only when PID 0 is listed, the commented fall-backs); the same for two-fault sequences (first call fails, the documented "
            "second route fails: Windows proc_info fall-backs, Windows cmdline PEB/non-PEB, Solaris cred/psinfo), for ERROR_PARTIAL_COPY retried "
            "k times for every k, for wait(0) (TimeoutExpired with pid and name while the PID is listed), for every native call of the method failing "
            "at once, and for double faults in the translation path (the call fails with e1, the follow-up probes is_zombie / pid_exists / pids "
            "with an independent e2: the outcome lies in the acceptable set, never a bare OSError for a no-such-process or permission failure); and "
            "for the list-then-read loops of the Solaris layer (threads, open_files, memory_maps) for EVERY list of per-item outcomes, by induction: a "
            "vanished item (ENOENT) is skipped, and if one vanished and the trailing liveness probe os.stat fails the call ends with the translation "
            "of that failure (NoSuchProcess / ZombieProcess with pid and name), never with the half-read list; with the process alive the read items "
            "in listing order; and for every history through the front end the exception of a failing call carries the name that name() last returned. Excluded and refuted: a PID 0 the OS "
            "does not list is taken to exist (Solaris, NetBSD cmdline). Legacy variants of the model (before fixes a2d103c, d6fc959, 0a57bb9) are "
            "refuted. Tables "
            "regenerated from the code on every run (finite forallb facts lifted with forallb_forall): every probed outcome of every (platform, "
            "method, call, error, state, pid), of every native status code of every PROC_STATUSES (ZombieProcess iff the code means zombie), of "
            "every pair and retry count meets the contract and equals the model; slot maps are bijections in the order of the native records; "
            "every documented method -- including the list/dict/row answers cmdline, environ, open_files, net_connections, threads, memory_maps -- "
            "fills its documented tuple from the matching native slots; documented names, Process methods and the field lists of the system-wide "
            "named tuples (regression table, beyond the property text) are exposed per platform; "
            "histories [name() called / not called / failing, then a failing method] through the real psutil.Process of a copy of the package over each "
            "POSIX stub layer carry pid and the returned name; net_if_addrs() rows equal the model, whose Windows broadcast is addr | hostbits for every address and prefix (IPv4 netmask in address "
            "form; IPv6 netmask in address form; IPv4/IPv6 netmask as prefix length) and whose MAC padding yields six "
            "octets. The same stub layer drives the real modules over the whole space on every run, comparing implementation, model and contract.",
    "note": "Trusted: Coq kernel + vm_compute; stub native layer and translator (props/_c20_stub.py, props/_c20_probe.py); the documented-"
            "contract tables of coq/C20/Spec.v; CPython errno->exception mapping and ipaddress. Native C layers are not exercised.",
}
