"""C19 -- fail-closed translator: psutil/_pslinux.py:sensors_battery() of the tree under check -> Gallina terms of
coq/C19/PyGen.v (multifn / headfn / list stmt).  Every statement or expression shape that is not listed here raises
TranslateError (pv/core.py treats that as a broken tie).  (The brief's name props/_c19_gen.py was already taken by
the case generators.)"""
import ast
import os

from pv import gallina as G


class TranslateError(RuntimeError):
    pass


EXN = {"ValueError", "TypeError", "ZeroDivisionError", "OSError", "KeyError", "IndexError"}


def _bad(what, node):
    raise TranslateError("sensors_battery: %s: %s" % (what, ast.dump(node)[:300]))


def _s(text):
    if not isinstance(text, str) or any(ord(c) < 32 or ord(c) > 126 for c in text):
        raise TranslateError("sensors_battery: not a printable ASCII str literal: %r" % (text,))
    return '"%s"%%string' % text.replace('"', '""')


def _by(text):
    if not isinstance(text, str) or any(ord(c) > 126 for c in text):
        raise TranslateError("sensors_battery: not an ASCII str literal: %r" % (text,))
    return G.by(text.encode())


def _is_name(n, ident):
    return isinstance(n, ast.Name) and n.id == ident


def _is_attr(n, base, attr):
    return isinstance(n, ast.Attribute) and _is_name(n.value, base) and n.attr == attr


def _path(n):
    # root + "/x"
    if (isinstance(n, ast.BinOp) and isinstance(n.op, ast.Add) and _is_name(n.left, "root")
            and isinstance(n.right, ast.Constant) and isinstance(n.right.value, str)):
        return "(PRoot %s)" % _s(n.right.value)
    # os.path.join(POWER_SUPPLY_PATH, "x")
    if (isinstance(n, ast.Call) and not n.keywords and len(n.args) == 2
            and isinstance(n.func, ast.Attribute) and n.func.attr == "join" and _is_attr(n.func.value, "os", "path")
            and _is_name(n.args[0], "POWER_SUPPLY_PATH")
            and isinstance(n.args[1], ast.Constant) and isinstance(n.args[1].value, str)
            and not n.args[1].value.startswith("/")):
        return "(PSupply %s)" % _s(n.args[1].value)
    _bad("path expression not understood", n)


def _z(v):
    return "(%d)" % v


def _expr(n):
    if isinstance(n, ast.Name):
        if n.id in ("root", "null", "names", "bats", "POWER_SUPPLY_PATH"):
            _bad("variable not usable as a value here", n)
        return "(EVar %s)" % _s(n.id)
    if isinstance(n, ast.Constant):
        v = n.value
        if v is None:
            return "ENone"
        if v is True or v is False:
            return "(EBool %s)" % ("true" if v else "false")
        if type(v) is int:
            return "(EInt %s)" % _z(v)
        if type(v) is float and v == int(v) and abs(v) < 2 ** 53:
            return "(EFloat %s)" % _z(int(v))
        if type(v) is str:
            return "(EStr %s)" % _by(v)
        _bad("constant not understood", n)
    if isinstance(n, ast.UnaryOp) and isinstance(n.op, ast.USub) and isinstance(n.operand, ast.Constant) \
            and type(n.operand.value) is int:
        return "(EInt %s)" % _z(-n.operand.value)
    if _is_attr(n, "_common", "POWER_TIME_UNLIMITED"):
        return "(ETime true)"
    if _is_attr(n, "_common", "POWER_TIME_UNKNOWN"):
        return "(ETime false)"
    if isinstance(n, ast.Call):
        f = n.func
        if _is_name(f, "multi_bcat") and not n.keywords and n.args and not any(isinstance(a, ast.Starred) for a in n.args):
            return "(EMulti [%s])" % "; ".join(_path(a) for a in n.args)
        if _is_name(f, "cat") and len(n.args) == 1 and len(n.keywords) == 1 and n.keywords[0].arg == "fallback":
            return "(ECat %s %s)" % (_path(n.args[0]), _expr(n.keywords[0].value))
        if _is_name(f, "int") and len(n.args) == 1 and not n.keywords:
            return "(EIntOf %s)" % _expr(n.args[0])
        if _is_name(f, "abs") and len(n.args) == 1 and not n.keywords:
            return "(EAbs %s)" % _expr(n.args[0])
        if isinstance(f, ast.Attribute) and f.attr in ("strip", "lower") and not n.args and not n.keywords:
            return "(%s %s)" % ("EStrip" if f.attr == "strip" else "ELower", _expr(f.value))
        if _is_attr(f, "_common", "sbattery") and len(n.args) == 3 and not n.keywords:
            return "(ESbattery %s %s %s)" % tuple(_expr(a) for a in n.args)
        _bad("call not understood", n)
    if isinstance(n, ast.BinOp) and isinstance(n.op, (ast.Mult, ast.Div)):
        return "(%s %s %s)" % ("EMul" if isinstance(n.op, ast.Mult) else "EDiv", _expr(n.left), _expr(n.right))
    if isinstance(n, ast.Compare) and len(n.ops) == 1:
        op, a, b = n.ops[0], n.left, n.comparators[0]
        if isinstance(op, (ast.Is, ast.IsNot)) and isinstance(b, ast.Constant) and b.value is None:
            return "(EIsNone %s %s)" % ("true" if isinstance(op, ast.IsNot) else "false", _expr(a))
        if isinstance(op, ast.Eq):
            return "(EEq %s %s)" % (_expr(a), _expr(b))
        if isinstance(op, ast.Lt):
            return "(ELt %s %s)" % (_expr(a), _expr(b))
        if isinstance(op, ast.In) and isinstance(b, (ast.Set, ast.Tuple, ast.List)) and b.elts and all(
                isinstance(e, ast.Constant) and isinstance(e.value, str) for e in b.elts):
            return "(EInSet %s [%s])" % (_expr(a), "; ".join(_by(e.value) for e in b.elts))
        _bad("comparison not understood", n)
    if isinstance(n, ast.BoolOp) and isinstance(n.op, ast.And):
        out = _expr(n.values[-1])
        for v in reversed(n.values[:-1]):
            out = "(EAnd %s %s)" % (_expr(v), out)
        return out
    _bad("expression not understood", n)


def _exn(h):
    if h.name is not None or not isinstance(h.type, ast.Name) or h.type.id not in EXN:
        _bad("exception handler not understood", h)
    return h.type.id


def _stmt(st):
    if isinstance(st, ast.Assign) and len(st.targets) == 1 and isinstance(st.targets[0], ast.Name):
        return "(SAssign %s %s)" % (_s(st.targets[0].id), _expr(st.value))
    if isinstance(st, ast.If):
        return "(SIf %s %s %s)" % (_expr(st.test), _block(st.body), _block(st.orelse))
    if isinstance(st, ast.Try) and len(st.body) == 1 and len(st.handlers) == 1 and not st.orelse and not st.finalbody \
            and isinstance(st.body[0], (ast.Assign, ast.Return)):
        h = st.handlers[0]
        return "(STry %s %s %s)" % (_stmt(st.body[0]), _exn(h), _block(h.body))
    if isinstance(st, ast.Return):
        return "(SReturn %s)" % (_expr(st.value) if st.value is not None else "ENone")
    _bad("statement not understood", st)


def _block(stmts):
    return "[%s]" % ";\n   ".join(_stmt(s) for s in stmts)


def _conv(n, var):
    """int(ret) / ret.strip() / ret"""
    if isinstance(n, ast.Call) and _is_name(n.func, "int") and len(n.args) == 1 and not n.keywords and _is_name(n.args[0], var):
        return "MCInt"
    if (isinstance(n, ast.Call) and isinstance(n.func, ast.Attribute) and n.func.attr == "strip"
            and _is_name(n.func.value, var) and not n.args and not n.keywords):
        return "MCStrip"
    if _is_name(n, var):
        return "MCRaw"
    _bad("multi_bcat: conversion not understood", n)


def _multi(fn):
    a = fn.args
    if (a.args or a.kwonlyargs or a.kwarg or a.vararg is None or getattr(a, "posonlyargs", None) or fn.decorator_list):
        _bad("multi_bcat: signature", fn)
    body = [s for s in fn.body if not (isinstance(s, ast.Expr) and isinstance(s.value, ast.Constant)
                                       and isinstance(s.value.value, str))]
    if len(body) != 2 or not isinstance(body[0], ast.For) or body[0].orelse:
        _bad("multi_bcat: body is not `for ...: ...; return None`", fn)
    loop, ret = body
    if not (isinstance(ret, ast.Return) and (ret.value is None or (isinstance(ret.value, ast.Constant) and ret.value.value is None))):
        _bad("multi_bcat: does not end in `return None`", ret)
    if not (isinstance(loop.target, ast.Name) and _is_name(loop.iter, a.vararg.arg)) or len(loop.body) != 2:
        _bad("multi_bcat: loop not understood", loop)
    pv, (asg, cond) = loop.target.id, loop.body
    if not (isinstance(asg, ast.Assign) and len(asg.targets) == 1 and isinstance(asg.targets[0], ast.Name)
            and isinstance(asg.value, ast.Call) and _is_name(asg.value.func, "bcat") and len(asg.value.args) == 1
            and _is_name(asg.value.args[0], pv) and len(asg.value.keywords) == 1
            and asg.value.keywords[0].arg == "fallback" and _is_name(asg.value.keywords[0].value, "null")):
        _bad("multi_bcat: expected `ret = bcat(path, fallback=null)`", asg)
    rv = asg.targets[0].id
    if not (isinstance(cond, ast.If) and not cond.orelse and isinstance(cond.test, ast.Compare) and len(cond.test.ops) == 1
            and isinstance(cond.test.ops[0], (ast.NotEq, ast.IsNot)) and _is_name(cond.test.left, rv)
            and _is_name(cond.test.comparators[0], "null") and len(cond.body) == 1):
        _bad("multi_bcat: expected `if ret != null:` with one statement", cond)
    t = cond.body[0]
    if not (isinstance(t, ast.Try) and len(t.body) == 1 and isinstance(t.body[0], ast.Return) and len(t.handlers) == 1
            and not t.orelse and not t.finalbody and len(t.handlers[0].body) == 1
            and isinstance(t.handlers[0].body[0], ast.Return)):
        _bad("multi_bcat: expected try: return ... except X: return ...", t)
    return ("{| mf_guarded := true; mf_try := %s; mf_class := %s; mf_handler := %s |}"
            % (_conv(t.body[0].value, rv), _exn(t.handlers[0]), _conv(t.handlers[0].body[0].value, rv)))


def _ret_none(st):
    return isinstance(st, ast.Return) and (st.value is None or (isinstance(st.value, ast.Constant) and st.value.value is None))


def _head(stmts):
    """[try listdir] / names = listdir ; bats = [...] ; if not bats: return None ; root = join(PATH, min(bats))"""
    if len(stmts) != 4:
        raise TranslateError("sensors_battery: head is not 4 statements (listdir, bats, emptiness check, root)")
    ld, bats, chk, root = stmts

    def is_listdir(st):
        return (isinstance(st, ast.Assign) and len(st.targets) == 1 and _is_name(st.targets[0], "names")
                and isinstance(st.value, ast.Call) and _is_attr(st.value.func, "os", "listdir") and not st.value.keywords
                and len(st.value.args) == 1 and _is_name(st.value.args[0], "POWER_SUPPLY_PATH"))
    if is_listdir(ld):
        guard = "None"
    elif (isinstance(ld, ast.Try) and len(ld.body) == 1 and is_listdir(ld.body[0]) and len(ld.handlers) == 1
          and not ld.orelse and not ld.finalbody and ld.handlers[0].name is None and isinstance(ld.handlers[0].type, ast.Name)
          and len(ld.handlers[0].body) == 1 and _ret_none(ld.handlers[0].body[0])):
        guard = "(Some %s)" % _by(ld.handlers[0].type.id)
    else:
        _bad("listdir statement not understood", ld)
    # bats = [x for x in names if x.startswith('BAT') or 'battery' in x.lower()]
    ok = (isinstance(bats, ast.Assign) and len(bats.targets) == 1 and _is_name(bats.targets[0], "bats")
          and isinstance(bats.value, ast.ListComp) and len(bats.value.generators) == 1)
    if ok:
        g = bats.value.generators[0]
        ok = (isinstance(g.target, ast.Name) and _is_name(bats.value.elt, g.target.id) and _is_name(g.iter, "names")
              and not g.is_async and len(g.ifs) == 1 and isinstance(g.ifs[0], ast.BoolOp) and isinstance(g.ifs[0].op, ast.Or)
              and len(g.ifs[0].values) == 2)
    if ok:
        x, (c1, c2) = g.target.id, g.ifs[0].values
        ok = (isinstance(c1, ast.Call) and isinstance(c1.func, ast.Attribute) and c1.func.attr == "startswith"
              and _is_name(c1.func.value, x) and len(c1.args) == 1 and not c1.keywords
              and isinstance(c1.args[0], ast.Constant) and isinstance(c1.args[0].value, str)
              and isinstance(c2, ast.Compare) and len(c2.ops) == 1 and isinstance(c2.ops[0], ast.In)
              and isinstance(c2.left, ast.Constant) and isinstance(c2.left.value, str)
              and isinstance(c2.comparators[0], ast.Call) and isinstance(c2.comparators[0].func, ast.Attribute)
              and c2.comparators[0].func.attr == "lower" and _is_name(c2.comparators[0].func.value, x)
              and not c2.comparators[0].args and not c2.comparators[0].keywords)
    if not ok:
        _bad("battery-name filter not understood", bats)
    pre, sub = c1.args[0].value, c2.left.value
    if not (isinstance(chk, ast.If) and not chk.orelse and isinstance(chk.test, ast.UnaryOp) and isinstance(chk.test.op, ast.Not)
            and _is_name(chk.test.operand, "bats") and len(chk.body) == 1 and _ret_none(chk.body[0])):
        _bad("expected `if not bats: return None`", chk)
    if not (isinstance(root, ast.Assign) and len(root.targets) == 1 and _is_name(root.targets[0], "root")
            and isinstance(root.value, ast.Call) and isinstance(root.value.func, ast.Attribute) and root.value.func.attr == "join"
            and _is_attr(root.value.func.value, "os", "path") and len(root.value.args) == 2 and not root.value.keywords
            and _is_name(root.value.args[0], "POWER_SUPPLY_PATH")):
        _bad("expected root = os.path.join(POWER_SUPPLY_PATH, <choice>)", root)
    ch = root.value.args[1]
    if isinstance(ch, ast.Call) and _is_name(ch.func, "min") and len(ch.args) == 1 and not ch.keywords and _is_name(ch.args[0], "bats"):
        pick = "PickMin"
    elif (isinstance(ch, ast.Subscript) and _is_name(ch.value, "bats") and isinstance(ch.slice, ast.Constant)
          and ch.slice.value == 0):
        pick = "PickFirst"
    else:
        _bad("choice of the battery entry not understood", ch)
    return ("{| hd_guard := %s; hd_prefix := %s; hd_sub := %s; hd_empty_none := true; hd_pick := %s |}"
            % (guard, _by(pre), _by(sub), pick))


def translate(impl_dir):
    """-> text of coq/Gen/C19_Tables.v"""
    src = open(os.path.join(impl_dir, "psutil", "_pslinux.py")).read()
    tree = ast.parse(src)
    fns = [n for n in tree.body if isinstance(n, ast.FunctionDef) and n.name == "sensors_battery"]
    if len(fns) != 1 or fns[0].decorator_list or fns[0].args.args or fns[0].args.vararg or fns[0].args.kwarg \
            or fns[0].args.kwonlyargs:
        raise TranslateError("sensors_battery: not exactly one plain module-level def sensors_battery()")
    body = [s for s in fns[0].body if not (isinstance(s, ast.Expr) and isinstance(s.value, ast.Constant)
                                           and isinstance(s.value.value, str))]
    # null = object()
    if not (body and isinstance(body[0], ast.Assign) and len(body[0].targets) == 1 and _is_name(body[0].targets[0], "null")
            and isinstance(body[0].value, ast.Call) and _is_name(body[0].value.func, "object")
            and not body[0].value.args and not body[0].value.keywords):
        raise TranslateError("sensors_battery: `null = object()` not found where expected")
    if not (len(body) > 6 and isinstance(body[1], ast.FunctionDef) and body[1].name == "multi_bcat"):
        raise TranslateError("sensors_battery: nested def multi_bcat not found where expected")
    for n in ast.walk(fns[0]):
        if isinstance(n, (ast.Global, ast.Nonlocal, ast.Lambda, ast.While, ast.With, ast.Delete, ast.AugAssign,
                          ast.Yield, ast.YieldFrom, ast.Await, ast.NamedExpr)):
            _bad("construct outside the language", n)
    multi = _multi(body[1])
    head = _head(body[2:6])
    prog = _block(body[6:])
    return "\n".join([
        "(* GENERATED by props/C19.py (gen_tables) from psutil/_pslinux.py:sensors_battery of the tree under check -- do not edit. *)",
        "From Coq Require Import String.",
        "From PV Require Import C19.PyGen.", "",
        "Definition gen_multi_bcat : multifn :=\n  %s." % multi, "",
        "Definition gen_battery_head : headfn :=\n  %s." % head, "",
        "Definition gen_battery_body : list stmt :=\n  %s." % prog, ""])


def gen_tables(impl_dir, out_dir):
    txt = translate(impl_dir)
    path = os.path.join(out_dir, "C19_Tables.v")
    os.makedirs(out_dir, exist_ok=True)
    if not os.path.exists(path) or open(path).read() != txt:
        with open(path, "w") as f:
            f.write(txt)
