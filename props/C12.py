"""C12 -- cmdline/environ/exe/cwd and extended name() decode what the kernel exposes."""
import itertools
import os

from pv import gallina as G
from pv.canon import B, outcome
from props._c12_gen import TranslateError, gen_tables  # noqa: F401  (pv/core.py calls gen_tables on every run: coq/Gen/C12_Tables.v)

ID = "C12"
COQ_REQUIRE = "C12.Run"
SHARD = 120
MODEL_CFG = os.environ.get("C12_MODEL_CFG", "now")   # Gallina constant: "now" = code as it is in /repo, "before_fix" = before commits 46827e5 / 76627f6
RULE = ("kernel-shaped inputs drawn from the theorem's domain and printed by the Coq kernel printers: argument vectors "
        "(0-6 args built from atoms: empty, spaces, '=', '/', tabs, newlines, CR/CRLF, valid and invalid UTF-8) and overwritten "
        "titles (space-separated words, no/space/NUL terminator), zombie flag; environment blocks (NAME=value / '='-less / "
        "empty-NAME entries, duplicates, '=' in values, tails: none, empty entry + garbage, unterminated); exe/cwd link targets "
        "(linked/unlinked, NUL garbage, literal ' (deleted)' names; the existence probe answered by injection with every errno -- ENOENT, "
        "ESRCH, ENOTDIR, ELOOP, ENAMETOOLONG, EIO, EOVERFLOW, ESTALE, EACCES -- and by real file-system states below the worker's directory: "
        "parent replaced by a regular file, symlink loop, component > 255 bytes, path > 4095 bytes, absent, present); exe() called twice on one object with the kernel "
        "state changed in between (link present / withheld with ENOENT or ESRCH / denied with EACCES; cmdline()[0] an executable file, a "
        "plain 0644 file, a searchable 0755 directory incl. '/' and a trailing-slash directory, dangling, relative -- each really put on "
        "disk, isabs/isfile/access(X_OK) answered separately by the file system); (comm, argv) pairs "
        "around the 15-byte boundary (ASCII, multi-byte, truncated inside a character); SIZE: 6 fake-tree and 2 live processes whose cmdline (40-222 KiB) and environ (60-166 KiB) are described by repetition and expanded "
        "inside Gallina (400 arguments, one 100 KiB argument, NUL exactly at offsets 32767 / 32768, boundary inside an entry, non-ASCII content), "
        "compared through digests; 24 LIVE children on the running kernel (chosen argv / environment entries / cwd / executable file / "
        "overwritten title / zombie: predicted /proc bytes compared with the real ones, then psutil over the real /proc); zombies (every pool name cut at 15 and 14 bytes: name(), cmdline(), exe(), cwd()); processes being torn down (stat absent "
        "with or without the directory, probe refused); name() histories on one object (the process_iter() instance in 40 %: name()/repr()/as_dict()/process_iter(['name']) calls while "
        "comm stays and the command line is rewritten to another basename with the same 15-byte prefix, overwritten by a title, emptied, or the "
        "process turns zombie; 4 names x 6 changes x 4 first calls enumerated in both tiers); histories (cmdline(), the caller edits the returned list in place, cmdline(), name(), "
        "exe() again, inside and outside oneshot()); arbitrary bytes as the cmdline file against the documented rule and arbitrary environment blocks against "
        "the total specification; code-point lists for the encoder; a malformed stream (raw cmdline/environ "
        "bytes, ENOENT/ESRCH/EACCES on files and links, vanished /proc entries, zombies) compared with the model only; raw byte "
        "strings for the UTF-8/surrogateescape decoder. Exhaustive: all argv of <=3 args over {'', 'a', ' ', 'a b', 'a '} and all "
        "titles of <=3 words over {'', 'a', 'b'} x 3 terminators. Non-trivial = non-empty input; distinct = canonical case hash.")
TRUSTED = ["live cases: the kernel printers k_cmdline/k_environ/k_link and the comm truncation are compared byte for byte with the running "
           "kernel's /proc/<pid>/{cmdline,environ,exe,cwd,comm} of 24 real children on every run (props/_c12_live.py); NUL garbage after link "
           "targets, withheld links of kernel threads and environment tails are not reproducible live and stay transcriptions",
           "correspondence harness props/C12.py + pv/ (fake /proc tree; os.readlink and psutil._common.open wrapped for link targets and "
           "open() errors; os.stat/os.access wrapped only to redirect a case path to its real on-disk object or to 'missing', and to answer "
           "path_exists_strict() on link targets; objects below the placeholder directory are reached unpatched)",
           "formats of /proc/<pid>/cmdline, environ, exe, cwd and stat comm (proc(5)) transcribed in coq/C12/Spec.v",
           "hand-written model coq/C12/Model.v, UTF-8/surrogateescape decoder and universal-newline reader coq/C12/Lib.v "
           "(tied to the code by the correspondence run only) -- EXCEPT Process.cmdline() of _pslinux.py and Process.name() of __init__.py, "
           "whose control flow is translated from the current source on every run (props/_c12_gen.py -> coq/Gen/C12_Tables.v) and proved "
           "equal to Model.pl_cmdline / Model.fe_name on all inputs (coq/C12/ProofsGen.v); still hand-written: parse_environ_block, readlink/_readlink, "
           "wrap_exceptions, exe() and its guess, open_text",
           "translator props/_c12_gen.py (Python ast -> the statement languages of coq/C12/PyGen.v; fails closed on unknown shapes) and the "
           "interpreters of coq/C12/PyGen.v (meaning given to str.endswith/split/[:-1]/in, len, os.fsencode, os.path.basename, try/except/else)"]
ASSUMPTIONS = ["CPython semantics of str.split/find/endswith/startswith, text-mode open() (utf-8, surrogateescape, newline=\"\" for cmdline/environ), "
               "os.path.basename/isabs/isfile and dict are modelled, not verified",
               "searching a surrogateescape-decoded str for NUL, ' ', '=', '/' equals searching the bytes (sampled with invalid UTF-8)",
               "the filesystem encoding is utf-8 with surrogateescape (checked by the worker at start)",
               "parsing of the stat record (comm between the parentheses, state letter) is C06's subject; here comm and the zombie flag are inputs"]
EXHAUSTIVE = {
    "quick": "all 156 argv of <=3 args over {'', 'a', ' ', 'a b', 'a '}; all 117 titles of <=3 words over {'', 'a', 'b'} x {none, space, NUL}; "
             "8 large cmdline/environ files (40-222 KiB) incl. 2 live children; exe() fallback: 15 (cmdline()[0], kind on disk) pairs x {ENOENT, ESRCH, EACCES}; existence probe of marked link targets: 8 injected "
             "errnos + 6 real file-system states x {exe, cwd} x {no garbage, NUL garbage}; all 156 cmdline files of <=3 bytes over "
             "{NUL, ' ', 'a', CR, LF} against the documented rule",
    "thorough": "all 156 argv of <=3 args over {'', 'a', ' ', 'a b', 'a '}; all 117 titles of <=3 words over {'', 'a', 'b'} x {none, space, NUL}; "
                "all 3906 cmdline files of <=5 bytes over {NUL, ' ', 'a', CR, LF} against the documented rule; exe() fallback: 15 (cmdline()[0], kind on disk) pairs x "
                "{ENOENT, ESRCH, EACCES}",
}
PID = 4242

ATOMS = [b"a", b"b", b"foo", b"", b" ", b"=", b"-x", b"/", b"/usr/bin/prog", b"\xff", b"\xc3\xa9", b"\xe2\x82", b"\t", b"\n",
         b"x y", b" (deleted)", b"\x80", b"--long=opt", b"  "]
CR_ATOMS = [b"\r", b"\r\n", b"a\rb", b"\n\r"]
WORDS = [b"a", b"foo", b"", b"--opt", b"\xff", b"\xc3\xa9", b"=", b"\t", b"/usr/sbin/sshd:", b"user@pts/0", b"\n"]


def h(b):
    return bytes(b).hex()


def unh(s):
    return bytes.fromhex(s)


def _arg(rng, cr=0.04):
    k = rng.choice([0, 1, 1, 1, 2, 3])
    out = b"".join(rng.choice(ATOMS) for _ in range(k))
    if rng.random() < cr:
        pos = rng.randint(0, len(out))
        out = out[:pos] + rng.choice(CR_ATOMS) + out[pos:]
    return out


def _cmd(rng, cr=0.04, argv0=None):
    if rng.random() < 0.7 or argv0 is not None:
        n = rng.choice([0, 1, 1, 2, 2, 3, 4, 6])
        parts = [_arg(rng, cr) for _ in range(n)]
        if argv0 is not None:
            parts = [argv0] + parts[1:]
        if parts and rng.random() < 0.15:
            parts.append(b"")
        return {"form": "argv", "parts": [h(p) for p in parts], "term": "nul"}
    n = rng.choice([1, 1, 2, 3, 4])
    ws = [rng.choice(WORDS) for _ in range(n)]
    if rng.random() < cr:
        ws[rng.randrange(n)] += b"\r"
    return {"form": "title", "parts": [h(w) for w in ws], "term": rng.choice(["none", "space", "nul"])}


def _cmd_cls(cmd):
    parts = [unh(p) for p in cmd["parts"]]
    if cmd["form"] == "argv":
        if not parts:
            return "argv-empty"
        if len(parts) == 1 and b" " in parts[0]:
            return "argv-single-space"
        if parts[-1] == b"":
            return "argv-trailing-empty"
        if any(max(p, default=0) >= 0x80 for p in parts):
            return "argv-nonascii"
        return "argv"
    return "title-" + cmd["term"]


def _has_cr_cmd(cmd):
    return any(b"\r" in unh(p) for p in cmd["parts"])


ENV_NAMES = [b"A", b"PATH", b"HOME", b"a", b"\xff", b"X Y", b"A", b"LC_\xc3\xa9", b"_"]
ENV_VALUES = [b"", b"1", b"a=b", b"=", b"/usr/bin:/bin", b"\xff\xfe", b"caf\xc3\xa9", b"x y", b"\n", b"==", b"\t"]
ENV_JUNK = [b"junk", b"=x", b"=", b"noeq", b" ", b"\xff", b"=A=1"]


def _env(rng, cr=0.05):
    items = []
    for _ in range(rng.choice([0, 1, 2, 3, 3, 4, 6])):
        if rng.random() < 0.75:
            v = rng.choice(ENV_VALUES)
            if rng.random() < cr:
                v += rng.choice(CR_ATOMS)
            items.append(["KV", h(rng.choice(ENV_NAMES)), h(v)])
        else:
            items.append(["J", h(rng.choice(ENV_JUNK))])
    k = rng.random()
    if k < 0.6:
        tail = ["none"]
    elif k < 0.85:
        tail = ["end", h(rng.choice([b"", b"Z=9\x00", b"\x00\x00", b"junk", b"Q=1\x00R=2\x00\x00"]))]
    else:
        tail = ["unterm", h(rng.choice([b"Q=1", b"zzz", b"=", b"A=override"]))]
    return items, tail


LINK_PATHS = [b"/usr/bin/python3", b"/a b", b"/", b"/x (deleted)", b"/home/u\xff/bin", b"/tmp/\xc3\xa9", b"/x (deleted) (deleted)",
              b"/sp ace/p", b"relative", b"/a\rb", b"/tmp/a\nb", b"/proc/1/root", b"/ (deleted)x"]
GARBAGE = [None, None, None, b"", b" (deleted)junk", b"new", b"\x00\x00"]


# errno of a failing existence probe (os.stat of the literal " (deleted)"-marked string) -> number
PROBE_ERRNO = {"ENOENT": 2, "ESRCH": 3, "ENOTDIR": 20, "ELOOP": 40, "ENAMETOOLONG": 36, "EIO": 5, "EOVERFLOW": 75, "ESTALE": 116}
# real file-system states around <base>/d/f: what stat("<base>/d/f (deleted)") answers there
REAL_STATES = {"notdir": "ENOTDIR", "loop": "ELOOP", "absent": "ENOENT", "longname": "ENAMETOOLONG", "longpath": "ENAMETOOLONG",
               "present": "exists"}


def _real_link(real, garbage=None):
    """a link whose target lies in a real directory prepared by the worker (no patch on the probe)"""
    if real == "longname":
        path = PVBASE + b"/" + b"x" * 300
    elif real == "longpath":
        path = PVBASE + b"/a" * 2100
    elif real == "present":
        path = PVBASE + b"/d/f (deleted)"      # a linked file really called "f (deleted)"
    else:
        path = PVBASE + b"/d/f"
    return {"path": h(path), "unlinked": real != "present", "garbage": None if garbage is None else h(garbage),
            "lit": real == "present", "errno": REAL_STATES[real] if real != "present" else "ENOENT", "real": real}


def _probe(l):
    """third element of a link_res: outcome of the probe"""
    return "exists" if l["lit"] else l.get("errno", "ENOENT")


def _link(rng, consistent=0.8):
    path = rng.choice(LINK_PATHS)
    unlinked = rng.random() < 0.4
    if rng.random() < consistent:
        lit = not unlinked
    else:
        lit = rng.random() < 0.5
    g = rng.choice(GARBAGE)
    return {"path": h(path), "unlinked": unlinked, "garbage": None if g is None else h(g), "lit": lit,
            "errno": rng.choice(["ENOENT", "ENOENT", "ENOENT"] + sorted(PROBE_ERRNO))}


PVBASE = b"/pvbase"   # placeholder for a real directory of the worker: objects below it are created on disk and reached unpatched
ARGV0 = [b"/usr/bin/prog", b"/opt/my app/run", b"prog", b"./prog", b"/bin/\xff", b"", b"/x y", b"/usr/bin/prog", b"/sbin/init",
         b"/", PVBASE + b"/bin", PVBASE + b"/bin/", PVBASE + b"/bin/prog", PVBASE + b"/bin/data", PVBASE + b"/bin/nothing"]
KINDS = ["regx", "reg", "dir"]


def _paths_for(rng, a0s, mode=None):
    """file-system content around the candidate paths: each candidate is an executable file, a plain file, a directory
    or absent; '/' and <base>/bin[/] are always directories, names below <base>/bin keep their fixed kinds"""
    out, seen = [], set()
    fixed = {b"/": "dir", PVBASE + b"/bin": "dir", PVBASE + b"/bin/": "dir", PVBASE + b"/bin/prog": "regx", PVBASE + b"/bin/data": "reg"}
    for c in a0s:
        if not c or b"\x00" in c or c in seen:
            continue
        seen.add(c)
        if c in fixed:
            out.append([h(c), fixed[c]])
        elif c.startswith(PVBASE) or c.endswith(b"/"):
            continue   # dangling below the real directory / trailing slash on something that is not a known directory
        else:
            k = mode or rng.choice(["regx", "regx", "reg", "dir", None])
            if k is not None:
                out.append([h(c), k])
    return out


def _kproc(rng, comm=b"prog", link_p=0.4, cr=0.02, a0=None, kind=None, how=None):
    a0 = rng.choice(ARGV0) if a0 is None else a0
    cmd = _cmd(rng, cr, argv0=a0 if rng.random() < 0.85 or kind else None)
    first = unh(cmd["parts"][0]) if cmd["parts"] else b""
    cands = [a0, first, first.split(b" ")[0], a0.split(b" ")[0], b"/usr/bin/other"]
    return {"comm": h(comm), "cmd": cmd, "exe": _link(rng, 0.9) if rng.random() < link_p else None,
            "how": how or rng.choice(["ENOENT", "ENOENT", "ESRCH", "EACCES"]), "paths": _paths_for(rng, cands, kind)}


def _fallback_cls(r):
    """class of an exe() case by what cmdline()[0] is"""
    if r["exe"] is not None:
        return "exe-link"
    parts = [unh(x) for x in r["cmd"]["parts"]]
    pre = "exe-denied" if r["how"] == "EACCES" else "exe-withheld"
    if not parts:
        return pre + "-nocmdline"
    a0 = parts[0]
    if r["cmd"]["form"] == "argv" and len(parts) == 1:
        a0 = a0.split(b" ")[0]
    kind = dict((unh(q), k) for q, k in reversed(r["paths"])).get(a0)
    rel = "" if a0.startswith(b"/") else "-relative"
    return pre + "-" + {None: "dangling", "regx": "execfile", "reg": "plainfile", "dir": "directory"}[kind] + rel


NAME_POOL = [b"gnome-keyring-daemon", b"python3", b"exactly15bytes!", b"fourteen_bytes", b"sixteen_bytes_xx",
             "процесс-демон".encode(), b"caf\xc3\xa9-au-lait-server", b"abcdefghijklm\xc3\xa9", b"abcdefghijklmn\xc3\xa9z",
             b"\xff" * 20, b"a b c d e f g h i j", b"kworker/u16:3-events_unbound", "日本語のプロセス名".encode(),
             b"name)with(parens", b"x" * 15, b"x" * 14 + b"\xc3\xa9"]


def _name_case(rng):
    n = rng.choice(NAME_POOL)
    k = rng.random()
    if k < 0.75:
        comm = n[:15]
    elif k < 0.85:
        comm = n[:14]
    else:
        comm = rng.choice(NAME_POOL)[:15]
    k = rng.random()
    pre = rng.choice([b"", b"/usr/bin/", b"./", b"/opt/a b/", b"/"])
    if k < 0.6:
        a0 = pre + n
    elif k < 0.75:
        a0 = pre + n + b"-extra"
    elif k < 0.85:
        a0 = pre + n[:15]
    elif k < 0.93:
        a0 = pre + b"other"
    else:
        a0 = n + b"/"
    r = _kproc(rng, comm=comm, link_p=0.0, cr=0.01, how="ENOENT")
    k = rng.random()
    if k < 0.8:
        parts = [a0] + [_arg(rng, 0.01) for _ in range(rng.choice([0, 1, 2]))]
        r["cmd"] = {"form": "argv", "parts": [h(p) for p in parts], "term": "nul"}
    elif k < 0.9:
        r["cmd"] = {"form": "title", "parts": [h(a0.replace(b" ", b"_")), h(b"[title]")], "term": rng.choice(["none", "space", "nul"])}
    else:
        r["cmd"] = {"form": "argv", "parts": [], "term": "nul"}
    return r


def _file_res(rng, data):
    k = rng.random()
    if k < 0.7:
        return ["data", h(data)]
    return [rng.choice(["ENOENT", "ESRCH", "EACCES"])]


def _link_res(rng):
    k = rng.random()
    if k < 0.6:
        raw = rng.choice(LINK_PATHS) + rng.choice([b"", b"", b" (deleted)", b"\x00junk", b" (deleted)\x00 (deleted)"])
        return ["target", h(raw), rng.choice(["exists", "missing", "missing", "denied"] + sorted(PROBE_ERRNO))]
    return [rng.choice(["ENOENT", "ESRCH", "EACCES"])]


RAW_ALPHA = [0, 32, 97, 13, 10, 255, 61, 47]


def _view(rng):
    pdir = rng.random() < 0.85
    if not pdir:
        return {"pdir": False, "stat": None, "comm": h(b"gone"), "cmdline": ["ENOENT"], "environ": ["ENOENT"],
                "exe": [rng.choice(["ENOENT", "ESRCH"])], "cwd": [rng.choice(["ENOENT", "ESRCH"])], "paths": []}
    stat = rng.choice(["S", "S", "S", "Z", None, "DENIED"])
    comm = rng.choice(NAME_POOL)[:15]
    k = rng.random()
    if k < 0.3:
        data = b""
    elif k < 0.6:
        data = bytes(rng.choice(RAW_ALPHA) for _ in range(rng.randint(1, 8)))
    else:
        data = b"\x00".join([rng.choice(ARGV0 + [comm + b"-long"]), b"x"]) + rng.choice([b"\x00", b"", b" "])
    env = bytes(rng.choice(RAW_ALPHA) for _ in range(rng.randint(0, 10)))
    a0 = data.split(b"\x00")[0]
    return {"pdir": True, "stat": stat, "comm": h(comm), "cmdline": _file_res(rng, data), "environ": _file_res(rng, env),
            "exe": _link_res(rng), "cwd": _link_res(rng),
            "paths": _paths_for(rng, [a0, a0.split(b" ")[0]])}


UDEC_ALPHA = [0x41, 0x7f, 0x80, 0xbf, 0xc0, 0xc1, 0xc2, 0xc3, 0xa9, 0xdf, 0xe0, 0xa0, 0x9f, 0xed, 0xee, 0xef, 0xf0, 0x90, 0x8f,
              0xf4, 0xf5, 0xff, 0xe2, 0x82, 0xac, 0x00, 0x0d]


# ------------------------------------------------------------------ large inputs: descriptors, Python mirror of Spec.expand_* and of Run's digests
M63 = (1 << 63) - 1


def _hbytes(a, b):
    for x in b:
        a = (a * 1000003 + x + 1) & M63
    return a


def _dig_bytes(b):
    return [len(b), _hbytes(7, b)]


def _dig_list(ls):
    a = 7
    for l in ls:
        a = (_hbytes(a, l) * 1000003 + 256 + 1) & M63
    return [len(ls), a, B((ls[0] if ls else b"")[:64]), B((ls[-1] if ls else b"")[:64])]


def _bg(unit, n, tail=b"", times=1):
    return {"unit": h(unit), "n": n, "tail": h(tail), "times": times}


def _big_arg(g):
    return unh(g["unit"]) * g["n"] + unh(g["tail"])


def _expand_args(gs):
    return [a for g in gs for a in [_big_arg(g)] * g["times"]]


def _expand_env(es):
    out, i = [], 0
    for e in es:
        v = _big_arg(e["value"])
        for _ in range(e["value"]["times"]):
            out.append(unh(e["prefix"]) + str(i).encode() + b"=" + v)
            i += 1
    return out


def _g_bg(g):
    return "(Build_bgroup %s (Z.to_nat %d) %s (Z.to_nat %d))" % (G.by(unh(g["unit"])), g["n"], G.by(unh(g["tail"])), g["times"])


A0_BIG = b"/usr/bin/gnome-keyring-daemon"


def _big_cases():
    a0 = _bg(b"", 0, A0_BIG)
    k = len(A0_BIG) + 1                 # bytes of cmdline taken by argv[0] and its NUL
    e0 = lambda n: {"prefix": h(b"V"), "value": _bg(b"v", n, b"", 1)}     # entry "V0=" + n*"v" + NUL : n + 4 bytes
    many_vars = {"prefix": h(b"VAR_"), "value": _bg(b"val", 30, b"=\n;", 600)}
    mk = lambda cls, gs, es, live=False: {"kind": "big", "cls": ("biglive-" if live else "big-") + cls, "comm": h(A0_BIG.split(b"/")[-1][:15]),
                                          "groups": gs, "egroups": es, "live": live}
    return [
        mk("400-args", [a0, _bg(b"0123456789", 10, b"", 400)], [many_vars]),
        mk("one-100KiB-arg", [a0, _bg(b"x", 102400), _bg(b"", 0, b"last")], [{"prefix": h(b"BIG"), "value": _bg(b"y", 102400)}, many_vars]),
        mk("nul-at-32767", [a0, _bg(b"a", 32767 - k), _bg(b"b", 40000), _bg(b"", 0, b"")], [e0(32767 - 3), many_vars]),
        mk("nul-at-32768", [a0, _bg(b"a", 32768 - k), _bg(b"b c", 3000, b"", 3)], [e0(32768 - 3), many_vars]),
        mk("boundary-inside", [a0, _bg(b"a", 32768 - k - 5, b"=tail with spaces ", 2), _bg(b"q", 7, b"", 2000)], [e0(32760), many_vars]),
        mk("non-ascii-chars-vs-bytes", [a0, _bg(b"\xc3\xa9", 40000), _bg(b"\xff", 35000, b"\xe2\x82"), _bg(b"\xe2\x82\xac", 11, b"", 900)],
           [{"prefix": h(b"U"), "value": _bg(b"\xc3\xa9", 33000, b"\r\n")}, {"prefix": h(b"X\xff"), "value": _bg(b"\xff\xfe", 20000)}]),
        mk("args-and-env", [a0, _bg(b"arg ", 75, b"", 400), _bg(b"z", 102400)],
           [{"prefix": h(b"E"), "value": _bg(b"0123456789", 10, b"", 600)}, {"prefix": h(b"HUGE"), "value": _bg(b"w", 102400)}], live=True),
        mk("non-ascii", [a0, _bg(b"\xc3\xa9", 45000), _bg(b"", 0, b"", 3), _bg(b"\xff", 33000)],
           [{"prefix": h(b"U"), "value": _bg(b"\xc3\xa9", 34000)}, {"prefix": h(b"N"), "value": _bg(b"n", 1, b"", 700)}], live=True),
    ]


def _live_cases():
    B = PVBASE
    def lc(cls, argv=None, env=None, exe=B + b"/bin/prog", cwd=B + b"/wd", exe_unlink=False, cwd_rmdir=False, title=None, mode=None,
           zombie=False):
        argv = [exe, b"-x"] if argv is None else argv
        env = [b"A=1"] if env is None else env      # the environment as the exact list of entries handed to execve()
        return {"kind": "live", "cls": "live-" + cls, "argv": [h(a) for a in argv], "env": [h(e) for e in env],
                "exe_path": h(exe), "cwd_path": h(cwd), "exe_unlink": exe_unlink, "cwd_rmdir": cwd_rmdir,
                "title": None if title is None else h(title), "title_mode": mode, "zombie": zombie}
    long_name = B + b"/bin/a-program-with-a-long-name"
    return [
        lc("argv-plain"),
        lc("argv-empty-strings", argv=[b"", b"", b"x", b""]),
        lc("argv-spaces", argv=[b"prog", b"a b", b" ", b"  c  "]),
        lc("argv-single-with-space", argv=[b"/opt/my app/run"]),
        lc("argv-non-utf8", argv=[b"prog", b"\xff\xfe", b"caf\xc3\xa9", b"\xe2\x82", b"\r\n", b"a=b"]),
        lc("argv-long", argv=[b"prog", b"y" * 6000, b"z"]),
        lc("argv0-rewritten", argv=[b"-bash", b"--login"]),
        lc("env-specials", env=[b"A=1=2", b"NL=x\ny\r\nz", b"EMPTY=", b"\xffK=\xfe\xc3", b"A=dup", b"SP ACE= v "]),
        lc("env-junk-entries", env=[b"noequals", b"A=1", b"=emptyname", b"B=2", b"=", b"A=last", b"\xff"]),
        lc("env-empty", env=[]),
        lc("cwd-deleted", cwd=B + b"/gone dir", cwd_rmdir=True),
        lc("cwd-named-deleted", cwd=B + b"/work (deleted)"),
        lc("cwd-named-deleted-and-deleted", cwd=B + b"/work (deleted)", cwd_rmdir=True),
        lc("cwd-non-utf8", cwd=B + b"/d\xff\xc3"),
        lc("exe-unlinked", exe_unlink=True),
        lc("exe-named-deleted", exe=B + b"/bin/prog (deleted)"),
        lc("exe-named-deleted-and-unlinked", exe=B + b"/bin/prog (deleted)", exe_unlink=True),
        lc("name-long", exe=long_name, argv=[long_name, b"-d"]),
        lc("name-long-argv0-other", exe=long_name, argv=[b"something-else", b"-d"]),
        lc("name-15-bytes", exe=B + b"/bin/exactly15bytes!", argv=[b"./exactly15bytes!"]),
        lc("name-long-multibyte", exe=B + "/bin/процесс-демон".encode(), argv=["процесс-демон".encode()]),
        lc("title-exact", argv=[b"prog", b"-x"], title=b"prog: worker [idle] since today", mode="exact"),
        lc("title-padded", argv=[b"prog", b"--a-rather-long-option=1", b"more"], title=b"prog: idle", mode="padded"),
        lc("zombie", exe=long_name, argv=[long_name], zombie=True),
    ]


def _live_comm(case):
    return os.path.basename(unh(case["exe_path"]))[:15]


def _live_title_bytes(case):
    """bytes /proc/<pid>/cmdline is predicted to hold after the child wrote its title (fs/proc/base.c get_mm_cmdline/get_mm_proctitle)"""
    title = unh(case["title"])
    area = sum(len(unh(a)) + 1 for a in case["argv"])
    if case["title_mode"] == "exact":
        assert len(title) >= area and b"\x00" not in title
        # last byte of the area is not NUL -> get_mm_proctitle(): the string from arg_start up to AND INCLUDING the first NUL
        # (learned from the running 6.18 kernel: "include the NUL character if it was found"; kernels before 4.18-ish stop before it)
        return title + b"\x00"
    assert len(title) < area
    return title + b"\x00" * (area - len(title))   # the argv area as it is


def gen_cases(rng, tier):
    n = {"quick": 120, "thorough": 3000, "search": 400}[tier]
    cases = []
    if tier != "search":
        ex = [b"", b"a", b" ", b"a b", b"a "]
        for k in range(4):
            for combo in itertools.product(ex, repeat=k):
                cmd = {"form": "argv", "parts": [h(p) for p in combo], "term": "nul"}
                cases.append({"kind": "cmd", "cls": "exh-" + _cmd_cls(cmd) if combo else "trivial", "cmd": cmd, "zombie": False})
        for k in range(1, 4):
            for combo in itertools.product([b"", b"a", b"b"], repeat=k):
                for t in ("none", "space", "nul"):
                    cases.append({"kind": "cmd", "cls": "exh-title-" + t, "cmd": {"form": "title", "parts": [h(p) for p in combo], "term": t},
                                  "zombie": False})
    # every cmdline file of <= 3 (quick) / <= 5 (thorough) bytes over {NUL, ' ', 'a', CR, LF}: model, rule (C12_cmdline_total), code
    if tier != "search":
        for k in range(6 if tier == "thorough" else 4):
            for combo in itertools.product([0, 32, 97, 13, 10], repeat=k):
                cases.append({"kind": "cmdbytes", "cls": "exh-cmdbytes" if combo else "trivial", "data": h(bytes(combo)), "zombie": False})
    for _ in range(n):
        k = rng.random()
        if k < 0.5:
            data = bytes(rng.choice(RAW_ALPHA) for _ in range(rng.randint(1, 12)))
        else:   # mixed separators: NUL-separated arguments without the final NUL, titles with NULs inside, doubled terminators
            data = rng.choice([b"\x00", b" ", b""]).join(_arg(rng) for _ in range(rng.randint(1, 4))) + rng.choice([b"", b" ", b"\x00", b"\x00\x00", b" \x00", b"\x00 "])
        z = rng.random() < 0.1
        cases.append({"kind": "cmdbytes", "cls": "cmdbytes" if data else "trivial", "data": h(data), "zombie": z})
    for _ in range(n):
        data = bytes(rng.choice(RAW_ALPHA + [61, 61, 0]) for _ in range(rng.randint(0, 14)))
        cases.append({"kind": "envbytes", "cls": "envbytes" if data else "trivial", "data": h(data)})
    for _ in range(n // 2):
        cps = [rng.choice([0x41, 0x7f, 0x80, 0xe9, 0x7ff, 0x800, 0x20ac, 0xd7ff, 0xd800, 0xdbff, 0xdc00, 0xdc7f, 0xdc80, 0xdcff, 0xdd00,
                           0xdfff, 0xe000, 0xffff, 0x10000, 0x1f600, 0x10ffff]) for _ in range(rng.randint(0, 5))]
        cases.append({"kind": "uenc", "cls": "uenc" if cps else "trivial", "cps": cps})
    for _ in range(2 * n):
        cmd = _cmd(rng)
        z = rng.random() < 0.1
        cls = _cmd_cls(cmd) + ("-cr" if _has_cr_cmd(cmd) else "")
        cases.append({"kind": "cmd", "cls": "trivial" if not cmd["parts"] and not z else cls, "cmd": cmd, "zombie": z})
    for _ in range(2):
        cases.append({"kind": "cmd", "cls": "zombie-empty", "cmd": {"form": "argv", "parts": [], "term": "nul"}, "zombie": True})
    for _ in range(2 * n):
        items, tail = _env(rng)
        cr = any(b"\r" in unh(x) for it in items for x in it[1:])
        names = [it[1] for it in items if it[0] == "KV"]
        cls = "env" + ("-dup" if len(set(names)) < len(names) else "") + ("-junk" if any(it[0] == "J" for it in items) else "") \
              + ("-" + tail[0] if tail[0] != "none" else "") + ("-cr" if cr else "")
        cases.append({"kind": "env", "cls": cls if items or tail[0] != "none" else "trivial", "items": items, "tail": tail})
    # the existence probe of a " (deleted)"-marked target: every errno by injection and every real file-system state, exe and cwd,
    # with and without NUL garbage (both tiers)
    if tier != "search":
        for which in ("exe", "cwd"):
            for g in (None, b" (deleted)junk"):
                for e in sorted(PROBE_ERRNO):
                    l = {"path": h(b"/srv/app/bin (v2)"), "unlinked": True, "garbage": None if g is None else h(g), "lit": False, "errno": e}
                    cases.append({"kind": "link", "cls": "link-probe-" + e, "which": which, "link": l})
                for real in sorted(REAL_STATES):
                    if real == "longpath" and g is not None:
                        continue
                    cases.append({"kind": "link", "cls": "link-realfs-" + real, "which": which, "link": _real_link(real, g)})
        for real in ("notdir", "loop", "longname"):
            r = _kproc(rng, link_p=0.0)
            r["exe"] = _real_link(real)
            cases.append({"kind": "exe", "cls": "exe-link-realfs-" + real, "r": r, "r2": _kproc(rng, link_p=0.5)})
    for _ in range(n):
        l = _link(rng)
        cls = "link" + ("-unlinked" if l["unlinked"] else "") + ("-garbage" if l["garbage"] is not None else "")
        cases.append({"kind": "link", "cls": cls, "which": rng.choice(["exe", "cwd"]), "link": l})
    # exe() fallback: every combination of what cmdline()[0] is x how the link is refused (both tiers)
    if tier != "search":
        for a0, kind in [(b"/", "dir"), (PVBASE + b"/bin", "dir"), (PVBASE + b"/bin/", "dir"), (PVBASE + b"/bin/prog", "regx"),
                         (PVBASE + b"/bin/data", "reg"), (PVBASE + b"/bin/nothing", None), (b"/usr/bin/prog", "regx"),
                         (b"/usr/bin/prog", "reg"), (b"/usr/bin/prog", "dir"), (b"/usr/bin/prog", None), (b"prog", "regx"),
                         (b"./prog", "regx"), (b"prog", "dir"), (b"/bin/\xff", "regx"), (b"/bin/\xff", "dir")]:
            for how in ("ENOENT", "ESRCH", "EACCES"):
                r = {"comm": h(b"prog"), "cmd": {"form": "argv", "parts": [h(a0), h(b"-x")], "term": "nul"}, "exe": None, "how": how,
                     "paths": _paths_for(rng, [a0], kind) if kind else []}
                r2 = _kproc(rng, link_p=0.5)
                cases.append({"kind": "exe", "cls": "exh-" + _fallback_cls(r), "r": r, "r2": r2})
    for _ in range(2 * n):
        r, r2 = _kproc(rng), _kproc(rng, link_p=0.6)
        cases.append({"kind": "exe", "cls": _fallback_cls(r), "r": r, "r2": r2})
    for _ in range(2 * n):
        r = _name_case(rng)
        comm = unh(r["comm"])
        cls = "name-%s%s" % ("15" if len(comm) == 15 else "short" if len(comm) < 15 else "long",
                             "-nonascii" if max(comm, default=0) >= 0x80 else "")
        cases.append({"kind": "name", "cls": cls, "r": r})
    # a process being torn down: stat absent (directory still there or not) / probe refused, link ENOENT or ESRCH
    if tier != "search":
        for pdir in (True, False):
            for denied in (False, True):
                for esrch in (False, True):
                    if denied and not pdir:
                        continue
                    cases.append({"kind": "gone", "cls": "gone-%s-%s" % ("probe-denied" if denied else "stat-absent", "dir" if pdir else "nodir"),
                                  "pdir": pdir, "denied": denied, "esrch": esrch})
    # zombies: every pool name cut at 15 and at 14 bytes (name() consults cmdline() only at >= 15 bytes)
    if tier != "search":
        for nm in NAME_POOL:
            for cut in (15, 14):
                for esrch in (False, True):
                    cases.append({"kind": "zombie", "cls": "zombie-comm%d" % min(cut, len(nm)), "comm": h(nm[:cut]), "esrch": esrch})
    for _ in range(n // 2):
        cases.append({"kind": "zombie", "cls": "zombie-rand", "comm": h(bytes(rng.choice(UDEC_ALPHA[:-2] + [0x29, 0x28, 0x20]) for _ in range(rng.choice([15, 15, 14, 1])))),
                      "esrch": rng.random() < 0.5})
    # live: real children on the running kernel (validates k_cmdline / k_environ / k_link and comm truncation; see props/_c12_live.py)
    if tier != "search":
        cases.extend(_live_cases())
        # SIZE: /proc/<pid>/cmdline and environ far beyond any read buffer (40-250 KiB), the 32768 boundary inside an entry / on a NUL,
        # characters vs bytes; on the fake tree and on two live children
        cases.extend(_big_cases())
    # name() histories on one object: the kernel name stays, the command line changes between the calls
    def _nstate(comm, cmd=None, zombie=False):
        return {"comm": h(comm), "cmd": cmd or {"form": "argv", "parts": [], "term": "nul"}, "zombie": zombie}

    def _nhist(nm, kinds, ops, via_iter):
        comm = nm[:15]
        pre = rng.choice([b"/usr/bin/", b"", b"./", b"/opt/x y/"])
        states = []
        for kd in kinds:
            if kd == "ext":        # argv[0] extends the truncated name
                st = _nstate(comm, {"form": "argv", "parts": [h(pre + nm), h(b"-x")], "term": "nul"})
            elif kd == "ext2":     # argv[0] rewritten to another basename with the same 15-byte prefix
                st = _nstate(comm, {"form": "argv", "parts": [h(pre + comm + b"-other"), h(b"-y")], "term": "nul"})
            elif kd == "title":    # title overwritten: argv[0] no longer starts with comm
                st = _nstate(comm, {"form": "title", "parts": [h(b"title:"), h(b"idle")], "term": rng.choice(["none", "space", "nul"])})
            elif kd == "other":    # argv[0] something else entirely
                st = _nstate(comm, {"form": "argv", "parts": [h(b"/bin/sh"), h(b"-c"), h(pre + nm)], "term": "nul"})
            elif kd == "zombie":   # turned zombie: cmdline() raises ZombieProcess
                st = _nstate(comm, None, True)
            elif kd == "empty":    # command line became empty
                st = _nstate(comm)
            else:                  # comm itself changed (prctl) to something short
                st = _nstate(b"short", {"form": "argv", "parts": [h(pre + nm)], "term": "nul"})
            states.append(st)
        return {"kind": "nhist", "cls": "nhist-" + "-".join(kinds[:3]) + ("-iter" if via_iter else ""), "states": states, "ops": ops,
                "via_iter": via_iter}

    if tier != "search":
        for nm in (b"gnome-keyring-daemon", b"exactly15bytes!-and-more", "процесс-демон".encode(), b"abcdefghijklmn\xc3\xa9z"):
            for second in ("ext2", "title", "other", "zombie", "empty", "short"):
                for first_op in ("name", "repr", "asdict", "iter"):
                    cases.append(_nhist(nm, ["ext", second], [first_op, "name"], first_op == "iter"))
                cases.append(_nhist(nm, [second, "ext", second], ["name", "name", "name"], False))
    for _ in range(n):
        k = rng.randint(2, 5)
        kinds = ["ext"] + [rng.choice(["ext", "ext2", "title", "other", "zombie", "empty", "short"]) for _ in range(k - 1)]
        if rng.random() < 0.3:
            rng.shuffle(kinds)
        via = rng.random() < 0.4
        ops = [rng.choice(["name", "name", "repr", "asdict", "iter"]) for _ in range(k - 1)] + ["name"]
        cases.append(_nhist(rng.choice(NAME_POOL), kinds, ops, via))
    # histories: cmdline(); caller edits the list; cmdline(), name(), exe() -- in and out of oneshot()
    for _ in range(n):
        nm = rng.choice(NAME_POOL)
        a0 = rng.choice([b"/usr/bin/", b"/opt/x y/", b"", b"./"]) + nm
        r = {"comm": h(nm[:15] if rng.random() < 0.85 else b"other"), "exe": _link(rng, 0.9) if rng.random() < 0.2 else None,
             "cmd": {"form": "argv", "parts": [h(a0)] + [h(_arg(rng, 0.01)) for _ in range(rng.choice([1, 1, 2]))], "term": "nul"},
             "how": rng.choice(["ENOENT", "ENOENT", "ESRCH", "EACCES"]), "paths": _paths_for(rng, [a0], rng.choice(["regx", "regx", "regx", "dir", None]))}
        if rng.random() < 0.1:
            r["cmd"] = {"form": "argv", "parts": [], "term": "nul"}
        one = rng.random() < 0.7
        cases.append({"kind": "hist", "cls": "hist-%s%s" % ("oneshot" if one else "plain", "" if r["cmd"]["parts"] else "-nocmdline"),
                      "r": r, "oneshot": one, "mutate": True})
    for _ in range(2 * n):
        steps = []
        v = _view(rng)
        for _ in range(rng.choice([1, 1, 2, 3])):
            if rng.random() < 0.3:
                v = _view(rng)
            steps.append({"view": v, "op": rng.choice(["name", "exe", "exe", "cmdline", "environ", "cwd"])})
        cases.append({"kind": "view", "cls": "view-" + steps[0]["op"], "steps": steps})
    for _ in range(n):
        data = bytes(rng.choice(UDEC_ALPHA) for _ in range(rng.randint(0, 8)))
        cases.append({"kind": "udec", "cls": "udec" if data else "trivial", "data": h(data)})
    return cases


# ------------------------------------------------------------------ Coq terms
def _g_cmd(cmd):
    parts = G.lst([G.by(unh(p)) for p in cmd["parts"]])
    if cmd["form"] == "argv":
        return "(KArgv %s)" % parts
    return "(KTitle %s %s)" % (parts, {"none": "TNone", "space": "TSpace", "nul": "TNul"}[cmd["term"]])


def _g_link(l):
    return "(Build_klink %s %s %s %s %s)" % (G.by(unh(l["path"])), G.bo(l["unlinked"]),
                                             G.opt(l["garbage"], lambda g: G.by(unh(g))), G.bo(l["lit"]), l.get("errno", "ENOENT"))


def _g_paths(ps):
    return G.lst(["(%s, %s)" % (G.by(unh(q)), {"regx": "PRegX", "reg": "PReg", "dir": "PDir"}[k]) for q, k in ps])


def _g_kproc(r):
    return "(Build_kproc %s %s %s W%s %s)" % (G.by(unh(r["comm"])), _g_cmd(r["cmd"]), G.opt(r["exe"], _g_link), r["how"],
                                              _g_paths(r["paths"]))


def _g_file(f):
    return "(FData %s)" % G.by(unh(f[1])) if f[0] == "data" else "F" + f[0]


def _g_lres(l):
    if l[0] == "target":
        return "(LTarget %s %s)" % (G.by(unh(l[1])), {"exists": "SExists", "missing": "(SFails ENOENT)", "denied": "SDenied"}.get(l[2], "(SFails %s)" % l[2]))
    return "L" + l[0]


def _g_view(v):
    # pdir (is the /proc/<pid> directory still there) only shapes the fake tree: the code probes the stat file, not the directory
    stat = {None: "None false", "DENIED": "None true", "S": "(Some false) false", "Z": "(Some true) false"}[v["stat"]]
    return "(Build_pview %s %s %s %s %s %s %s)" % (stat, G.by(unh(v["comm"])), _g_file(v["cmdline"]),
                                                      _g_file(v["environ"]), _g_lres(v["exe"]), _g_lres(v["cwd"]),
                                                      _g_paths(v["paths"]))


_BASE_VIEW = {"pdir": True, "comm": "78", "cmdline": ["data", ""], "environ": ["data", ""], "exe": ["ENOENT"],
              "cwd": ["ENOENT"], "paths": [], "stat": "S"}
NOPS = {"name": "OpName", "repr": "OpRepr", "asdict": "OpAsDictName", "iter": "OpAsDictName"}
OPS = {"name": "OpName", "exe": "OpExe", "cmdline": "OpCmdline", "environ": "OpEnviron", "cwd": "OpCwd"}


def coq_term(case):
    k = case["kind"]
    if k == "cmd":
        return "run_cmd %s %s %s" % (MODEL_CFG, _g_cmd(case["cmd"]), G.bo(case["zombie"]))
    if k == "env":
        items = ["(EKV %s %s)" % (G.by(unh(i[1])), G.by(unh(i[2]))) if i[0] == "KV" else "(EJunk %s)" % G.by(unh(i[1]))
                 for i in case["items"]]
        t = case["tail"]
        tail = "ENone" if t[0] == "none" else "(%s %s)" % ("EEnd" if t[0] == "end" else "EUnterminated", G.by(unh(t[1])))
        return "run_env %s (Build_kenv %s %s)" % (MODEL_CFG, G.lst(items), tail)
    if k == "link":
        return "run_link %s" % _g_link(case["link"])
    if k == "exe":
        return "run_exe %s %s %s" % (MODEL_CFG, _g_kproc(case["r"]), _g_kproc(case["r2"]))
    if k == "name":
        return "run_name %s %s" % (MODEL_CFG, _g_kproc(case["r"]))
    if k == "view":
        return "run_view %s %s" % (MODEL_CFG, G.lst(["(%s, %s)" % (_g_view(s["view"]), OPS[s["op"]]) for s in case["steps"]]))
    if k == "udec":
        return "run_udec %s" % G.by(unh(case["data"]))
    if k == "zombie":
        return "run_zombie %s %s %s" % (MODEL_CFG, G.by(unh(case["comm"])), G.bo(case["esrch"]))
    if k == "hist":
        return "run_hist %s %s" % (MODEL_CFG, _g_kproc(case["r"]))
    if k == "cmdbytes":
        return "run_cmd_bytes %s %s %s" % (MODEL_CFG, G.by(unh(case["data"])), G.bo(case["zombie"]))
    if k == "envbytes":
        return "run_env_bytes %s %s" % (MODEL_CFG, G.by(unh(case["data"])))
    if k == "uenc":
        return "run_uenc %s" % G.zs(case["cps"])
    if k == "big":
        es = G.lst(["(Build_egroup %s %s)" % (G.by(unh(e["prefix"])), _g_bg(e["value"])) for e in case["egroups"]])
        return "run_big %s %s %s %s" % (MODEL_CFG, G.by(unh(case["comm"])), G.lst([_g_bg(g) for g in case["groups"]]), es)
    if k == "live":
        if case["zombie"]:
            return "run_zombie %s %s false" % (MODEL_CFG, G.by(_live_comm(case)))
        if case["title"] is not None:
            return "run_cmd_bytes %s %s false" % (MODEL_CFG, G.by(_live_title_bytes(case)))
        def item(e):
            i = e.find(b"=")
            return "(EKV %s %s)" % (G.by(e[:i]), G.by(e[i + 1:])) if i > 0 else "(EJunk %s)" % G.by(e)
        items = G.lst([item(unh(e)) for e in case["env"]])
        def lnk(path, unlinked):
            return "(Build_klink %s %s None %s ENOENT)" % (G.by(unh(path)), G.bo(unlinked), G.bo(not unlinked))
        return "run_live %s (Build_klive %s (KArgv %s) (Build_kenv %s ENone) %s %s)" % (
            MODEL_CFG, G.by(_live_comm(case)), G.lst([G.by(unh(a)) for a in case["argv"]]), items,
            lnk(case["exe_path"], case["exe_unlink"]), lnk(case["cwd_path"], case["cwd_rmdir"]))
    if k == "nhist":
        steps = ["(Build_nstate %s %s %s, %s)" % (G.by(unh(st["comm"])), _g_cmd(st["cmd"]), G.bo(st["zombie"]), NOPS[o])
                 for st, o in zip(case["states"], case["ops"])]
        return "run_nhist %s %s" % (MODEL_CFG, G.lst(steps))
    if k == "gone":
        return "run_gone %s %s %s" % (MODEL_CFG, G.bo(case["denied"]), G.bo(case["esrch"]))
    raise ValueError(k)


def _sort_dict(o):
    """canonical order for a dict outcome {"t": "Val", "a": [[[k, v], ...]]}"""
    if isinstance(o, dict) and o.get("t") == "Val" and isinstance(o["a"][0], list):
        return {"t": "Val", "a": [sorted(o["a"][0], key=lambda kv: (kv[0]["b"], kv[1]["b"]))]}
    return o


def coq_struct(case, raw):
    k = case["kind"]
    if k == "cmd":
        return {"printed": raw[0], "model": raw[1], "spec": raw[2]}
    if k == "env":
        return {"printed": raw[0], "model": _sort_dict(raw[1]), "spec": None if raw[2] is None else _sort_dict(raw[2])}
    if k == "link":
        return {"printed": raw[0], "model": raw[1], "spec": raw[2]}
    if k == "exe":
        return {"printed": raw[0], "model": raw[1], "spec": raw[2], "aux": raw[3]}
    if k == "name":
        return {"printed": raw[0], "model": raw[1], "spec": raw[2], "aux": [raw[3]]}
    if k == "view":
        model = [(_sort_dict(m) if s["op"] == "environ" else m) for m, s in zip(raw[0], case["steps"])]
        return {"model": model, "spec": None, "aux": raw[1]}
    if k == "udec":
        return {"model": raw, "spec": None}
    if k in ("zombie", "gone", "cmdbytes"):
        return {"model": raw[0], "spec": raw[1]}
    if k == "envbytes":
        return {"model": _sort_dict(raw[0]), "spec": _sort_dict(raw[1])}
    if k == "uenc":
        return {"model": raw, "spec": None}
    if k == "hist":
        return {"printed": raw[0], "model": raw[1], "spec": raw[2], "aux": [raw[3]]}
    if k == "nhist":
        return {"printed": raw[0], "model": raw[1], "spec": raw[2]}
    if k == "big":
        cut = (lambda l: l[:2]) if case["live"] else (lambda l: l)
        return {"printed": raw[0], "model": cut(raw[1]), "spec": None if raw[2] is None else cut(raw[2])}
    if k == "live":
        if case["zombie"] or case["title"] is not None:
            return {"model": raw[0], "spec": raw[1]}
        srt = lambda l: [(_sort_dict(x) if i == 1 else x) for i, x in enumerate(l)]
        return {"printed": raw[0], "model": srt(raw[1]), "spec": None if raw[2] is None else srt(raw[2])}
    raise ValueError(k)


# ------------------------------------------------------------------ known-finding classes
def finding_key(case, coq):
    """No known-finding class is left for C12: both defects this check found (CR/CRLF translated by the text-mode read of
    cmdline/environ; 15-byte non-ASCII names not extended) were repaired in /repo (46827e5, 76627f6). Their inputs are in
    corpus/C12 and are judged like any other case, so a revert is reported as a VIOLATION."""
    return None


def judge(case, coq, impl):
    from pv.core import Verdict, default_judge
    if case["kind"] == "envbytes" and not (isinstance(impl, dict) and impl.get("t") == "Val"):
        # C12_environ_total: environ() never fails, whatever bytes the block holds
        return Verdict("violation", "environ() failed on a byte block: %r" % (impl,))
    return default_judge(None, case, coq, impl)


# ------------------------------------------------------------------ implementation side
def _proc_view(r, printed_cmd, printed_link):
    """pview of a kernel-shaped process record (mirror of Spec.view_proc; bytes come from the Coq printers)."""
    if r["exe"] is None:
        exe = [r["how"]]
    else:
        exe = ["target", printed_link["b"], _probe(r["exe"]), r["exe"].get("real")]
    return {"pdir": True, "stat": "S", "comm": r["comm"], "cmdline": ["data", printed_cmd["b"]], "environ": ["data", ""],
            "exe": exe, "cwd": ["ENOENT"], "paths": r["paths"]}


def _steps_of(case, coq):
    """-> list of (view, op, model-side cmdline outcome for that view)"""
    k = case["kind"]
    base = {"pdir": True, "comm": h(b"x"), "cmdline": ["data", ""], "environ": ["data", ""], "exe": ["ENOENT"],
            "cwd": ["ENOENT"], "paths": [], "stat": "S"}
    if k == "cmd":
        v = dict(base, cmdline=["data", coq["printed"]["b"]], stat="Z" if case["zombie"] else "S")
        return [(v, "cmdline", None)]
    if k == "env":
        return [(dict(base, environ=["data", coq["printed"]["b"]]), "environ", None)]
    if k == "link":
        l = ["target", coq["printed"]["b"], _probe(case["link"]), case["link"].get("real")]
        return [(dict(base, exe=l, cwd=l), case["which"], None)]
    if k == "exe":
        p = coq["printed"]
        return [(_proc_view(case["r"], p[0], p[1]), "exe", coq["aux"][0]), (_proc_view(case["r2"], p[2], p[3]), "exe", coq["aux"][1])]
    if k == "name":
        return [(_proc_view(case["r"], coq["printed"], None), "name", coq["aux"][0])]
    if k == "view":
        return [(s["view"], s["op"], a) for s, a in zip(case["steps"], coq["aux"])]
    if k == "cmdbytes":
        return [(dict(base, cmdline=["data", case["data"]], stat="Z" if case["zombie"] else "S"), "cmdline", None)]
    if k == "envbytes":
        return [(dict(base, environ=["data", case["data"]]), "environ", None)]
    if k == "zombie":
        w = ["ESRCH" if case["esrch"] else "ENOENT"]
        v = dict(base, stat="Z", comm=case["comm"], exe=w, cwd=w)
        return [(v, op, None) for op in ("name", "cmdline", "exe", "cwd")]
    if k == "gone":
        w = ["ESRCH" if case["esrch"] else "ENOENT"]
        v = dict(base, pdir=case["pdir"] or case["denied"], stat="DENIED" if case["denied"] else None, cmdline=["ENOENT"],
                 environ=["ENOENT"], exe=w, cwd=w)
        return [(v, op, None) for op in (("cwd",) if case["denied"] else ("cwd", "exe"))]
    raise ValueError(k)


class _Kernel:
    """Presents one pview to the imported psutil. Real on disk: stat/cmdline/environ files of the fake /proc entry and every
    object cmdline()[0] may point to (executable file 0755, plain file 0644, directory 0755). Paths below PVBASE are rewritten
    to a real directory of the worker and reached by the unpatched os.stat/os.access; any other listed path is redirected by the
    os.stat/os.access wrappers to its real object, so that S_ISREG and X_OK are always answered by the file system itself.
    os.readlink and psutil._common.open are wrapped for link targets (any bytes, NULs) and errno injection."""

    def __init__(self, psutil, root, work):
        self.psutil, self.root, self.work = psutil, root, work
        self.d = os.path.join(root, str(PID))
        self.regfile = os.path.join(work, "regfile")
        with open(self.regfile, "wb") as f:
            f.write(b"x")
        self.realbase = os.path.join(work, "base")
        self.objdir = os.path.join(work, "objs")
        self.links, self.open_err, self.answers, self.objs, self.missing = {}, {}, {}, {}, set()
        self.denied = set()       # paths whose stat()/lstat()/open() are refused (EACCES)
        self.real = (os.readlink, os.stat, os.access, os.lstat)

    def install(self):
        real_readlink, real_stat, real_access, real_lstat = self.real
        import builtins
        K = self

        def readlink(path, *a, **kw):
            if path in K.links:
                r = K.links[path]
                if r[0] == "target":
                    return os.fsdecode(K.rebase(unh(r[1])) if len(r) > 3 and r[3] else unh(r[1]))
                raise {"ENOENT": FileNotFoundError, "ESRCH": ProcessLookupError, "EACCES": PermissionError}[r[0]](
                    {"ENOENT": 2, "ESRCH": 3, "EACCES": 13}[r[0]], "injected", path)
            return real_readlink(path, *a, **kw)

        def lstat(path, *a, **kw):
            if isinstance(path, str) and path in K.denied:
                raise PermissionError(13, "injected", path)
            return real_lstat(path, *a, **kw)

        def stat(path, *a, **kw):
            if isinstance(path, str):
                if path in K.denied:
                    raise PermissionError(13, "injected", path)
                if path in K.answers:       # path_exists_strict() on a link target
                    ans = K.answers[path]
                    if ans == "denied":
                        raise PermissionError(13, "injected", path)
                    if ans == "missing":
                        raise FileNotFoundError(2, "injected", path)
                    if ans in PROBE_ERRNO:     # OSError picks the subclass: NotADirectoryError, FileNotFoundError, plain OSError ...
                        raise OSError(PROBE_ERRNO[ans], os.strerror(PROBE_ERRNO[ans]) + " (injected)", path)
                    return real_stat(K.regfile)
                if path in K.objs:
                    return real_stat(K.objs[path], *a, **kw)
                if path in K.missing:
                    raise FileNotFoundError(2, "injected", path)
            return real_stat(path, *a, **kw)

        def access(path, mode, *a, **kw):
            if isinstance(path, str):
                if path in K.objs:
                    return real_access(K.objs[path], mode, *a, **kw)
                if path in K.missing:
                    return False
            return real_access(path, mode, *a, **kw)

        def fake_open(name, *a, **kw):
            if name in K.open_err:
                e = K.open_err[name]
                raise {"ESRCH": ProcessLookupError, "EACCES": PermissionError}[e]({"ESRCH": 3, "EACCES": 13}[e], "injected", name)
            return builtins.open(name, *a, **kw)

        os.readlink, os.stat, os.access, os.lstat = readlink, stat, access, lstat
        self.psutil._common.open = fake_open

    def uninstall(self):
        os.readlink, os.stat, os.access, os.lstat = self.real
        try:
            del self.psutil._common.open
        except AttributeError:
            pass

    def rebase(self, b):
        return b.replace(PVBASE, self.realbase.encode())

    def unbase(self, x):
        """map the worker's real directory back to the placeholder in a canonical result"""
        if isinstance(x, dict):
            if "b" in x and len(x) == 1:
                return {"b": h(unh(x["b"]).replace(self.realbase.encode(), PVBASE))}
            return {k: self.unbase(v) for k, v in x.items()}
        if isinstance(x, list):
            return [self.unbase(v) for v in x]
        return x

    @staticmethod
    def _make(real, kind):
        if kind == "dir":
            os.makedirs(real, exist_ok=True)
            os.chmod(real, 0o755)
        else:
            os.makedirs(os.path.dirname(real), exist_ok=True)
            with open(real, "wb") as f:
                f.write(b"#!/bin/sh\n")
            os.chmod(real, 0o755 if kind == "regx" else 0o644)

    def apply(self, v, op, model_cmdline):
        import shutil
        from pv import fakeproc
        d = self.d
        self.links, self.open_err, self.answers, self.objs, self.missing = {}, {}, {}, {}, set()
        self.denied = set()
        if not v["pdir"]:
            shutil.rmtree(d, ignore_errors=True)
        else:
            os.makedirs(d, exist_ok=True)
            sp = os.path.join(d, "stat")
            if v["stat"] is None:
                if os.path.lexists(sp):
                    os.unlink(sp)
            elif v["stat"] == "DENIED":
                with open(sp, "wb") as f:
                    f.write(fakeproc.stat_line(PID, unh(v["comm"]), state=b"S"))
                self.denied.add(sp)
                self.open_err[sp] = "EACCES"
            else:
                with open(sp, "wb") as f:
                    f.write(fakeproc.stat_line(PID, unh(v["comm"]), state=v["stat"].encode()))
            for name in ("cmdline", "environ"):
                fr = v[name]
                p = os.path.join(d, name)
                if fr[0] == "data":
                    with open(p, "wb") as f:
                        f.write(self.rebase(unh(fr[1])))
                else:
                    if os.path.exists(p):
                        os.unlink(p)
                    if fr[0] != "ENOENT":
                        self.open_err[p] = fr[0]
        for name in ("exe", "cwd"):
            self.links[os.path.join(d, name)] = v[name]
        # the file system around cmdline()[0]
        shutil.rmtree(self.realbase, ignore_errors=True)
        shutil.rmtree(self.objdir, ignore_errors=True)
        os.makedirs(self.realbase)
        os.makedirs(self.objdir)
        listed = {}
        for q, kind in v["paths"]:
            listed.setdefault(unh(q), kind)          # first entry wins, as in the model
        for n, (q, kind) in enumerate(listed.items()):
            if q == b"/":
                assert kind == "dir", "the root directory is a directory"
            elif q.startswith(PVBASE + b"/"):
                self._make(os.fsdecode(self.rebase(q)).rstrip("/"), kind)
            else:
                real = os.path.join(self.objdir, "o%d" % n)
                self._make(real, kind)
                self.objs[os.fsdecode(q)] = real
        if op in ("exe", "cwd"):
            l = v[op]
            if l[0] == "target" and len(l) > 3 and l[3]:
                # the probe is answered by the real file system: prepare the state below the worker's directory
                d = os.path.join(self.realbase, "d")
                if l[3] == "notdir":
                    with open(d, "wb") as f:
                        f.write(b"a regular file where the directory was")
                elif l[3] == "loop":
                    os.symlink("d", d)
                elif l[3] in ("absent", "present"):
                    os.makedirs(d, exist_ok=True)
                    if l[3] == "present":
                        with open(os.path.join(d, "f (deleted)"), "wb") as f:
                            f.write(b"x")
            elif l[0] == "target":
                cut = os.fsdecode(unh(l[1]).split(b"\x00")[0])
                self.answers[cut] = l[2]
        if op == "exe" and isinstance(model_cmdline, dict) and model_cmdline.get("t") == "Val" and model_cmdline["a"][0]:
            a0 = unh(model_cmdline["a"][0][0]["b"])
            if a0 not in listed and not a0.startswith(PVBASE + b"/") and b"\x00" not in a0:
                self.missing.add(os.fsdecode(a0))    # everything not listed does not exist


def impl_setup(env):
    import sys
    if sys.getfilesystemencoding() != "utf-8" or sys.getfilesystemencodeerrors() != "surrogateescape":
        raise RuntimeError("worker needs utf-8/surrogateescape filesystem encoding")


def _b(x):
    """canonical form of a str result; anything else is kept visible as a wrong answer (never a harness crash)"""
    if isinstance(x, str):
        return B(x)
    return {"t": "NotAStr", "a": [repr(x)[:200]]}


def _call(p, op):
    if op == "name":
        return outcome(p.name, _b)
    if op == "exe":
        return outcome(p.exe, _b)
    if op == "cwd":
        return outcome(p.cwd, _b)
    if op == "cmdline":
        return outcome(p.cmdline, lambda l: [_b(x) for x in l] if isinstance(l, list) else _b(l))
    if op == "environ":
        return outcome(p.environ, lambda d: sorted(([_b(k), _b(v)] for k, v in d.items()),
                                                   key=lambda kv: (str(kv[0].get("b")), str(kv[1].get("b")))) if isinstance(d, dict) else _b(d))
    raise ValueError(op)


def _run_hist(case, coq, p, K):
    """cmdline(); edit the returned list in place; cmdline(), name(), exe() -- inside one oneshot() block when asked"""
    import contextlib
    v = _proc_view(case["r"], coq["printed"][0], coq["printed"][1])
    res = []
    K.install()
    try:
        K.apply(v, "exe", coq["aux"][0])
        with (p.oneshot() if case["oneshot"] else contextlib.nullcontext()):
            first = p.cmdline()
            res.append(K.unbase(outcome(lambda: first, lambda l: [_b(x) for x in l] if isinstance(l, list) else _b(l))))
            if case["mutate"] and isinstance(first, list):
                if first:
                    first[0] = "/EDITED/by-caller"
                    first.reverse()
                first.append("appended-by-caller")
            res.append(K.unbase(_call(p, "cmdline")))
            res.append(K.unbase(_call(p, "name")))
            res.append(K.unbase(_call(p, "exe")))
    finally:
        K.uninstall()
    return res


def _run_live(case, coq, psutil, K, env):
    """a real child on the running kernel: (1) the real /proc bytes must be the bytes Coq's kernel printers predicted
    (else LiveMismatch = harness error); (2) the real psutil over the real /proc is compared with model and spec"""
    import shutil
    from props import _c12_live as L
    child = L.build_child(env["work"])
    shutil.rmtree(K.realbase, ignore_errors=True)
    os.makedirs(K.realbase)
    unb = lambda b: b.replace(K.realbase.encode(), PVBASE) if isinstance(b, bytes) else b
    old_root = psutil.PROCFS_PATH
    proc = L.spawn(case, K.realbase, child, K.rebase)
    try:
        real = L.real_bytes(proc.pid)
        comm = _live_comm(case)
        if real["comm"] != comm:
            raise L.LiveMismatch("comm: kernel %r, predicted %r" % (real["comm"], comm))
        if case["zombie"]:
            if real["cmdline"] != b"" or real["exe"] != "errno 2" or real["cwd"] != "errno 2":
                raise L.LiveMismatch("zombie: kernel shows %r" % (real,))
        elif case["title"] is not None:
            if real["cmdline"] != _live_title_bytes(case):
                raise L.LiveMismatch("title: kernel cmdline %r, predicted %r" % (real["cmdline"], _live_title_bytes(case)))
        else:
            pred = [unh(x["b"]) for x in coq["printed"]]
            for name, want in zip(("cmdline", "environ", "exe", "cwd"), pred):
                if unb(real[name]) != want:
                    raise L.LiveMismatch("%s: kernel %r, Spec printer %r" % (name, unb(real[name])[:300], want[:300]))
        psutil.PROCFS_PATH = "/proc"
        psutil._pslinux.BOOT_TIME = None
        p = psutil.Process(proc.pid)
        if case["zombie"]:
            res = [_call(p, op) for op in ("name", "cmdline", "exe", "cwd")]
        elif case["title"] is not None:
            res = _call(p, "cmdline")
        else:
            res = [_call(p, op) for op in ("cmdline", "environ", "exe", "cwd", "name")]
        return K.unbase(res)
    finally:
        psutil.PROCFS_PATH = old_root
        psutil._pslinux.BOOT_TIME = None
        L.reap(proc)


def _dig_cmdline(p):
    return outcome(p.cmdline, lambda l: _dig_list([os.fsencode(x) for x in l]))


def _dig_environ(p):
    return outcome(p.environ, lambda d: _dig_list([os.fsencode(k_) + b"=" + os.fsencode(v_) for k_, v_ in d.items()]))


def _run_big(case, coq, psutil, p, K, env):
    """cmdline/environ files of 40-250 KiB: the bytes are regenerated here from the descriptor and must have the digest of the
    bytes Coq's printers produced; results are compared through digests (count, 63-bit hash, first, last element)"""
    argv, envl = _expand_args(case["groups"]), _expand_env(case["egroups"])
    cmd_bytes = b"".join(a + b"\x00" for a in argv)
    env_bytes = b"".join(e + b"\x00" for e in envl)
    if [_dig_bytes(cmd_bytes), _dig_bytes(env_bytes)] != coq["printed"]:
        raise RuntimeError("C12 big: the harness's expansion of the descriptor disagrees with Spec.expand_*/k_cmdline/k_environ")
    if case["live"]:
        from props import _c12_live as L
        import shutil
        child = L.build_child(env["work"])
        shutil.rmtree(K.realbase, ignore_errors=True)
        os.makedirs(K.realbase)
        lc = {"exe_path": h(PVBASE + b"/bin/prog"), "cwd_path": h(PVBASE + b"/wd"), "argv": [h(a) for a in argv], "env": [h(e) for e in envl],
              "exe_unlink": False, "cwd_rmdir": False}
        old_root = psutil.PROCFS_PATH
        proc = L.spawn(lc, K.realbase, child, K.rebase)
        try:
            real = L.real_bytes(proc.pid)
            if [_dig_bytes(real["cmdline"]), _dig_bytes(real["environ"])] != coq["printed"]:
                raise L.LiveMismatch("big: kernel cmdline/environ (%d / %d bytes) differ from the Spec printers (%r)" % (
                    len(real["cmdline"]), len(real["environ"]), coq["printed"]))
            psutil.PROCFS_PATH = "/proc"
            psutil._pslinux.BOOT_TIME = None
            q = psutil.Process(proc.pid)
            return [_dig_cmdline(q), _dig_environ(q)]
        finally:
            psutil.PROCFS_PATH = old_root
            psutil._pslinux.BOOT_TIME = None
            L.reap(proc)
    v = {"pdir": True, "stat": "S", "comm": case["comm"], "cmdline": ["data", h(cmd_bytes)], "environ": ["data", h(env_bytes)],
         "exe": ["ENOENT"], "cwd": ["ENOENT"], "paths": [[h(argv[0]), "regx"]]}
    K.install()
    try:
        K.apply(v, "exe", None)
        return [_dig_cmdline(p), _dig_environ(p), _call(p, "name"), _call(p, "exe")]
    finally:
        K.uninstall()


def _run_nhist(case, coq, psutil, p, K):
    """one Process object (optionally the instance process_iter() caches and reuses); before each call the kernel state is
    replaced (same pid, same start time): comm, cmdline, zombie or not"""
    base = {"pdir": True, "environ": ["data", ""], "exe": ["ENOENT"], "cwd": ["ENOENT"], "paths": []}
    res = []
    K.install()
    try:
        if case["via_iter"]:
            K.apply(dict(base, stat="S", comm=case["states"][0]["comm"], cmdline=["data", ""]), "name", None)
            found = [q for q in psutil.process_iter() if q.pid == PID]
            if len(found) == 1:
                p = found[0]
        for st, o, printed in zip(case["states"], case["ops"], coq["printed"]):
            K.apply(dict(base, stat="Z" if st["zombie"] else "S", comm=st["comm"], cmdline=["data", printed["b"]]), "name", None)
            if o == "name":
                res.append(_call(p, "name"))
            elif o == "repr":
                (str if len(res) % 2 else repr)(p)
                res.append({"t": "Unit", "a": []})
            elif o == "asdict" or not case["via_iter"]:
                res.append(outcome(lambda: p.as_dict(attrs=["name"])["name"], lambda x: None if x is None else _b(x)))
            else:   # the instance process_iter() hands out again, with .info filled by as_dict
                def it():
                    found = [q for q in psutil.process_iter(["name"]) if q.pid == PID]
                    return found[0].info["name"] if found else {"t": "NotListed", "a": []}
                res.append(outcome(it, lambda x: None if x is None else (x if isinstance(x, dict) else _b(x))))
    finally:
        K.uninstall()
    return res


def impl_run(case, coq, env):
    import psutil
    from pv import fakeproc
    if case["kind"] == "udec":
        return [ord(ch) for ch in psutil._common.decode(unh(case["data"]))]
    if case["kind"] == "live":
        return _run_live(case, coq, psutil, _Kernel(psutil, os.path.join(env["work"], "proc"), env["work"]), env)
    if case["kind"] == "uenc":
        try:
            return B("".join(chr(c) for c in case["cps"]).encode(psutil._common.ENCODING, psutil._common.ENCODING_ERRS))
        except UnicodeEncodeError:
            return None
    root = os.path.join(env["work"], "proc")
    fp = fakeproc.FakeProc(root)
    fakeproc.attach(psutil, root)
    fp.add(PID)
    p = psutil.Process(PID)
    K = _Kernel(psutil, root, env["work"])
    if case["kind"] == "hist":
        return _run_hist(case, coq, p, K)
    if case["kind"] == "nhist":
        return _run_nhist(case, coq, psutil, p, K)
    if case["kind"] == "big":
        return _run_big(case, coq, psutil, p, K, env)
    steps = _steps_of(case, coq)
    res = []
    K.install()
    try:
        for v, op, mc in steps:
            K.apply(v, op, mc)
            res.append(K.unbase(_call(p, op)))
    finally:
        K.uninstall()
    if case["kind"] in ("cmd", "env", "link", "name", "cmdbytes", "envbytes"):
        return res[0]
    return res


MANIFEST = {
    "text": "Theorems (Coq 8.16, closed under the global context) over a transcription of Process.cmdline/environ/exe/cwd/name "
            "(_pslinux.py, _common.parse_environ_block, front-end name()/exe()): for every NUL-free argument vector (any count, empty "
            "arguments, any bytes) cmdline() of the model returns that vector (a single argument is read as a space-separated title: own "
            "theorem), every overwritten title splits into its words for all three terminators, an empty file gives ZombieProcess for a "
            "zombie and [] otherwise; environ() returns, for every block of NAME=value / '='-less / empty-NAME entries with any tail, a "
            "dictionary with unique keys whose lookup is the last entry of each NAME; exe()/cwd() return the dentry path for every "
            "linked/unlinked target with or without NUL garbage, '' for a withheld link of a live process, exe() falls back to "
            "cmdline()[0] iff it is absolute AND a regular file AND executable (directories, plain files, dangling and relative paths "
            "refused; AccessDenied kept when the link read was denied and the fallback does not apply) and answers a second call from its cache whatever the kernel then says; name() is the kernel "
            "name extended from cmdline()[0] at 15 bytes, whatever bytes it contains. Total statements: for EVERY byte string cmdline() equals the documented "
            "separator rule and environ() never fails and returns the last-entry dictionary of the block read as NUL-terminated entries; "
            "one decision table for a link that is not given (live / zombie / stat absent / probe refused); the existence probe of a "
            "' (deleted)'-marked target is three-way and the answer is independent of which errno said 'not there' (never an exception); zombie and caller-edited-list "
            "histories; history independence of name() (for all histories of kernel states and calls on one object each answer depends on the "
            "state of that moment only); the fs-encoding round trip fsencode(decode(b)) = b that name() relies on. All of this is proved for the code as it is now, "
            "without exclusions. The two statements this check first refuted (CR/CRLF translated to LF by the text-mode read of "
            "cmdline/environ; 15-byte non-ASCII names not extended; both repaired in /repo, 46827e5 and 76627f6) are kept as refuted "
            "theorems about the old configuration and their inputs are replayed from the corpus on every run. "
            "The model is tied to the code by running both on generated and exhaustive inputs; in addition the bodies of Process.cmdline() "
            "(_pslinux.py: newline=\"\" read, empty-file zombie test, separator choice, trailing-separator strip, split, re-split of a lone piece "
            "with a space) and of psutil.Process.name() (__init__.py: the WINDOWS cache guard, the 15-byte fsencode test, try cmdline() except "
            "(AccessDenied, ZombieProcess) else basename(cmdline[0]) / fsencode startswith, the stores into _name) are translated statement by "
            "statement from the source of the tree under check into small statement languages (coq/Gen/C12_Tables.v, regenerated on every run, "
            "unknown shapes refuse to translate) and the interpreters run on the translated programs are proved equal to the model functions "
            "for all inputs (C12_gen_cmdline_*, C12_gen_name_*): a semantic edit of these methods breaks a proof.",
    "note": "Trusted: Coq kernel + vm_compute; hand-written model coq/C12/Model.v and text layer coq/C12/Lib.v (tied by the correspondence "
            "run only, except pl_cmdline and fe_name which are proved equal to the programs translated from the source; the translator "
            "props/_c12_gen.py and the interpreters coq/C12/PyGen.v are trusted for that); kernel formats in coq/C12/Spec.v; harness (fake /proc, os.readlink/os.stat/os.access/open patches); CPython builtins. "
            "Proof covers the model, sampling covers model-vs-code.",
}
