"""C04 helper: the abstract process table the history events act on (harness side).

Used twice: by the implementation runner (which mirrors it into a fake /proc tree) and by
the property oracle in the judge (which needs 'the listing when the iteration started',
'vanished meanwhile').  It is written from the event meanings (spawn only on a free id
inside pid_t, exit -> zombie, reap -> gone, threads are ids that are nobody's PID), not from
the Coq model.
"""
PIDMAX = 2 ** 31 - 1


class Table:
    def __init__(self):
        self.procs = {}   # pid -> {"start": int, "zombie": bool, "tids": [..]}

    def id_free(self, n):
        return n not in self.procs and all(n not in p["tids"] for p in self.procs.values())

    def listing(self):
        return sorted(self.procs)

    def tids(self):
        return sorted(t for p in self.procs.values() for t in p["tids"])

    def apply(self, ev):
        """Apply a kernel event; returns a list of (action, args) for the fake tree."""
        k = ev[0]
        if k == "Spawn":
            p, st = ev[1], ev[2]
            if 0 <= p <= PIDMAX and self.id_free(p):
                self.procs[p] = {"start": st, "zombie": False, "tids": []}
                return [("add", p, st)]
            return []
        if k == "Exit":
            p = ev[1]
            if p in self.procs:
                acts = [("rmtid", t) for t in self.procs[p]["tids"]]
                self.procs[p]["zombie"] = True
                self.procs[p]["tids"] = []
                return acts + [("zombie", p, self.procs[p]["start"])]
            return []
        if k == "Reap":
            p = ev[1]
            if p in self.procs:
                acts = [("rmtid", t) for t in self.procs[p]["tids"]]
                del self.procs[p]
                return acts + [("remove", p)]
            return []
        if k == "Thread":
            p, t = ev[1], ev[2]
            if 1 <= t <= PIDMAX and self.id_free(t):
                if p in self.procs and not self.procs[p]["zombie"]:
                    self.procs[p]["tids"].insert(0, t)
                    return [("addtid", t, p)]
            return []
        if k == "ThreadExit":
            t = ev[1]
            acts = []
            for p in self.procs.values():
                if t in p["tids"]:
                    p["tids"] = [x for x in p["tids"] if x != t]
                    acts.append(("rmtid", t))
            return acts
        raise ValueError(k)


KERNEL_EVENTS = ("Spawn", "Exit", "Reap", "Thread", "ThreadExit")
