"""C08 translator: psutil/_pslinux.py:virtual_memory() (everything after the meminfo parsing loop) and the svmem
field list -> coq/Gen/C08_Tables.v, in the statement language of coq/C08/PyGen.v.  FAIL-CLOSED: every statement or
expression shape that is not listed here raises TranslateError (pv/core.py treats that as a broken tie)."""
import ast
import os


class TranslateError(RuntimeError):
    pass


def _bad(node, what):
    raise TranslateError("virtual_memory: line %s: %s: %s" % (getattr(node, "lineno", "?"), what, ast.dump(node)[:160]))


def _bs(b, node):
    if not isinstance(b, bytes):
        b = b.encode("ascii")
    if not b or any(c < 0x20 or c > 0x7e or c in (0x22, 0x5c) for c in b):
        _bad(node, "key/name is not plain printable ASCII")
    return '(bs "%s")' % b.decode("ascii")


def _s(name):
    return '"%s"' % name


def _is_name(n, ident):
    return isinstance(n, ast.Name) and n.id == ident


def _int(n):
    return isinstance(n, ast.Constant) and type(n.value) is int


def expr(n):
    if _int(n):
        return "(EInt (%d))" % n.value
    if isinstance(n, ast.Name):
        if n.id in ("mems", "missing_fields"):
            _bad(n, "container used as a number")
        return "(EVar %s)" % _s(n.id)
    if isinstance(n, ast.Subscript) and _is_name(n.value, "mems"):
        k = n.slice
        if isinstance(k, ast.Constant) and isinstance(k.value, bytes):
            return "(EKey %s)" % _bs(k.value, n)
        _bad(n, "mems[...] with a key that is not a bytes literal")
    if isinstance(n, ast.BinOp) and isinstance(n.op, (ast.Add, ast.Sub)):
        return "(%s %s %s)" % ("EAdd" if isinstance(n.op, ast.Add) else "ESub", expr(n.left), expr(n.right))
    if isinstance(n, ast.Call) and not any(isinstance(a, ast.Starred) for a in n.args):
        f = n.func
        if (isinstance(f, ast.Attribute) and f.attr == "get" and _is_name(f.value, "mems") and not n.keywords
                and len(n.args) == 2 and isinstance(n.args[0], ast.Constant) and isinstance(n.args[0].value, bytes)
                and _int(n.args[1])):
            return "(EGet %s (%d))" % (_bs(n.args[0].value, n), n.args[1].value)
        if _is_name(f, "calculate_avail_vmem") and not n.keywords and len(n.args) == 1 and _is_name(n.args[0], "mems"):
            return "ECalcAvail"
        if (_is_name(f, "usage_percent") and len(n.args) == 2 and len(n.keywords) == 1
                and n.keywords[0].arg == "round_" and _int(n.keywords[0].value) and n.keywords[0].value.value == 1):
            return "(EPercent1 %s %s)" % (expr(n.args[0]), expr(n.args[1]))
    _bad(n, "unknown expression")


def block(stmts):
    out = "BNil"
    for s in reversed([stmt(x) for x in stmts]):
        out = "(BCons %s\n %s)" % (s, out)
    return out


def _target(n):
    if isinstance(n, ast.Name) and n.id not in ("mems", "missing_fields"):
        return n.id
    _bad(n, "assignment target")


def _is_warn_block(n):
    """if missing_fields: msg = "...".format(", ".join(missing_fields), ...); warnings.warn(msg, RuntimeWarning, stacklevel=2)"""
    if not (_is_name(n.test, "missing_fields") and not n.orelse and len(n.body) == 2):
        return False
    a, w = n.body
    if not (isinstance(a, ast.Assign) and len(a.targets) == 1 and _is_name(a.targets[0], "msg")):
        return False
    c = a.value
    if not (isinstance(c, ast.Call) and isinstance(c.func, ast.Attribute) and c.func.attr == "format"
            and isinstance(c.func.value, ast.Constant) and isinstance(c.func.value.value, str) and c.args):
        return False
    j = c.args[0]
    if not (isinstance(j, ast.Call) and isinstance(j.func, ast.Attribute) and j.func.attr == "join"
            and isinstance(j.func.value, ast.Constant) and j.func.value.value == ", "
            and len(j.args) == 1 and _is_name(j.args[0], "missing_fields")):
        return False
    if not (isinstance(w, ast.Expr) and isinstance(w.value, ast.Call)):
        return False
    f = w.value.func
    return (isinstance(f, ast.Attribute) and f.attr == "warn" and _is_name(f.value, "warnings")
            and len(w.value.args) >= 2 and _is_name(w.value.args[0], "msg") and _is_name(w.value.args[1], "RuntimeWarning"))


_CMP = {ast.Lt: "CLt", ast.Gt: "CGt", ast.Eq: "CEq"}


def stmt(n):
    if isinstance(n, ast.Assign) and len(n.targets) == 1:
        if _is_name(n.targets[0], "missing_fields"):
            if isinstance(n.value, ast.List) and not n.value.elts:
                return "SMissReset"
            _bad(n, "missing_fields assigned something else than []")
        return "(SAssign %s %s)" % (_s(_target(n.targets[0])), expr(n.value))
    if isinstance(n, ast.AugAssign) and isinstance(n.op, (ast.Add, ast.Sub)):
        x = _target(n.target)
        return "(SAssign %s (%s (EVar %s) %s))" % (_s(x), "EAdd" if isinstance(n.op, ast.Add) else "ESub", _s(x), expr(n.value))
    if isinstance(n, ast.Expr) and isinstance(n.value, ast.Call):
        c = n.value
        if (isinstance(c.func, ast.Attribute) and c.func.attr == "append" and _is_name(c.func.value, "missing_fields")
                and not c.keywords and len(c.args) == 1 and isinstance(c.args[0], ast.Constant) and isinstance(c.args[0].value, str)):
            return "(SMiss %s)" % _bs(c.args[0].value, n)
        _bad(n, "unknown call statement")
    if isinstance(n, ast.Try):
        if n.finalbody or len(n.handlers) != 1:
            _bad(n, "try with finally / several handlers")
        h = n.handlers[0]
        if not (_is_name(h.type, "KeyError") and h.name is None):
            _bad(n, "handler is not a plain 'except KeyError:'")
        return "(STry %s\n %s\n %s)" % (block(n.body), block(h.body), block(n.orelse))
    if isinstance(n, ast.If):
        if _is_warn_block(n):
            return "SWarn"
        t = n.test
        if not (isinstance(t, ast.Compare) and len(t.ops) == 1 and type(t.ops[0]) in _CMP):
            _bad(n, "unknown condition")
        return "(SIf %s %s %s\n %s\n %s)" % (_CMP[type(t.ops[0])], expr(t.left), expr(t.comparators[0]), block(n.body), block(n.orelse))
    if isinstance(n, ast.Return) and isinstance(n.value, ast.Call) and _is_name(n.value.func, "svmem") \
            and not n.value.keywords and not any(isinstance(a, ast.Starred) for a in n.value.args):
        return "(SReturn [%s])" % "; ".join(expr(a) for a in n.value.args)
    _bad(n, "unknown statement")


def translate_virtual_memory(tree):
    fns = [n for n in tree.body if isinstance(n, ast.FunctionDef) and n.name == "virtual_memory"]
    if len(fns) != 1:
        raise TranslateError("virtual_memory: %d module-level definitions" % len(fns))
    fn = fns[0]
    if fn.decorator_list or fn.args.args or fn.args.vararg or fn.args.kwarg or fn.args.kwonlyargs:
        _bad(fn, "decorated / takes arguments")
    body = list(fn.body)
    if body and isinstance(body[0], ast.Expr) and isinstance(body[0].value, ast.Constant) and isinstance(body[0].value.value, str):
        body = body[1:]
    # the untranslated head (the parser, hand-written as Model.parse_meminfo): mems = {} and the `with open_binary(...)` loop,
    # in any order with `missing_fields = []`; everything else, in source order, is translated
    kept, seen_mems, seen_with = [], False, False
    for n in body:
        if (isinstance(n, ast.Assign) and len(n.targets) == 1 and _is_name(n.targets[0], "mems")
                and isinstance(n.value, ast.Dict) and not n.value.keys and not seen_mems and not seen_with):
            seen_mems = True
            continue
        if isinstance(n, ast.With) and seen_mems and not seen_with:
            # nothing but the parsing loop may live in it: it must not touch any translated name
            names = {x.id for x in ast.walk(n) if isinstance(x, ast.Name)}
            if names & {"missing_fields", "total", "free", "avail", "used", "cached", "buffers"}:
                _bad(n, "the parsing block touches translated variables")
            seen_with = True
            continue
        if not seen_with and not (isinstance(n, ast.Assign) and _is_name(n.targets[0], "missing_fields")):
            _bad(n, "statement before the parsing loop")
        kept.append(n)
    if not seen_with:
        raise TranslateError("virtual_memory: no `mems = {}` + `with` parsing block found")
    return block(kept)


def translate_svmem(tree):
    for n in tree.body:
        if isinstance(n, ast.Assign) and len(n.targets) == 1 and _is_name(n.targets[0], "svmem"):
            c = n.value
            if (isinstance(c, ast.Call) and _is_name(c.func, "namedtuple") and len(c.args) == 2 and not c.keywords
                    and isinstance(c.args[1], ast.List)
                    and all(isinstance(e, ast.Constant) and isinstance(e.value, str) for e in c.args[1].elts)):
                return [_bs(e.value, n) for e in c.args[1].elts]
            _bad(n, "svmem is not namedtuple('svmem', [<string literals>])")
    raise TranslateError("svmem: no module-level definition")


def gen_tables(impl_dir, out_dir):
    src = open(os.path.join(impl_dir, "psutil", "_pslinux.py")).read()
    tree = ast.parse(src)
    prog = translate_virtual_memory(tree)
    fields = translate_svmem(tree)
    txt = "\n".join([
        "(* GENERATED by props/_c08_gen.py (gen_tables) from psutil/_pslinux.py of the tree under check -- do not edit. *)",
        "From PV Require Import C08.PyGen.", "Require Import String.", "",
        "Definition gen_vm_prog : block :=\n %s." % prog, "",
        "Definition gen_svmem_fields : list bytes :=\n  [%s]." % "; ".join(fields), ""])
    path = os.path.join(out_dir, "C08_Tables.v")
    os.makedirs(out_dir, exist_ok=True)
    if not os.path.exists(path) or open(path).read() != txt:
        with open(path, "w") as f:
            f.write(txt)
