"""C13 live-kernel helper: a small child process with chosen mappings, snapshots of its real
/proc/<pid>/{smaps,smaps_rollup,statm}, and the parser of that text into the record structure
of coq/C13/Spec.v (mapping / rollup / statm)."""
import os
import re
import shutil
import subprocess
import tempfile
import time

CHILD_C = r'''
#define _GNU_SOURCE
#include <sys/mman.h>
#include <fcntl.h>
#include <unistd.h>
#include <stdio.h>
#include <string.h>
#include <stdlib.h>
static int mkfile(const char *name, long len) {
    int fd = open(name, O_RDWR | O_CREAT | O_TRUNC, 0600);
    if (fd < 0 || ftruncate(fd, len) != 0) { perror(name); exit(3); }
    return fd;
}
static volatile char sink;
int main(int argc, char **argv) {
    long ps = sysconf(_SC_PAGESIZE);
    if (argc < 2 || chdir(argv[1]) != 0) return 2;
    char *a = mmap(0, 8 * ps, PROT_READ | PROT_WRITE, MAP_PRIVATE | MAP_ANONYMOUS, -1, 0);
    memset(a, 1, 5 * ps);                                   /* anonymous private, 5 pages dirty */
    char *b = mmap(0, 4 * ps, PROT_READ | PROT_WRITE, MAP_SHARED | MAP_ANONYMOUS, -1, 0);
    memset(b, 2, 2 * ps);                                   /* anonymous shared */
    int fd = mkfile("a b:c d.bin", 3 * ps);                 /* blanks and colons in the name */
    char *c = mmap(0, 3 * ps, PROT_READ, MAP_PRIVATE, fd, 0); sink = c[0]; sink = c[ps];
    fd = mkfile("gone.bin", 2 * ps);                        /* mapped, then unlinked */
    char *d = mmap(0, 2 * ps, PROT_READ | PROT_WRITE, MAP_PRIVATE, fd, 0); d[0] = 3; unlink("gone.bin");
    fd = mkfile("lit (deleted)", ps);                       /* a live file whose name ends in the marker */
    char *e = mmap(0, ps, PROT_READ, MAP_PRIVATE, fd, 0); sink = e[0];
    fd = memfd_create("my memfd", 0);                       /* memfd: "/memfd:my memfd (deleted)" */
    if (fd < 0 || ftruncate(fd, 2 * ps) != 0) return 4;
    char *f = mmap(0, 2 * ps, PROT_READ | PROT_WRITE, MAP_SHARED, fd, 0); f[0] = 4;
    fd = mkfile("shared.dat", 2 * ps);                      /* shared file mapping, one page dirtied */
    char *g = mmap(0, 2 * ps, PROT_READ | PROT_WRITE, MAP_SHARED, fd, 0); g[ps] = 5;
    fd = mkfile("n\nl.bin", ps);                            /* a newline in the name */
    char *h = mmap(0, ps, PROT_READ, MAP_PRIVATE, fd, 0); sink = h[0];
    fd = mkfile("trail ", ps);                              /* a blank at the end of the name */
    char *i = mmap(0, ps, PROT_READ | PROT_EXEC, MAP_PRIVATE, fd, 0); sink = i[0];
    fd = mkfile("cr\rx", ps);                               /* a carriage return in the name */
    char *j = mmap(0, ps, PROT_READ, MAP_PRIVATE, fd, 0); sink = j[0];
    if (a == MAP_FAILED || b == MAP_FAILED || c == MAP_FAILED || d == MAP_FAILED || e == MAP_FAILED || f == MAP_FAILED
        || g == MAP_FAILED || h == MAP_FAILED || i == MAP_FAILED || j == MAP_FAILED) return 5;
    puts("ready"); fflush(stdout);
    pause();
    return 0;
}
'''
# what is known about the chosen mappings: (own name relative to the directory, permissions, size in pages, unlinked?)
CHOSEN = [(b"a b:c d.bin", "r--p", 3, False), (b"gone.bin", "rw-p", 2, True), (b"lit (deleted)", "r--p", 1, False),
          (b"shared.dat", "rw-s", 2, False), (b"n\nl.bin", "r--p", 1, False), (b"trail ", "r-xp", 1, False), (b"cr\rx", "r--p", 1, False)]
MEMFD = (b"/memfd:my memfd", "rw-s", 2)

FIG_NAMES = ["Rss", "Size", "Pss", "Shared_Clean", "Shared_Dirty", "Private_Clean", "Private_Dirty", "Referenced", "Anonymous", "Swap",
             "Private_Hugetlb"]
HDR = re.compile(rb"^([0-9a-f]+-[0-9a-f]+) ([r-][w-][x-][ps]) ([0-9a-f]{8,}) ([0-9a-f]{2,}:[0-9a-f]{2,}) ([0-9]+) ( *)(.*)$", re.S)
LINE = re.compile(rb"^([A-Za-z_]+):( +)([0-9]+)( kB)?$")


class Child:
    """the helper compiled and running; .pid, .dir; close() kills it and removes its directory"""

    def __init__(self, base=None):
        self.dir = tempfile.mkdtemp(prefix="pvc13live.", dir=base or "/var/tmp")
        src = os.path.join(self.dir, "child.c")
        with open(src, "w") as f:
            f.write(CHILD_C)
        exe = os.path.join(self.dir, "child")
        r = subprocess.run(["gcc", "-O0", "-o", exe, src], stdout=subprocess.PIPE, stderr=subprocess.STDOUT, text=True)
        if r.returncode != 0:
            raise RuntimeError("C13 live: cannot build the helper:\n" + r.stdout[-1500:])
        self.files = os.path.join(self.dir, "maps dir")          # a blank in the directory name too
        os.makedirs(self.files)
        self.proc = subprocess.Popen([exe, self.files], stdout=subprocess.PIPE)
        if self.proc.stdout.readline().strip() != b"ready":
            self.close()
            raise RuntimeError("C13 live: the helper did not start")
        self.pid = self.proc.pid

    def read(self, name):
        with open("/proc/%d/%s" % (self.pid, name), "rb") as f:
            return f.read()

    def snapshot(self, tries=20):
        """(smaps, smaps_rollup, statm) read close together: repeated until two consecutive rounds agree"""
        prev = None
        for _ in range(tries):
            cur = (self.read("smaps"), self.read("smaps_rollup"), self.read("statm"))
            if cur == prev:
                return cur
            prev = cur
            time.sleep(0.02)
        raise RuntimeError("C13 live: /proc/%d/smaps* of the paused helper never read the same twice" % self.pid)

    def close(self):
        try:
            self.proc.kill()
            self.proc.wait(timeout=5)
        except Exception:
            pass
        shutil.rmtree(self.dir, ignore_errors=True)


def parse_lines(lines, what):
    out = []
    for ln in lines:
        if ln.startswith(b"VmFlags: "):
            if not ln.endswith(b" "):
                raise RuntimeError("C13 live: %s: VmFlags line without the trailing blank: %r" % (what, ln))
            flags = ln[len(b"VmFlags: "):-1].split(b" ")
            out.append(["V", [f.decode() for f in flags]])
            continue
        m = LINE.match(ln)
        if not m:
            raise RuntimeError("C13 live: %s: a line outside the grammar of Spec.k_line: %r" % (what, ln))
        name, pad, val, kb = m.group(1).decode(), len(m.group(2)) - 1, m.group(3).decode(), m.group(4) is not None
        if name in FIG_NAMES:
            if not kb:
                raise RuntimeError("C13 live: %s: figure line without kB: %r" % (what, ln))
            out.append(["F", name, pad, val])
        else:
            out.append(["O", name, pad, val, kb])
    return out


def parse_smaps(text, newline_names=(), exists=os.path.exists):
    """-> list of mapping dicts (the case format of props/C13.py).  [newline_names]: shown names known to stand for a
    name with real newlines (the kernel's \\012 is not injective); unlinked = the marked name does not exist."""
    if not text:
        return []
    if not text.endswith(b"\n"):
        raise RuntimeError("C13 live: smaps does not end with a newline")
    ms, cur = [], None
    for ln in text[:-1].split(b"\n"):
        h = HDR.match(ln)
        if h and not LINE.match(ln) and not ln.startswith(b"VmFlags:"):
            addr, perms, off, dev, ino, pad, name = h.groups()
            if name == b"":
                if pad != b"":
                    raise RuntimeError("C13 live: header without a name but with padding: %r" % ln)
                pad_n = 0      # the single blank after the inode is the header's trailing blank
            else:
                pad_n = len(pad)
            deleted = False
            shown = name
            if name.endswith(b" (deleted)") and not exists(os.fsdecode(name)):
                deleted, name = True, name[:-10]
            if shown in newline_names or name in newline_names:
                name = name.replace(b"\\012", b"\n")
            cur = {"addr": addr.decode(), "perms": perms.decode(), "offset": off.decode(), "dev": dev.decode(), "inode": ino.decode(),
                   "pad": pad_n, "path": name.hex(), "deleted": deleted, "lines": [], "_raw": []}
            ms.append(cur)
        else:
            if cur is None:
                raise RuntimeError("C13 live: smaps does not start with a header line: %r" % ln)
            cur["_raw"].append(ln)
    for m in ms:
        m["lines"] = parse_lines(m.pop("_raw"), "smaps")
    return ms


def parse_rollup(text):
    if not text.endswith(b"\n"):
        raise RuntimeError("C13 live: smaps_rollup does not end with a newline")
    lines = text[:-1].split(b"\n")
    return {"hdr": lines[0].hex(), "lines": parse_lines(lines[1:], "smaps_rollup")}


def parse_statm(text):
    m = re.fullmatch(rb"(\d+) (\d+) (\d+) (\d+) (\d+) (\d+) (\d+)\n", text)
    if not m:
        raise RuntimeError("C13 live: statm is not seven numbers and a newline: %r" % text)
    return [g.decode() for g in m.groups()]


def fig(m, name):
    for l in m["lines"]:
        if l[0] == "F" and l[1] == name:
            return int(l[3])
    return 0


def check_rollup_sums(ms, rl):
    """the kernel's own consistency: Private_* and Swap add up exactly, Pss within the rounding bound"""
    tot = lambda n: sum(fig(m, n) for m in ms)
    ru = lambda n: fig(rl, n)
    n = len(ms)
    bad = []
    for name in ("Private_Clean", "Private_Dirty", "Private_Hugetlb", "Swap", "Rss", "Shared_Clean", "Shared_Dirty", "Referenced", "Anonymous"):
        if ru(name) != tot(name):
            bad.append("%s: roll-up %d, sum of the mappings %d" % (name, ru(name), tot(name)))
    if not (tot("Pss") <= ru("Pss") <= tot("Pss") + max(0, n - 1)):
        bad.append("Pss: roll-up %d, sum of the mappings %d, %d mappings" % (ru("Pss"), tot("Pss"), n))
    return bad
