"""C14 -- open_files(), num_fds(), io_counters() reflect the descriptor table exactly."""
import errno
import os

from pv import gallina as G
from pv.canon import B, Exc, Val, outcome, unB

ID = "C14"
COQ_REQUIRE = "C14.Run"
RULE = ("descriptor tables drawn from a grammar over target kinds (regular/deleted/relative/socket/pipe/anon/device/dir/"
        "NUL-garbage), offsets {0,1,2^31,2^63-1,2^64-1}, flag words (all 512 combinations of access mode x O_APPEND and 6 other "
        "bits in the exhaustive part), closes at readlink or at fdinfo, dead/alive process; /proc/<pid>/io contents from "
        "printed items (numeric, blank, colon-free, non-numeric lines, duplicates) plus a malformed byte stream. A case is "
        "non-trivial when the table or file is non-empty; distinct = distinct canonical case hash.")
TRUSTED = ["correspondence harness props/C14.py + pv/ (fake /proc tree, os.readlink fault injection)",
           "translator props/C14.py:gen_tables (Python ast of file_flags_to_mode -> coq/C14/PyMini.v program; io_counters constants) and "
           "the interpreter run_prog as the meaning of those statements; os.O_* values of the Linux ABI",
           "kernel formats of /proc/<pid>/fd, fdinfo, io transcribed from proc(5) in coq/C14/Spec.v"]
ASSUMPTIONS = ["CPython semantics of bytes.split/strip/int and os.listdir order are modelled, not verified",
               "fdinfo and io contents with more than 4300 digits per number are out of the model"]
EXHAUSTIVE = {"quick": "all 512 flag words over {accmode 0-3} x {O_APPEND,O_CREAT,O_TRUNC,O_CLOEXEC,O_NONBLOCK,O_DIRECT,O_EXCL}",
              "thorough": "all 512 flag words over {accmode 0-3} x 7 flag bits"}
STRICT_IO = False  # model parameter: True = code before the io_counters repair

FLAG_BITS = [0o2000, 0o100, 0o1000, 0o2000000, 0o4000, 0o40000, 0o200]
POS = [0, 1, 2 ** 31, 2 ** 63 - 1, 2 ** 64 - 1, 12345]
# open(2) flags used by the live cases: O_APPEND O_CREAT O_TRUNC O_NONBLOCK O_NOATIME O_DSYNC O_SYNC O_NOFOLLOW O_CLOEXEC
LIVE_BITS = [0o2000, 0o100, 0o1000, 0o4000, 0o1000000, 0o10000, 0o4010000, 0o400000, 0o2000000]
TARGET_KINDS = ["reg", "reg", "reg", "reg_deleted_gone", "reg_deleted_present", "reg_space", "relative", "socket",
                "pipe", "anon", "device", "dir", "nul_garbage", "missing", "under_file", "under_file_deleted", "toolong",
                "reg_dev_shm", "reg_dev_shm", "reg_dev_mqueue", "reg_dev_hugepages", "reg_run", "reg_sys", "reg_proc"]


def _entry(rng, fd, allow3=True):
    kind = rng.choice(TARGET_KINDS)
    acc = rng.choice([0, 1, 2, 0, 1, 2, 3] if allow3 else [0, 1, 2])
    flags = acc
    for b in FLAG_BITS:
        if rng.random() < 0.3:
            flags |= b
    closing = rng.choice(["open"] * 8 + ["readlink", "fdinfo", "fdinfo_read"])
    return {"fd": fd, "kind": kind, "pos": rng.choice(POS), "flags": flags, "closing": closing,
            "extra": rng.choice(["", "mnt_id:\t25\nino:\t1234\n", "mnt_id:\t1\n",
                                 # a descriptor holding file locks: the kernel appends one many-token line per lock
                                 "mnt_id:\t25\nino:\t1234\nlock:\t1: FLOCK  ADVISORY  WRITE 4242 fe:00:1234 0 EOF\n",
                                 "mnt_id:\t25\nino:\t77\nlock:\t1: POSIX  ADVISORY  READ 4242 fe:00:77 0 99\n"
                                 "lock:\t2: OFDLCK ADVISORY  WRITE -1 fe:00:77 100 EOF\n",
                                 "mnt_id:\t3\nino:\t9\nlock:\t1: LEASE  ACTIVE    READ  4242 00:2d:9 0 EOF\n"])}


def gen_cases(rng, tier):
    n_tab = {"quick": 250, "thorough": 6000, "search": 600}[tier]
    n_io = {"quick": 250, "thorough": 6000, "search": 600}[tier]
    cases = []
    # exhaustive flag words (one regular file each) + pure mode function
    for acc in range(4):
        for m in range(128):
            flags = acc
            for i, b in enumerate(FLAG_BITS):
                if m >> i & 1:
                    flags |= b
            cases.append({"kind": "mode", "cls": "mode", "flags": flags})
            if tier != "search":
                cases.append({"kind": "table", "cls": "table-flags", "alive": True,
                              "ents": [{"fd": 3, "kind": "reg", "pos": 7, "flags": flags, "closing": "open", "extra": ""}]})
    for _ in range(n_tab):
        n = rng.choice([0, 1, 1, 2, 3, 5, 8, 13, 40]) if rng.random() < 0.9 else rng.randint(0, 40)
        fds = rng.sample(range(0, 200), n)
        ents = [_entry(rng, fd) for fd in fds]
        alive = rng.random() < 0.85
        cls = "table"
        if any(e["closing"] != "open" for e in ents):
            cls = "table-closing" + ("" if alive else "-dead")
        case = {"kind": "table", "cls": cls if n else "trivial", "alive": alive, "ents": ents}
        if rng.random() < 0.15:
            case["selfpid"] = True
            case["cls"] = case["cls"] + "-selfpid" if n else "table-empty-selfpid"
        if n and rng.random() < 0.25:
            # psutil.PROCFS_PATH re-assigned after the Process object was created: the other mount shows the
            # same PID with the same descriptors but other offsets/flags (and all of them still open)
            case["moved"] = {"pos": rng.choice([0, 999, 2 ** 40]), "flags": rng.choice([0o100002, 0o2001, 0o100000, 0o1])}
            case["cls"] = case["cls"] + "-moved"
        cases.append(case)
    # live: real descriptors of the worker process over the real /proc (validates the kernel printers of Spec.v)
    for _ in range({"quick": 40, "thorough": 600, "search": 60}[tier]):
        n = rng.choice([1, 2, 3, 5, 8])
        ents = []
        for i in range(n):
            kind = rng.choice(["reg", "reg", "reg", "reg_deleted_gone", "reg_deleted_present", "dir", "dev", "pipe", "socket", "reg_shm"])
            acc = rng.choice([0, 1, 2])
            req = acc
            for b in LIVE_BITS:
                if rng.random() < 0.3:
                    req |= b
            if kind == "dir":
                req = 0o200000 if rng.random() < 0.5 else 0      # O_DIRECTORY or plain O_RDONLY
            if kind == "dev":
                req &= ~0o1000                                      # no O_TRUNC on a device node
            ents.append({"fd": 300 + i, "kind": kind, "req": req, "pos": rng.choice([0, 1, 4096, 2 ** 31, 2 ** 40, 12345]),
                         "lock": rng.choice([None, None, "flock", "posix"])})
        cases.append({"kind": "live", "cls": "live", "ents": ents})
    # raw / malformed fdinfo
    for _ in range(n_tab // 3):
        content = rng.choice([b"", b"pos:\n", b"pos:\t5\n", b"pos:\t5\nflags:\n", b"pos:\tx\nflags:\t02\n",
                              b"pos:\t5\nflags:\t09\n", b"pos:\t 5 \nflags:\t0o2\n", b"pos:\t5\nflags:\t-1\n",
                              b"pos:\t+5\nflags:\t0_2\n", b"pos:\t5 6\nflags:\t02 7\nx\n", b"\n\n", b"pos:\t5"])
        cases.append({"kind": "rawinfo", "cls": "rawinfo", "content": content.hex(), "fd": rng.choice([0, 3, 77])})
    names = [b"rchar", b"wchar", b"syscr", b"syscw", b"read_bytes", b"write_bytes", b"cancelled_write_bytes"]
    vals = [0, 1, 99, 2 ** 31, 2 ** 63, 2 ** 64 - 1, 10 ** 25]
    for _ in range(n_io):
        items = []
        base = list(names)
        if rng.random() < 0.2:
            rng.shuffle(base)
        if rng.random() < 0.15:
            base = rng.sample(base, rng.randint(0, 6))
        for nm in base:
            items.append(["KV", nm.decode(), str(rng.choice(vals))])
        for _ in range(rng.choice([0, 0, 1, 2, 4])):
            k = rng.random()
            if k < 0.2:
                it = ["Junk", rng.choice(["", " ", "garbage", "\t", "no colon here", "a b c"])]
            elif k < 0.5:
                # right-hand sides int() rejects, some of them embedding a well-formed looking fragment
                it = ["BadKV", rng.choice(["foo", "rchar", "x_y", "syscw", "wchar"]),
                      rng.choice(["bar", "nan", "x", "999 (partial)", "7x", "0x10", "1 2", "5;", "--3", "1__0", "(1)"])]
            elif k < 0.65:
                it = ["Bad3", rng.choice(["wchar", "rchar", "foo"]), rng.choice(["5", "", "x", "12 "]), rng.choice(["6", "y", "7 8"])]
            elif k < 0.8:
                # a longer name that merely ends with a known one is another name
                it = ["KV", rng.choice(["old read_bytes", "x rchar", "tes syscr", "my wchar"]), str(rng.choice(vals))]
            else:
                it = ["KV", rng.choice(names).decode(), str(rng.choice(vals))]
            items.insert(rng.randint(0, len(items)), it)
        cls = ("io" + ("-junk" if any(i[0] == "Junk" for i in items) else "") + ("-badkv" if any(i[0] == "BadKV" for i in items) else "")
               + ("-bad3" if any(i[0] == "Bad3" for i in items) else "") + ("-longname" if any(i[0] == "KV" and " " in i[1] for i in items) else ""))
        case = {"kind": "io", "cls": cls if items else "trivial", "items": items}
        if items and rng.random() < 0.2:
            case["moved"] = True
            case["cls"] = cls + "-moved"
        if items and rng.random() < 0.1:
            case["selfpid"] = True
            case["cls"] = case["cls"] + "-selfpid"
        cases.append(case)
    for _ in range(n_io // 3):
        content = rng.choice([b"", b"\n", b"rchar: 1\nwchar 2\n", b"rchar: 1: 2\n", b"rchar:  5\n", b"rchar: 5 \n  wchar: 6\n",
                              b"rchar: -5\nwchar: +6\nsyscr: 1_0\nsyscw: 4\nread_bytes: 5\nwrite_bytes: 6\n",
                              b"rchar: 1\nwchar: 2\nsyscr: 3\nsyscw: 4\nread_bytes: 5\nwrite_bytes: 6",
                              b": 5\nrchar: 1\nwchar: 2\nsyscr: 3\nsyscw: 4\nread_bytes: 5\nwrite_bytes: 6\n",
                              b"rchar: 0x10\n", b"rchar: 1\r\nwchar: 2\r\n", b"a: b: c\n", b"rchar:5\n",
                              b"tes: 77 syscr: 1\nrchar: 1\nwchar: 2\nsyscr: 3\nsyscw: 4\nread_bytes: 5\nwrite_bytes: 6\n",
                              b"rchar: 1\nwchar: 2\nsyscr: 3\nsyscw: 4\nread_bytes: 5\nwrite_bytes: 6\nrchar: 999 (partial)\nsyscw: 7x\n"])
        cases.append({"kind": "rawio", "cls": "rawio", "content": content.hex()})
    return cases


# ------------------------------------------------------------------ translator (source -> coq/Gen/C14_Tables.v)
class TranslateError(RuntimeError):
    pass


def _cexpr(node, flagless=True):
    """constant int expression: literal, os.O_*, a | b"""
    import ast
    if isinstance(node, ast.Constant) and type(node.value) is int and node.value >= 0:
        return "(CConst %d)" % node.value
    if (isinstance(node, ast.Attribute) and isinstance(node.value, ast.Name) and node.value.id == "os"
            and node.attr.startswith("O_") and isinstance(getattr(os, node.attr, None), int)):
        return "(CConst %d)" % getattr(os, node.attr)
    if isinstance(node, ast.BinOp) and isinstance(node.op, ast.BitOr):
        return "(COr %s %s)" % (_cexpr(node.left), _cexpr(node.right))
    raise TranslateError("constant expression not understood: " + ast.dump(node))


def _flags_and(node):
    """flags & <cexpr>  ->  the cexpr"""
    import ast
    if (isinstance(node, ast.BinOp) and isinstance(node.op, ast.BitAnd) and isinstance(node.left, ast.Name)
            and node.left.id == "flags"):
        return _cexpr(node.right)
    raise TranslateError("expected 'flags & <constant>': " + ast.dump(node))


def _str_const(node):
    import ast
    if isinstance(node, ast.Constant) and isinstance(node.value, str) and node.value.isascii():
        return G.by(node.value)
    raise TranslateError("expected an ASCII str literal: " + ast.dump(node))


def _replace_call(node):
    """mode.replace(old, new[, count])  ->  (old, new, cnt)"""
    import ast
    if not (isinstance(node, ast.Call) and isinstance(node.func, ast.Attribute) and node.func.attr == "replace"
            and isinstance(node.func.value, ast.Name) and node.func.value.id == "mode" and not node.keywords
            and len(node.args) in (2, 3)):
        raise TranslateError("expected mode.replace(old, new[, count]): " + ast.dump(node))
    cnt = "None"
    if len(node.args) == 3:
        c = node.args[2]
        if not (isinstance(c, ast.Constant) and type(c.value) is int and 0 <= c.value < 100):
            raise TranslateError("replace() count not a small literal")
        cnt = "(Some %d%%nat)" % c.value
    return _str_const(node.args[0]), _str_const(node.args[1]), cnt


def _assign_to(node, name):
    import ast
    return (isinstance(node, ast.Assign) and len(node.targets) == 1 and isinstance(node.targets[0], ast.Name)
            and node.targets[0].id == name)


def translate_file_flags_to_mode(fn):
    """ast.FunctionDef of file_flags_to_mode -> Gallina [prog] literal; raises TranslateError on any unknown shape."""
    import ast
    if [a.arg for a in fn.args.args] != ["flags"] or fn.decorator_list or fn.args.vararg or fn.args.kwarg or fn.args.kwonlyargs:
        raise TranslateError("file_flags_to_mode: unexpected signature")
    body = list(fn.body)
    if body and isinstance(body[0], ast.Expr) and isinstance(body[0].value, ast.Constant) and isinstance(body[0].value.value, str):
        body = body[1:]
    if not (body and isinstance(body[-1], ast.Return) and isinstance(body[-1].value, ast.Name) and body[-1].value.id == "mode"):
        raise TranslateError("file_flags_to_mode: does not end in 'return mode'")
    tables = {}
    stmts = []
    for st in body[:-1]:
        if (isinstance(st, ast.Assign) and len(st.targets) == 1 and isinstance(st.targets[0], ast.Name)
                and isinstance(st.value, ast.Dict) and st.targets[0].id not in ("mode", "flags")):
            tables[st.targets[0].id] = "[%s]" % "; ".join("(%s, %s)" % (_cexpr(k), _str_const(v))
                                                          for k, v in zip(st.value.keys, st.value.values))
        elif (_assign_to(st, "mode") and isinstance(st.value, ast.Subscript) and isinstance(st.value.value, ast.Name)
              and st.value.value.id in tables):
            stmts.append("SLookup %s %s" % (tables[st.value.value.id], _flags_and(st.value.slice)))
        elif _assign_to(st, "mode"):
            stmts.append("SReplace None %s %s %s" % _replace_call(st.value))
        elif isinstance(st, ast.If) and not st.orelse and len(st.body) == 1 and _assign_to(st.body[0], "mode"):
            stmts.append("SReplace (Some %s) %s %s %s" % ((_flags_and(st.test),) + _replace_call(st.body[0].value)))
        else:
            raise TranslateError("file_flags_to_mode: statement not understood: " + ast.dump(st)[:300])
    return "[%s]" % ";\n   ".join(stmts)


def translate_io_counters(tree):
    """keys of the pio(...) call (in argument order), the split separator and pio's field names"""
    import ast
    fn = None
    for node in ast.walk(tree):
        if isinstance(node, ast.ClassDef) and node.name == "Process":
            for sub in ast.walk(node):
                if isinstance(sub, ast.FunctionDef) and sub.name == "io_counters":
                    fn = sub
    if fn is None:
        raise TranslateError("Process.io_counters not found")
    keys = seps = None
    for node in ast.walk(fn):
        if isinstance(node, ast.Call) and isinstance(node.func, ast.Name) and node.func.id == "pio":
            if keys is not None or node.keywords:
                raise TranslateError("io_counters: more than one pio(...) call / keyword arguments")
            keys = []
            for a in node.args:
                if not (isinstance(a, ast.Subscript) and isinstance(a.value, ast.Name) and a.value.id == "fields"
                        and isinstance(a.slice, ast.Constant) and isinstance(a.slice.value, bytes)):
                    raise TranslateError("io_counters: pio argument is not fields[b'...']: " + ast.dump(a))
                keys.append(a.slice.value)
        if (isinstance(node, ast.Call) and isinstance(node.func, ast.Attribute) and node.func.attr == "split"
                and isinstance(node.func.value, ast.Name) and node.func.value.id == "line"):
            if seps is not None or len(node.args) != 1 or node.keywords or not (
                    isinstance(node.args[0], ast.Constant) and isinstance(node.args[0].value, bytes)):
                raise TranslateError("io_counters: line.split(...) not of the form line.split(b'..')")
            seps = node.args[0].value
    if keys is None or seps is None:
        raise TranslateError("io_counters: pio(...) call or line.split(...) not found")
    fields = None
    for node in tree.body:
        if (_assign_to(node, "pio") and isinstance(node.value, ast.Call) and isinstance(node.value.func, ast.Name)
                and node.value.func.id == "namedtuple" and len(node.value.args) == 2):
            f = node.value.args[1]
            if isinstance(f, ast.List) and all(isinstance(e, ast.Constant) and isinstance(e.value, str) for e in f.elts):
                fields = [e.value for e in f.elts]
            elif isinstance(f, ast.Constant) and isinstance(f.value, str):
                fields = f.value.replace(",", " ").split()
    if fields is None:
        raise TranslateError("pio = namedtuple('pio', [...]) not found")
    return keys, seps, fields


def _is_name(node, ident):
    import ast
    return isinstance(node, ast.Name) and node.id == ident


def _int_of_value(node):
    import ast
    return (isinstance(node, ast.Call) and _is_name(node.func, "int") and len(node.args) == 1 and not node.keywords
            and _is_name(node.args[0], "value"))


def _lstmts(stmts):
    """statements of the `for line in f:` body of io_counters -> Gallina list of coq/C14/PyLoop.v lstmt"""
    import ast
    out = []
    for st in stmts:
        if (_assign_to(st, "line") and isinstance(st.value, ast.Call) and isinstance(st.value.func, ast.Attribute)
                and st.value.func.attr == "strip" and _is_name(st.value.func.value, "line") and not st.value.args
                and not st.value.keywords):
            out.append("LStrip")
        elif isinstance(st, ast.If) and _is_name(st.test, "line") and not st.orelse:
            out.append("LIfLine %s" % _lstmts(st.body))
        elif (isinstance(st, ast.Try) and not st.finalbody and len(st.handlers) == 1
              and _is_name(st.handlers[0].type, "ValueError") and st.handlers[0].name is None
              and len(st.handlers[0].body) == 1 and isinstance(st.handlers[0].body[0], ast.Continue)):
            out.append("LTry %s %s" % (_lstmts(st.body), _lstmts(st.orelse)))
        elif (isinstance(st, ast.Assign) and len(st.targets) == 1 and isinstance(st.targets[0], ast.Tuple)
              and [getattr(e, "id", None) for e in st.targets[0].elts] == ["name", "value"]
              and isinstance(st.value, ast.Call) and isinstance(st.value.func, ast.Attribute) and st.value.func.attr == "split"
              and _is_name(st.value.func.value, "line") and len(st.value.args) == 1 and not st.value.keywords
              and isinstance(st.value.args[0], ast.Constant) and isinstance(st.value.args[0].value, bytes)):
            out.append("LSplit2 %s" % G.by(st.value.args[0].value))
        elif _assign_to(st, "value") and _int_of_value(st.value):
            out.append("LIntValue")
        elif (isinstance(st, ast.Assign) and len(st.targets) == 1 and isinstance(st.targets[0], ast.Subscript)
              and _is_name(st.targets[0].value, "fields") and _is_name(st.targets[0].slice, "name")
              and (_is_name(st.value, "value") or _int_of_value(st.value))):
            out.append("LStore %s" % G.bo(_int_of_value(st.value)))
        else:
            raise TranslateError("io_counters loop: statement not understood: " + ast.dump(st)[:300])
    return "[%s]" % "; ".join("(%s)" % o if " " in o else o for o in out)


def translate_io_loop(tree):
    """The body of `for line in f:` of Process.io_counters, and the fact that an empty `fields` raises RuntimeError."""
    import ast
    fn = None
    for node in ast.walk(tree):
        if isinstance(node, ast.ClassDef) and node.name == "Process":
            for sub in ast.walk(node):
                if isinstance(sub, ast.FunctionDef) and sub.name == "io_counters":
                    fn = sub
    if fn is None:
        raise TranslateError("Process.io_counters not found")
    loops = [n for n in ast.walk(fn) if isinstance(n, ast.For)]
    if len(loops) != 1 or not _is_name(loops[0].target, "line") or not _is_name(loops[0].iter, "f") or loops[0].orelse:
        raise TranslateError("io_counters: expected exactly one `for line in f:` loop")
    withs = [n for n in ast.walk(fn) if isinstance(n, ast.With)]
    if (len(withs) != 1 or loops[0] not in withs[0].body or len(withs[0].body) != 1 or len(withs[0].items) != 1
            or not isinstance(withs[0].items[0].context_expr, ast.Call)
            or not _is_name(withs[0].items[0].context_expr.func, "open_binary")
            or not _is_name(withs[0].items[0].optional_vars, "f")):
        raise TranslateError("io_counters: the loop is not the only statement of `with open_binary(fname) as f:`")
    inits = [n for n in fn.body if _assign_to(n, "fields")]
    if len(inits) != 1 or not (isinstance(inits[0].value, ast.Dict) and not inits[0].value.keys):
        raise TranslateError("io_counters: `fields = {}` not found")
    return _lstmts(loops[0].body)


def translate_readlink(tree):
    """psutil/_pslinux.py:readlink() -> Gallina rprog (coq/C14/PyPath.v)"""
    import ast
    fns = [n for n in tree.body if isinstance(n, ast.FunctionDef) and n.name == "readlink"]
    if len(fns) != 1 or [a.arg for a in fns[0].args.args] != ["path"] or fns[0].decorator_list:
        raise TranslateError("readlink: not exactly one plain module-level def readlink(path)")
    body = list(fns[0].body)
    if body and isinstance(body[0], ast.Expr) and isinstance(body[0].value, ast.Constant) and isinstance(body[0].value.value, str):
        body = body[1:]
    if not (body and isinstance(body[-1], ast.Return) and _is_name(body[-1].value, "path")):
        raise TranslateError("readlink: does not end in 'return path'")
    out = []
    for st in body[:-1]:
        if isinstance(st, ast.Assert):
            if any(isinstance(n, (ast.Call,)) and not _is_name(n.func, "isinstance") for n in ast.walk(st)):
                raise TranslateError("readlink: assert with a call other than isinstance()")
            out.append("RAssert")
        elif (_assign_to(st, "path") and isinstance(st.value, ast.Call) and isinstance(st.value.func, ast.Attribute)
              and st.value.func.attr == "readlink" and _is_name(st.value.func.value, "os") and len(st.value.args) == 1
              and _is_name(st.value.args[0], "path") and not st.value.keywords):
            out.append("ROsReadlink")
        elif (_assign_to(st, "path") and isinstance(st.value, ast.Subscript) and isinstance(st.value.slice, ast.Constant)
              and st.value.slice.value == 0 and isinstance(st.value.value, ast.Call)
              and isinstance(st.value.value.func, ast.Attribute) and st.value.value.func.attr == "split"
              and _is_name(st.value.value.func.value, "path") and len(st.value.value.args) == 1 and not st.value.value.keywords):
            out.append("(RSplitFirst %s)" % _str_const(st.value.value.args[0]))
        elif isinstance(st, ast.If) and not st.orelse and len(st.body) == 1:
            t = st.test
            ok = (isinstance(t, ast.BoolOp) and isinstance(t.op, ast.And) and len(t.values) == 2
                  and isinstance(t.values[0], ast.Call) and isinstance(t.values[0].func, ast.Attribute)
                  and t.values[0].func.attr == "endswith" and _is_name(t.values[0].func.value, "path")
                  and len(t.values[0].args) == 1 and not t.values[0].keywords
                  and isinstance(t.values[1], ast.UnaryOp) and isinstance(t.values[1].op, ast.Not)
                  and isinstance(t.values[1].operand, ast.Call) and _is_name(t.values[1].operand.func, "path_exists_strict")
                  and len(t.values[1].operand.args) == 1 and _is_name(t.values[1].operand.args[0], "path"))
            b = st.body[0]
            okb = (_assign_to(b, "path") and isinstance(b.value, ast.Subscript) and _is_name(b.value.value, "path")
                   and isinstance(b.value.slice, ast.Slice) and b.value.slice.lower is None and b.value.slice.step is None
                   and isinstance(b.value.slice.upper, ast.UnaryOp) and isinstance(b.value.slice.upper.op, ast.USub)
                   and isinstance(b.value.slice.upper.operand, ast.Constant) and type(b.value.slice.upper.operand.value) is int
                   and 0 < b.value.slice.upper.operand.value < 1000)
            if not (ok and okb):
                raise TranslateError("readlink: if-statement not understood: " + ast.dump(st)[:300])
            out.append("(RIfSuffixNotExists %s %d%%nat)" % (_str_const(t.values[0].args[0]), b.value.slice.upper.operand.value))
        else:
            raise TranslateError("readlink: statement not understood: " + ast.dump(st)[:300])
    return "[%s]" % "; ".join(out)


def translate_strict(tree, name):
    """psutil/_common.py:isfile_strict / path_exists_strict -> Gallina strictfn (coq/C14/PyPath.v)"""
    import ast
    fns = [n for n in tree.body if isinstance(n, ast.FunctionDef) and n.name == name]
    if len(fns) != 1 or [a.arg for a in fns[0].args.args] != ["path"] or fns[0].decorator_list:
        raise TranslateError("%s: not exactly one plain module-level def %s(path)" % (name, name))
    body = list(fns[0].body)
    if body and isinstance(body[0], ast.Expr) and isinstance(body[0].value, ast.Constant) and isinstance(body[0].value.value, str):
        body = body[1:]
    if len(body) != 1 or not isinstance(body[0], ast.Try) or body[0].finalbody:
        raise TranslateError("%s: body is not a single try statement" % name)
    t = body[0]

    def is_os_stat(e):
        return (isinstance(e, ast.Call) and isinstance(e.func, ast.Attribute) and e.func.attr == "stat"
                and _is_name(e.func.value, "os") and len(e.args) == 1 and _is_name(e.args[0], "path") and not e.keywords)
    if not (len(t.body) == 1 and ((isinstance(t.body[0], ast.Expr) and is_os_stat(t.body[0].value))
                                  or (_assign_to(t.body[0], "st") and is_os_stat(t.body[0].value)))):
        raise TranslateError("%s: try body is not a single os.stat(path)" % name)
    hs = []
    for h in t.handlers:
        if h.name is not None or h.type is None or len(h.body) != 1:
            raise TranslateError("%s: handler not understood" % name)
        types = h.type.elts if isinstance(h.type, ast.Tuple) else [h.type]
        if not all(isinstance(x, ast.Name) for x in types):
            raise TranslateError("%s: handler class not a plain name" % name)
        b = h.body[0]
        if isinstance(b, ast.Raise) and b.exc is None:
            act = "HReraise"
        elif isinstance(b, ast.Return) and isinstance(b.value, ast.Constant) and b.value.value is False:
            act = "HFalse"
        else:
            raise TranslateError("%s: handler body is neither `raise` nor `return False`" % name)
        hs.append("([%s], %s)" % ("; ".join(G.by(x.id) for x in types), act))
    if len(t.orelse) != 1 or not isinstance(t.orelse[0], ast.Return):
        raise TranslateError("%s: else clause is not a single return" % name)
    r = t.orelse[0].value
    if isinstance(r, ast.Constant) and r.value is True:
        el = "ETrue"
    elif (isinstance(r, ast.Call) and isinstance(r.func, ast.Attribute) and r.func.attr == "S_ISREG" and _is_name(r.func.value, "stat")
          and len(r.args) == 1 and isinstance(r.args[0], ast.Attribute) and r.args[0].attr == "st_mode" and _is_name(r.args[0].value, "st")):
        el = "EIsReg"
    else:
        raise TranslateError("%s: else clause returns neither True nor stat.S_ISREG(st.st_mode)" % name)
    return "{| sf_handlers := [%s]; sf_else := %s |}" % ("; ".join(hs), el)


def gen_tables(impl_dir, out_dir):
    """Translate file_flags_to_mode and the constants of Process.io_counters of the tree under check into
    coq/Gen/C14_Tables.v.  coq/C14/ProofsGen.v proves the translated program equal to the model on every flag word
    and the constants equal to the model's, so an edit of these parts of the source breaks a proof (or the build)."""
    import ast
    src = open(os.path.join(impl_dir, "psutil", "_pslinux.py")).read()
    tree = ast.parse(src)
    fns = [n for n in tree.body if isinstance(n, ast.FunctionDef) and n.name == "file_flags_to_mode"]
    if len(fns) != 1:
        raise TranslateError("file_flags_to_mode: %d module-level definitions" % len(fns))
    prog = translate_file_flags_to_mode(fns[0])
    keys, sep, fields = translate_io_counters(tree)
    loop = translate_io_loop(tree)
    rl = translate_readlink(tree)
    ctree = ast.parse(open(os.path.join(impl_dir, "psutil", "_common.py")).read())
    isf = translate_strict(ctree, "isfile_strict")
    pes = translate_strict(ctree, "path_exists_strict")
    txt = "\n".join([
        "(* GENERATED by props/C14.py (gen_tables) from psutil/_pslinux.py of the tree under check -- do not edit. *)",
        "From PV Require Import C14.PyMini C14.PyLoop C14.PyPath.", "",
        "Definition gen_mode_prog : prog :=\n  %s." % prog, "",
        "Definition gen_io_loop : lprog :=\n  %s." % loop, "",
        "Definition gen_readlink : rprog :=\n  %s." % rl, "",
        "Definition gen_isfile_strict : strictfn :=\n  %s." % isf,
        "Definition gen_path_exists_strict : strictfn :=\n  %s." % pes, "",
        "Definition gen_pio_keys : list bytes :=\n  [%s]." % "; ".join(G.by(k) for k in keys),
        "Definition gen_io_sep : bytes := %s." % G.by(sep),
        "Definition gen_pio_fields : list bytes :=\n  [%s]." % "; ".join(G.by(f) for f in fields), ""])
    path = os.path.join(out_dir, "C14_Tables.v")
    os.makedirs(out_dir, exist_ok=True)
    if not os.path.exists(path) or open(path).read() != txt:
        with open(path, "w") as f:
            f.write(txt)


# ------------------------------------------------------------------ Coq terms
def _paths(e, base):
    """(raw link target, exists_cut, isreg of the cleaned path) for an entry; base = directory of target files."""
    k, fd = e["kind"], e["fd"]
    # file names end in characters of " (deleted)" for some descriptors, so that a suffix removal
    # done by character set (str.rstrip) instead of by length shows
    f = "%s/t%d%s" % (base, fd, ["", "", "_let", "d", ".old", " (x)", "_deleted", "e"][fd % 8])
    if k == "reg":
        return f, False, True
    if k == "reg_space":
        return f + " x y", False, True
    if k == "reg_deleted_gone":       # unlinked file: kernel shows "<path> (deleted)", nothing at <path>
        return f + " (deleted)", False, False
    if k == "reg_deleted_present":    # stale suffix: a file exists at <path>
        return f + " (deleted)", False, True
    if k == "relative":
        return "t%d" % fd, False, False
    if k == "socket":
        return "socket:[%d]" % (1000 + fd), False, False
    if k == "pipe":
        return "pipe:[%d]" % (2000 + fd), False, False
    if k == "anon":
        return "anon_inode:[eventfd]", False, False
    if k == "device":
        return "/dev/null", False, False
    if k == "dir":
        return base, False, False
    if k in PSEUDO_REG:               # regular files living under /dev, /proc, /sys, /run (POSIX shm, mqueue, hugepages...)
        return "%s/pv14 t%d" % (PSEUDO_REG[k], fd), True, True
    if k == "nul_garbage":
        return f + "\x00 (deleted)junk", False, True
    if k == "missing":
        return f + ".nothere", False, False
    if k == "under_file":             # a path component is a regular file: stat() fails with ENOTDIR, not ENOENT
        return f + "_f/x", False, False
    if k == "under_file_deleted":     # "<d>/f (deleted)" where <d> has since been replaced by a regular file
        return f + "_f/x (deleted)", False, False
    if k == "toolong":                # stat() fails with ENAMETOOLONG
        return f + "/" + "n" * 300, False, False
    raise ValueError(k)


# regular files below directories that mostly hold device nodes / pseudo files: still regular files, still listed
PSEUDO_REG = {"reg_dev_shm": "/dev/shm", "reg_dev_mqueue": "/dev/mqueue", "reg_dev_hugepages": "/dev/hugepages",
              "reg_run": "/run/lock", "reg_sys": "/sys/kernel/debug", "reg_proc": "/proc/pv14"}
DECOY_IO = (b"rchar: 424242\nwchar: 424242\nsyscr: 424242\nsyscw: 424242\nread_bytes: 424242\nwrite_bytes: 424242\n"
            b"cancelled_write_bytes: 0\n")
SHM_BASE = "/dev/shm/pvshmbase"  # placeholder of the worker's private directory below /dev/shm (live cases)
BASE = "/pvbase"  # placeholder replaced by the worker's real directory; same length irrelevant to the model


def coq_term(case):
    k = case["kind"]
    if k == "mode":
        return "run_mode %s" % G.z(case["flags"])
    if k == "table":
        es = []
        for e in case["ents"]:
            raw, ex, isreg = _paths(e, BASE)
            cl = {"open": "StillOpen", "readlink": "ClosedBeforeReadlink", "fdinfo": "ClosedBeforeFdinfo",
                  "fdinfo_read": "ClosedDuringFdinfoRead"}[e["closing"]]
            es.append("(Build_kfd %s %s %s %s %s %s %s %s)" % (
                G.by(str(e["fd"])), G.by(raw), G.bo(ex), G.bo(isreg), G.by(str(e["pos"])), G.by("%o" % e["flags"]),
                G.by(e["extra"]), cl))
        if case.get("moved"):
            return "run_table_moved %s %s %s %s" % (G.lst(es), G.bo(case["alive"]), G.by(str(case["moved"]["pos"])),
                                                    G.by("%o" % case["moved"]["flags"]))
        return "run_table %s %s" % (G.lst(es), G.bo(case["alive"]))
    if k == "live":
        es = []
        for e in case["ents"]:
            raw, ex, isreg, pos = _live_target(e, BASE)
            es.append("(Build_kfd %s %s %s %s %s %s %s StillOpen, %s)" % (
                G.by(str(e["fd"])), G.by(raw), G.bo(ex), G.bo(isreg), G.by(str(pos)), G.by("%o" % _kernel_flags(e["req"])),
                G.by(""), G.z(e["req"])))
        return "run_live %s" % G.lst(es)
    if k == "rawinfo":
        ent = "(Build_fdent %s (LTarget %s false) IsReg (FContent %s))" % (
            G.by(str(case["fd"])), G.by(_paths({"kind": "reg", "fd": case["fd"]}, BASE)[0]), G.by(bytes.fromhex(case["content"])))
        return "run_raw [%s] true" % ent
    if k == "io":
        its = []
        for it in case["items"]:
            if it[0] == "Junk":
                its.append("(Junk %s)" % G.by(it[1]))
            elif it[0] == "Bad3":
                its.append("(Bad3 %s %s %s)" % (G.by(it[1]), G.by(it[2]), G.by(it[3])))
            else:
                its.append("(%s %s %s)" % (it[0], G.by(it[1]), G.by(it[2])))
        if case.get("moved"):
            return "run_io_moved %s %s %s" % (G.bo(STRICT_IO), G.lst(its), G.by(DECOY_IO))
        return "run_io %s %s" % (G.bo(STRICT_IO), G.lst(its))
    if k == "rawio":
        return "run_io_raw %s %s" % (G.bo(STRICT_IO), G.by(bytes.fromhex(case["content"])))
    raise ValueError(k)


def _kernel_flags(req):
    """the harness's prediction of the fdinfo flag word (checked inside Coq against Spec.k_open_flags)"""
    return ((req & ~0o1700 & ~0o2000000) | 0o100000) | 0o2000000


def _live_target(e, base):
    """(link target, exists_cut, isreg, offset the kernel will report) of a live entry"""
    k = e["kind"]
    f = "%s/l%d" % (base, e["fd"])
    if k == "reg":
        return f, True, True, e["pos"]
    if k == "reg_shm":                # a real regular file below /dev (POSIX shared memory lives there)
        return "%s/l%d" % (SHM_BASE if base == BASE else base + "@shm", e["fd"]), True, True, e["pos"]
    if k == "reg_deleted_gone":
        return f + " (deleted)", False, False, e["pos"]      # after unlink the cleaned path names no file: not listed
    if k == "reg_deleted_present":
        return f + " (deleted)", True, True, e["pos"]
    if k == "dir":
        return f + ".d", True, False, 0
    if k == "dev":
        return "/dev/null", True, False, 0
    if k == "pipe":
        return "pipe:[1]", False, False, 0
    if k == "socket":
        return "socket:[1]", False, False, 0
    raise ValueError(k)


def coq_struct(case, raw):
    k = case["kind"]
    if k == "live":
        from pv.canon import unB as _u
        if any(_u(x) != b"ok" for x in raw[3]):
            raise RuntimeError("C14 live: the harness's flag prediction disagrees with Spec.k_open_flags: %r" % (case,))
        return {"printed": raw[0], "model": [raw[1], None], "spec": None if raw[2] is None else [raw[2], None]}
    if k == "mode":
        spec = raw[1]
        return {"model": raw[0], "spec": None if spec is None else Val(spec)}
    if k == "table":
        return {"printed": raw[0], "model": [raw[1], raw[3]], "spec": None if raw[2] is None else [raw[2], raw[3]]}
    if k == "rawinfo":
        return {"model": raw, "spec": None}
    if k == "io":
        return {"printed": raw[0], "model": raw[1], "spec": raw[2]}
    if k == "rawio":
        return {"model": raw[0], "spec": None}


def finding_key(case, coq):
    if case["kind"] == "mode" and case["flags"] & 3 == 3:
        return "open_files-accmode3"
    if case["kind"] == "table":
        for e in case["ents"]:
            if e["flags"] & 3 == 3 and e["closing"] == "open" and e["kind"] in (
                    "reg", "reg_space", "reg_deleted_present", "nul_garbage"):
                return "open_files-accmode3"
    return None


def judge(case, coq, impl):
    from pv.core import Verdict, default_judge
    k = case["kind"]
    if k == "mode" and case["flags"] & 3 == 3:
        # the property wants a mode string / no failure; the code raises KeyError
        if impl == Exc("KeyError"):
            return Verdict("violation", "access mode 3 -> KeyError")
        return Verdict("corr", "mode(accmode 3) differs from model")
    if k == "table" and coq["spec"] is None and finding_key(case, coq):
        # listed descriptor with access mode 3: the call must not fail (property), the code raises KeyError
        if isinstance(impl, list) and isinstance(impl[0], dict) and impl[0].get("t") == "Exc":
            return Verdict("violation", "open_files() fails on a listed descriptor with access mode 3: %r" % (impl[0],))
    return default_judge(None, case, coq, impl)


# ------------------------------------------------------------------ implementation side
_state = {}


def impl_setup(env):
    pass


def _fix(b, base):
    return b.replace(BASE.encode(), base.encode())


def impl_run(case, coq, env):
    import psutil
    from psutil import _pslinux
    from pv import fakeproc
    k = case["kind"]
    if k == "mode":
        return outcome(lambda: _pslinux.file_flags_to_mode(case["flags"]), B)
    if k == "live":
        return _impl_live(case, coq, env, psutil)
    # fixed-length base directory so that model paths and real paths coincide after substitution
    base = BASE
    real_base = os.path.join(env["work"], "files")
    root = os.path.join(env["work"], "proc")
    fp = fakeproc.FakeProc(root)
    fakeproc.attach(psutil, root)
    # "selfpid": the PID shown by the (foreign) procfs happens to equal the observing interpreter's own PID --
    # another PID namespace's process, not the caller: nothing about the answers may change
    pid = os.getpid() if case.get("selfpid") else 4242
    fp.add(pid)
    p = psutil.Process(pid)
    fp2 = None
    if case.get("moved"):
        import shutil
        root2 = os.path.join(env["work"], "proc2")
        shutil.rmtree(root2, ignore_errors=True)
        fp2 = fakeproc.FakeProc(root2)
        fp2.add(pid)

    def move_mount():
        if fp2 is not None:
            psutil.PROCFS_PATH = fp2.root

    def conv_rows(rows):
        return [[B(os.fsencode(r.path).replace(real_base.encode(), base.encode())), r.fd, r.position, B(r.mode), r.flags] for r in rows]

    if k in ("table", "rawinfo"):
        import shutil
        shutil.rmtree(real_base, ignore_errors=True)
        os.makedirs(real_base)
        ents = case["ents"] if k == "table" else [{"fd": case["fd"], "kind": "reg", "closing": "open"}]
        fail_readlink = set()
        stat_redirect = {}
        nul_links = {}
        fail_read = set()
        for idx, e in enumerate(ents):
            raw, ex, isreg = _paths(e, real_base)
            link = os.path.join(root, str(pid), "fd", str(e["fd"]))
            cut = raw.split("\x00")[0]
            if "\x00" in raw:
                os.symlink(os.fsencode(cut), os.fsencode(link))
                nul_links[link] = raw
            else:
                os.symlink(os.fsencode(raw), os.fsencode(link))
            clean = cut[:-10] if cut.endswith(" (deleted)") else cut
            if e["kind"] in PSEUDO_REG:
                # no file is created outside the work directory: os.stat of that one path answers like a regular file
                stand_in = os.path.join(real_base, "standin%d" % e["fd"])
                with open(stand_in, "wb") as f:
                    f.write(b"x")
                stat_redirect[clean] = stand_in
            elif isreg:
                with open(clean, "wb") as f:
                    f.write(b"x")
            if e["kind"] in ("under_file", "under_file_deleted"):
                with open(clean[:-2], "wb") as f:   # the regular file standing where a directory is expected
                    f.write(b"x")
            if e["closing"] == "readlink":
                fail_readlink.add(link)
            if e["closing"] != "fdinfo":
                content = unB(coq["printed"][idx]) if k == "table" else bytes.fromhex(case["content"])
                ipath = fp.write(pid, "fdinfo/%d" % e["fd"], content)
                if e["closing"] == "fdinfo_read":
                    fail_read.add(ipath)
            if fp2 is not None:
                os.symlink(os.fsencode(cut), os.fsencode(os.path.join(fp2.root, str(pid), "fd", str(e["fd"]))))
                fp2.write(pid, "fdinfo/%d" % e["fd"], b"pos:\t%d\nflags:\t0%o\n" % (case["moved"]["pos"], case["moved"]["flags"]))
        real_readlink = os.readlink

        def fake_readlink(path, *a, **kw):
            if path in fail_readlink:
                raise FileNotFoundError(errno.ENOENT, "No such file or directory", path)
            if path in nul_links:
                return nul_links[path]
            return real_readlink(path, *a, **kw)
        alive = case.get("alive", True)
        os.readlink = fake_readlink
        import builtins
        real_open = builtins.open

        class _GoneFile:
            """fdinfo file that opened fine but whose content the kernel refuses at read time"""
            def __init__(self, path):
                self.path = path

            def __enter__(self):
                return self

            def __exit__(self, *a):
                return False

            def _fail(self, *a, **kw):
                raise FileNotFoundError(errno.ENOENT, "No such file or directory", self.path)
            read = readline = readlines = __iter__ = __next__ = _fail

            def close(self):
                pass

        def fake_open(path, *a, **kw):
            if path in fail_read:
                return _GoneFile(path)
            return real_open(path, *a, **kw)
        builtins.open = fake_open
        real_stat = os.stat

        def fake_stat(path, *a, **kw):
            if not alive and isinstance(path, str) and (path + "/").startswith(os.path.join(root, str(pid)) + "/"):
                raise FileNotFoundError(errno.ENOENT, "No such file or directory", path)
            if isinstance(path, str) and path in stat_redirect:
                return real_stat(stat_redirect[path], *a, **kw)
            return real_stat(path, *a, **kw)
        os.stat = fake_stat
        try:
            # directory order: present the entries in table order
            real_listdir = os.listdir
            order = [str(e["fd"]) for e in ents]

            def fake_listdir(path=".", *a):
                r = real_listdir(path, *a)
                if path == os.path.join(root, str(pid), "fd"):
                    assert sorted(r) == sorted(order), (r, order)
                    return list(order)
                return r
            os.listdir = fake_listdir
            try:
                move_mount()
                res = outcome(p.open_files, conv_rows)
                nfds = p.num_fds()
            finally:
                os.listdir = real_listdir
        finally:
            os.readlink = real_readlink
            os.stat = real_stat
            builtins.open = real_open
        if k == "rawinfo":
            return [res, nfds]
        return [res, nfds]
    if k in ("io", "rawio"):
        content = unB(coq["printed"]) if k == "io" else bytes.fromhex(case["content"])
        fp.write(pid, "io", content)
        if fp2 is not None:
            fp2.write(pid, "io", DECOY_IO)
            move_mount()
        return outcome(p.io_counters, lambda r: [r.read_count, r.write_count, r.read_bytes, r.write_bytes, r.read_chars, r.write_chars])
    raise ValueError(k)

def _impl_live(case, coq, env, psutil):
    """Open real descriptors at chosen numbers, compare the REAL /proc/self/fdinfo text with the text the specification's
    kernel printer produced (a mismatch is a wrong transcription of the kernel format: harness error, not a verdict), then
    ask psutil about this very process over the real /proc."""
    import shutil, socket
    real_base = os.path.join(env["work"], "livefiles")
    shutil.rmtree(real_base, ignore_errors=True)
    os.makedirs(real_base)
    psutil.PROCFS_PATH = "/proc"
    opened = []
    shm_files = []
    real_shm = None
    if any(e["kind"] == "reg_shm" for e in case["ents"]):
        if not os.access("/dev/shm", os.W_OK):
            return {"t": "Skip", "a": ["/dev/shm not writable"]}
        import tempfile
        real_shm = tempfile.mkdtemp(prefix="pv14_", dir="/dev/shm")     # private to this case: workers run concurrently
    try:
        for idx, e in enumerate(case["ents"]):
            raw, ex, isreg, pos = _live_target(e, real_base)
            if e["kind"] == "reg_shm":
                raw = "%s/l%d" % (real_shm, e["fd"])
            k, req, want = e["kind"], e["req"], e["fd"]
            if k in ("reg", "reg_deleted_gone", "reg_deleted_present", "reg_shm"):
                path = raw if k == "reg_deleted_present" else raw.replace(" (deleted)", "")
                if k == "reg_shm":
                    shm_files.append(path)
                with open(path, "wb") as f:
                    f.write(b"0123456789")
                fd = os.open(path, req)
                os.lseek(fd, e["pos"], os.SEEK_SET)
                if e.get("lock") == "flock":
                    import fcntl
                    fcntl.flock(fd, fcntl.LOCK_EX if req & 3 else fcntl.LOCK_SH)
                elif e.get("lock") == "posix" and req & 3:
                    import fcntl
                    fcntl.lockf(fd, fcntl.LOCK_EX, 10, 0, os.SEEK_SET)
                if k == "reg_deleted_gone":
                    os.unlink(path)
            elif k == "dir":
                os.makedirs(raw, exist_ok=True)
                fd = os.open(raw, req)
            elif k == "dev":
                fd = os.open("/dev/null", req & ~0o100 & ~0o200)
            elif k == "pipe":
                fd, w = os.pipe()
                opened.append(w)
            else:
                sk = socket.socket()
                fd = sk.detach()
            os.dup2(fd, want, inheritable=False)
            os.close(fd)
            opened.append(want)
            if k in ("reg", "reg_deleted_gone", "reg_deleted_present", "reg_shm"):
                with open("/proc/self/fdinfo/%d" % want, "rb") as f:
                    real = f.read()
                printed = unB(coq["printed"][idx])
                if not real.startswith(printed):
                    raise RuntimeError("C14 live: the kernel prints %r for fd %d (open flags %o), Spec.k_fdinfo printed %r"
                                       % (real[:80], want, req, printed))
                if os.readlink("/proc/self/fd/%d" % want) != raw:
                    raise RuntimeError("C14 live: link target %r, expected %r" % (os.readlink("/proc/self/fd/%d" % want), raw))
        # the real /proc/<pid>/io has the shape Spec.k_io prints for KV items (values move between reads: shape only)
        import re
        with open("/proc/self/io", "rb") as f:
            io_lines = f.read().split(b"\n")
        names = [b"rchar", b"wchar", b"syscr", b"syscw", b"read_bytes", b"write_bytes", b"cancelled_write_bytes"]
        if io_lines[-1] != b"" or [l.split(b": ")[0] for l in io_lines[:-1]] != names or not all(
                re.fullmatch(rb"[a-z_]+: [0-9]+", l) for l in io_lines[:-1]):
            raise RuntimeError("C14 live: /proc/self/io is not of the shape Spec.k_io prints: %r" % (io_lines,))
        mine = {e["fd"] for e in case["ents"]}

        def conv(rows):
            def unreal(b):
                if real_shm is not None:
                    b = b.replace(real_shm.encode(), SHM_BASE.encode())
                return b.replace(real_base.encode(), BASE.encode())
            return [[B(unreal(os.fsencode(r.path))), r.fd, r.position, B(r.mode), r.flags] for r in rows if r.fd in mine]
        p = psutil.Process()
        res = outcome(p.open_files, conv)
        n = p.num_fds()
        if n < len(mine):
            return [res, n]
        return [res, None]
    finally:
        for fd in opened:
            try:
                os.close(fd)
            except OSError:
                pass
        if real_shm is not None:
            shutil.rmtree(real_shm, ignore_errors=True)


MANIFEST = {
    "text": "Theorems (Coq, closed under the global context): for every flag word the mode string is the one implied by access mode and O_APPEND; "
            "for every kernel-formatted descriptor table open_files() of the model returns exactly the regular absolute-path still-open descriptors "
            "with fd/offset/flags/mode and never fails for a live process (tables with a listed access-mode-3 file excluded: known finding, refuted "
            "theorem kept); num_fds counts all; io_counters returns the six counters for every file of numeric, blank, colon-free and non-numeric "
            "lines (last duplicate wins); answers depend only on the procfs mount the Process object is bound to; the kernel's reported flag word keeps what the mode depends on. "
            "Tie to the code: file_flags_to_mode, the loop body and constants of io_counters, readlink() and the stat helpers isfile_strict/path_exists_strict are re-translated from the current source "
            "on every run and proved equal to the model for every input (C14_translated_*); the rest of the model is tied by running model and code on generated tables and files (exhaustive over 512 flag words), including cases over the real /proc "
            "that validate the specification's kernel printer against the running kernel.",
    "note": "Trusted: Coq kernel + vm_compute; translator props/C14.py:gen_tables + interpreter coq/C14/PyMini.v; hand-written model coq/C14/Model.v of open_files/num_fds/io_counters (tied by the correspondence run only); kernel formats in coq/C14/Spec.v (validated against the running kernel by the live cases); "
            "harness (fake /proc, os.readlink/os.stat/os.listdir patches); CPython builtins. Proof covers the model, sampling covers model-vs-code.",
}
