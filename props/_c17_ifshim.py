"""C17 helper: a fed interface list.  A tiny LD_PRELOAD shim overriding getifaddrs()/freeifaddrs() is compiled at
check time (in the worker's scratch directory) and a child interpreter runs psutil.net_if_addrs() over the list
described by a text file -- AF_PACKET records of any sll_halen (the record is allocated large enough, as glibc does
for IPoIB / ip6tnl), AF_INET / AF_INET6 records, unknown families, NULL ifa_addr / ifa_netmask / ifa_broadaddr."""
import json
import os
import shutil
import subprocess
import sys

SHIM_C = r"""
#define _GNU_SOURCE
#include <dlfcn.h>
#include <ifaddrs.h>
#include <net/if.h>
#include <netinet/in.h>
#include <netpacket/packet.h>
#include <stddef.h>
#include <stdio.h>
#include <stdlib.h>
#include <string.h>
#include <sys/socket.h>

/* line:  N:x<name hex> <flags decimal> <addr> <netmask> <broadaddr/dstaddr>
   sockaddr token:  -                         NULL
                    L:<hatype>:<ifindex>:<hex of the hardware address>      AF_PACKET, sll_halen = number of bytes
                    4:<8 hex>                 AF_INET
                    6:<32 hex>:<scope id>     AF_INET6
                    U:<family>                some other family, zeroed sockaddr                                  */

static struct ifaddrs *fed_head = NULL;

static int hexval(int c) {
    if (c >= '0' && c <= '9') return c - '0';
    if (c >= 'a' && c <= 'f') return c - 'a' + 10;
    if (c >= 'A' && c <= 'F') return c - 'A' + 10;
    return -1;
}

static size_t unhex(const char *s, unsigned char *out, size_t max) {
    size_t n = 0;
    while (hexval(s[0]) >= 0 && hexval(s[1]) >= 0 && n < max) {
        out[n++] = (unsigned char)(hexval(s[0]) * 16 + hexval(s[1]));
        s += 2;
    }
    return n;
}

static struct sockaddr *parse_sa(const char *tok) {
    unsigned char buf[512];
    if (tok[0] == '-')
        return NULL;
    if (tok[0] == 'L') {
        unsigned hatype = 0; int ifindex = 0; int off = 0;
        if (sscanf(tok, "L:%u:%d:%n", &hatype, &ifindex, &off) < 2) return NULL;
        size_t n = unhex(tok + off, buf, 255);
        size_t size = offsetof(struct sockaddr_ll, sll_addr) + (n > 8 ? n : 8);
        struct sockaddr_ll *s = calloc(1, size);      /* exactly as large as the address needs */
        s->sll_family = AF_PACKET;
        s->sll_hatype = (unsigned short)hatype;
        s->sll_ifindex = ifindex;
        s->sll_halen = (unsigned char)n;
        memcpy((char *)s + offsetof(struct sockaddr_ll, sll_addr), buf, n);
        return (struct sockaddr *)s;
    }
    if (tok[0] == '4') {
        struct sockaddr_in *s = calloc(1, sizeof *s);
        s->sin_family = AF_INET;
        unhex(tok + 2, buf, 4);
        memcpy(&s->sin_addr, buf, 4);
        return (struct sockaddr *)s;
    }
    if (tok[0] == '6') {
        struct sockaddr_in6 *s = calloc(1, sizeof *s);
        s->sin6_family = AF_INET6;
        unhex(tok + 2, buf, 16);
        memcpy(&s->sin6_addr, buf, 16);
        const char *c = strchr(tok + 2, ':');
        s->sin6_scope_id = c ? (unsigned)strtoul(c + 1, NULL, 10) : 0;
        return (struct sockaddr *)s;
    }
    if (tok[0] == 'U') {
        struct sockaddr *s = calloc(1, sizeof(struct sockaddr_storage));
        s->sa_family = (sa_family_t)atoi(tok + 2);
        return s;
    }
    return NULL;
}

int getifaddrs(struct ifaddrs **out) {
    const char *path = getenv("C17_IFADDRS_FILE");
    if (path == NULL) {
        int (*real)(struct ifaddrs **) = dlsym(RTLD_NEXT, "getifaddrs");
        return real(out);
    }
    FILE *f = fopen(path, "r");
    if (f == NULL)
        return -1;
    static char line[8192];
    struct ifaddrs *head = NULL, *tail = NULL;
    while (fgets(line, sizeof line, f) != NULL) {
        char name[600], a[1200], m[1200], b[1200];
        unsigned flags = 0;
        /* the name token is "N:x<hex>", possibly with no hex digits at all (empty name) */
        if (strncmp(line, "N:x", 3) != 0)
            continue;
        const char *p = line + 3;
        name[0] = 0;
        if (*p == ' ') {
            if (sscanf(p, " %u %1199s %1199s %1199s", &flags, a, m, b) != 4)
                continue;
        }
        else if (sscanf(p, "%599s %u %1199s %1199s %1199s", name, &flags, a, m, b) != 5)
            continue;
        unsigned char raw[300];
        size_t n = unhex(name, raw, 299);
        struct ifaddrs *ifa = calloc(1, sizeof *ifa);
        ifa->ifa_name = calloc(1, n + 1);
        memcpy(ifa->ifa_name, raw, n);
        ifa->ifa_flags = flags;
        ifa->ifa_addr = parse_sa(a);
        ifa->ifa_netmask = parse_sa(m);
        ifa->ifa_broadaddr = parse_sa(b);     /* union with ifa_dstaddr */
        if (tail) tail->ifa_next = ifa; else head = ifa;
        tail = ifa;
    }
    fclose(f);
    fed_head = head;
    *out = head;
    return 0;
}

void freeifaddrs(struct ifaddrs *p) {
    if (p == NULL || p != fed_head) {
        void (*real)(struct ifaddrs *) = dlsym(RTLD_NEXT, "freeifaddrs");
        if (p != NULL) real(p);
        return;
    }
    fed_head = NULL;
    while (p) {
        struct ifaddrs *next = p->ifa_next;
        free(p->ifa_name); free(p->ifa_addr); free(p->ifa_netmask); free(p->ifa_broadaddr);
        free(p);
        p = next;
    }
}
"""

CHILD = r"""
import json, os, sys
import psutil
def enc(x):
    return None if x is None else os.fsencode(x).hex()
try:
    d = psutil.net_if_addrs()
    out = ["val", [[enc(k), [[int(r.family), enc(r.address), enc(r.netmask), enc(r.broadcast), enc(r.ptp)] for r in v]] for k, v in d.items()]]
except BaseException as e:
    out = ["exc", "UnicodeError" if isinstance(e, UnicodeError) else type(e).__name__]
sys.stdout.write("C17RESULT " + json.dumps(out) + "\n")
"""


def compiler():
    for c in ("cc", "gcc", "clang"):
        p = shutil.which(c)
        if p:
            return p
    return None


def build(workdir):
    """Compile the shim into workdir; returns the path of the shared object or None (no compiler / failure)."""
    so = os.path.join(workdir, "c17_ifshim.so")
    if os.path.exists(so):
        return so
    cc = compiler()
    if cc is None:
        return None
    src = os.path.join(workdir, "c17_ifshim.c")
    with open(src, "w") as f:
        f.write(SHIM_C)
    r = subprocess.run([cc, "-shared", "-fPIC", "-O1", "-o", so + ".tmp", src, "-ldl"], stdout=subprocess.PIPE,
                       stderr=subprocess.STDOUT, text=True)
    if r.returncode != 0:
        sys.stderr.write("c17 ifshim: compilation failed:\n" + r.stdout[-2000:])
        return None
    os.replace(so + ".tmp", so)
    return so


def describe(records):
    """records: list of dicts {name: hex, flags: int, addr/mask/baddr: token} -> file content"""
    return "".join("N:x%s %d %s %s %s\n" % (r["name"], r["flags"], r["addr"], r["mask"], r["baddr"]) for r in records)


def run(so, workdir, records, timeout=60):
    """Child interpreter with the shim preloaded.  Returns ("ok", value) | ("abort", returncode, stderr)."""
    path = os.path.join(workdir, "ifaddrs.txt")
    with open(path, "w") as f:
        f.write(describe(records))
    env = dict(os.environ)
    env["C17_IFADDRS_FILE"] = path
    env["LD_PRELOAD"] = (env.get("LD_PRELOAD", "") + ":" + so).strip(":")
    r = subprocess.run([sys.executable, "-c", CHILD], env=env, stdout=subprocess.PIPE, stderr=subprocess.PIPE,
                       timeout=timeout)
    out = r.stdout.decode("utf-8", "replace")
    for ln in out.splitlines():
        if ln.startswith("C17RESULT ") and r.returncode == 0:
            return ("ok", json.loads(ln[10:]))
    return ("abort", r.returncode, r.stderr.decode("utf-8", "replace"))
