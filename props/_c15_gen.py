"""C15 -- fail-closed translator: psutil/_psposix.py wait_pid (and negsig_to_enum / Negsignal) of the tree
under check -> a [wprog] of coq/C15/PyGen.v, written to coq/Gen/C15_Tables.v.

Every statement and expression shape that is not listed here raises TranslateError (pv/core.py then treats the
tie as broken: it searches for a failing input and otherwise reports `no-failing-input-found`).  The shape of
the function that PyGen.wprog fixes (while True / try os.waitpid / the three clauses / the inner
`while _pid_exists(pid)`) is checked here node by node."""
import ast
import os
from fractions import Fraction


class TranslateError(RuntimeError):
    pass


def _d(node, n=240):
    return ast.dump(node)[:n]


def _is_name(node, name):
    return isinstance(node, ast.Name) and node.id == name


def _is_os(node, attr):
    return isinstance(node, ast.Attribute) and _is_name(node.value, "os") and node.attr == attr


def _q(fr):
    fr = Fraction(fr)
    return "(%d # %d)" % (fr.numerator, fr.denominator)


def _call0(node, fname):
    """node is `fname()` with a plain local name"""
    return isinstance(node, ast.Call) and _is_name(node.func, fname) and not node.args and not node.keywords


class Ctx:
    def __init__(self, in_sleep):
        self.in_sleep = in_sleep     # inside the local function sleep(interval): `interval` is the parameter


def qexpr(node, cx):
    if isinstance(node, ast.Constant) and type(node.value) in (int, float):
        # a float literal stands for the decimal number written in the source (exact-rational model, DESIGN 3.3)
        return "(QConst %s)" % _q(Fraction(repr(node.value)))
    if _call0(node, "_timer"):
        return "QTimer"
    if _is_name(node, "timeout"):
        return "QTimeout"
    if _is_name(node, "stop_at"):
        return "QStopAt"
    if _is_name(node, "interval"):
        return "QParam" if cx.in_sleep else "QInterval"
    if isinstance(node, ast.BinOp) and isinstance(node.op, (ast.Add, ast.Mult)):
        return "(%s %s %s)" % ("QAdd" if isinstance(node.op, ast.Add) else "QMul", qexpr(node.left, cx), qexpr(node.right, cx))
    if isinstance(node, ast.Call) and _is_name(node.func, "_min") and len(node.args) == 2 and not node.keywords:
        return "(QMin %s %s)" % (qexpr(node.args[0], cx), qexpr(node.args[1], cx))
    raise TranslateError("numeric expression not understood: " + _d(node))


def _os_status_call(node, attr):
    return (isinstance(node, ast.Call) and _is_os(node.func, attr) and len(node.args) == 1 and not node.keywords
            and _is_name(node.args[0], "status"))


def zexpr(node):
    if _os_status_call(node, "WEXITSTATUS"):
        return "ZExitStatus"
    if _os_status_call(node, "WTERMSIG"):
        return "ZTermSig"
    if isinstance(node, ast.UnaryOp) and isinstance(node.op, ast.USub):
        return "(ZNeg %s)" % zexpr(node.operand)
    if isinstance(node, ast.Call) and _is_name(node.func, "negsig_to_enum") and len(node.args) == 1 and not node.keywords:
        return "(ZNegsigEnum %s)" % zexpr(node.args[0])
    raise TranslateError("return value not understood: " + _d(node))


def cond(node, cx):
    if isinstance(node, ast.Compare) and len(node.ops) == 1 and len(node.comparators) == 1:
        op, lhs, rhs = node.ops[0], node.left, node.comparators[0]
        if isinstance(op, ast.LtE) and _is_name(lhs, "pid") and isinstance(rhs, ast.Constant) and type(rhs.value) is int:
            return "(CPidLe (%d))" % rhs.value
        if isinstance(op, ast.IsNot) and _is_name(lhs, "timeout") and isinstance(rhs, ast.Constant) and rhs.value is None:
            return "CTimeoutNotNone"
        if isinstance(op, ast.Eq) and _is_name(lhs, "retpid") and isinstance(rhs, ast.Constant) and type(rhs.value) is int:
            return "(CRetpidEq (%d))" % rhs.value
        if isinstance(op, ast.GtE):
            return "(CGe %s %s)" % (qexpr(lhs, cx), qexpr(rhs, cx))
    if _os_status_call(node, "WIFEXITED"):
        return "CIfExited"
    if _os_status_call(node, "WIFSIGNALED"):
        return "CIfSignaled"
    raise TranslateError("condition not understood: " + _d(node))


def _is_msg_value(node):
    if isinstance(node, ast.Constant) and isinstance(node.value, str):
        return True
    if isinstance(node, ast.JoinedStr):
        for v in node.values:
            if isinstance(v, ast.Constant):
                continue
            if isinstance(v, ast.FormattedValue) and _is_name(v.value, "status") and v.format_spec is None:
                continue
            return False
        return True
    return False


def stmt(node, cx):
    if isinstance(node, ast.If):
        return "(SIf %s %s %s)" % (cond(node.test, cx), block(node.body, cx), block(node.orelse, cx))
    if isinstance(node, ast.Continue):
        if cx.in_sleep:
            raise TranslateError("continue inside sleep()")
        return "SContinue"
    if isinstance(node, ast.Raise) and node.cause is None and isinstance(node.exc, ast.Call):
        c = node.exc
        if _is_name(c.func, "ValueError") and len(c.args) == 1 and _is_name(c.args[0], "msg") and not c.keywords:
            return "SRaiseVE"
        if (_is_name(c.func, "TimeoutExpired") and len(c.args) == 1 and _is_name(c.args[0], "timeout")
                and sorted(k.arg or "" for k in c.keywords) == ["name", "pid"]
                and all(_is_name(k.value, {"pid": "pid", "name": "proc_name"}[k.arg]) for k in c.keywords)):
            return "SRaiseTimeout"
        raise TranslateError("raise not understood: " + _d(node))
    if isinstance(node, ast.Return):
        v = node.value
        if v is None or (isinstance(v, ast.Constant) and v.value is None):
            if cx.in_sleep:
                raise TranslateError("sleep() returns None")
            return "SReturnNone"
        if cx.in_sleep:
            return "(SReturnQ %s)" % qexpr(v, cx)
        return "(SReturnZ %s)" % zexpr(v)
    if isinstance(node, ast.Assign) and len(node.targets) == 1 and isinstance(node.targets[0], ast.Name):
        tgt, v = node.targets[0].id, node.value
        if tgt == "msg" and _is_msg_value(v):
            return "SMsg"
        if cx.in_sleep:
            raise TranslateError("assignment inside sleep(): " + _d(node))
        if tgt == "interval":
            if isinstance(v, ast.Call) and _is_name(v.func, "sleep") and len(v.args) == 1 and not v.keywords \
                    and _is_name(v.args[0], "interval"):
                return "SCallSleep"
            return "(SSetInterval %s)" % qexpr(v, cx)
        if tgt == "flags" and isinstance(v, ast.Constant) and type(v.value) is int:
            return "(SSetFlags (%d))" % v.value
        if tgt == "stop_at":
            return "(SSetStopAt %s)" % qexpr(v, cx)
        raise TranslateError("assignment not understood: " + _d(node))
    if isinstance(node, ast.AugAssign) and isinstance(node.op, ast.BitOr) and _is_name(node.target, "flags") \
            and _is_os(node.value, "WNOHANG") and not cx.in_sleep:
        return "(SOrFlags 1)"       # os.WNOHANG == 1 on Linux (the model's nohang flag)
    if isinstance(node, ast.Expr) and isinstance(node.value, ast.Call) and _is_name(node.value.func, "_sleep") \
            and len(node.value.args) == 1 and not node.value.keywords:
        return "(SOsSleep %s)" % qexpr(node.value.args[0], cx)
    raise TranslateError("statement not understood: " + _d(node))


def block(nodes, cx):
    return "[" + "; ".join(stmt(n, cx) for n in nodes) + "]"


def _strip_doc(body):
    if body and isinstance(body[0], ast.Expr) and isinstance(body[0].value, ast.Constant) and isinstance(body[0].value.value, str):
        return body[1:]
    return body


def _check_defaults(fn):
    """the keyword defaults are what the harness replaces; their names and the primitives they stand for are fixed"""
    args = fn.args
    if args.vararg or args.kwarg or args.kwonlyargs or args.posonlyargs:
        raise TranslateError("wait_pid: unexpected signature")
    names = [a.arg for a in args.args]
    if names != ["pid", "timeout", "proc_name", "_waitpid", "_timer", "_min", "_sleep", "_pid_exists"]:
        raise TranslateError("wait_pid: unexpected parameters %r" % names)
    dflt = dict(zip(names[1:], args.defaults)) if len(args.defaults) == 7 else None
    if dflt is None:
        raise TranslateError("wait_pid: unexpected defaults")
    for k in ("timeout", "proc_name"):
        if not (isinstance(dflt[k], ast.Constant) and dflt[k].value is None):
            raise TranslateError("wait_pid: default of %s is not None" % k)
    if not _is_name(dflt["_min"], "min"):
        raise TranslateError("wait_pid: _min is not min")
    if not _is_name(dflt["_pid_exists"], "pid_exists"):
        raise TranslateError("wait_pid: _pid_exists is not pid_exists")
    s = dflt["_sleep"]
    if not (isinstance(s, ast.Attribute) and _is_name(s.value, "time") and s.attr == "sleep"):
        raise TranslateError("wait_pid: _sleep is not time.sleep")
    if not _is_os(dflt["_waitpid"], "waitpid"):
        raise TranslateError("wait_pid: _waitpid is not os.waitpid")
    t = dflt["_timer"]
    ok = (isinstance(t, ast.Call) and _is_name(t.func, "getattr") and len(t.args) == 3 and _is_name(t.args[0], "time")
          and isinstance(t.args[1], ast.Constant) and t.args[1].value == "monotonic"
          and isinstance(t.args[2], ast.Attribute) and _is_name(t.args[2].value, "time") and t.args[2].attr == "time")
    if not ok:
        raise TranslateError("wait_pid: _timer is not getattr(time, 'monotonic', time.time)")


def _handler_class(h):
    if h.name is not None or not isinstance(h.type, ast.Name):
        raise TranslateError("wait_pid: except clause not a plain class: " + _d(h))
    return h.type.id


def translate_wait_pid(fn):
    _check_defaults(fn)
    if fn.decorator_list:
        raise TranslateError("wait_pid: decorated")
    body = _strip_doc(fn.body)
    defs = [i for i, n in enumerate(body) if isinstance(n, ast.FunctionDef)]
    if len(defs) != 1 or body[defs[0]].name != "sleep" or defs[0] != len(body) - 2:
        raise TranslateError("wait_pid: expected `def sleep(interval)` right before the final loop")
    sl = body[defs[0]]
    a = sl.args
    if [x.arg for x in a.args] != ["interval"] or a.defaults or a.vararg or a.kwarg or a.kwonlyargs or a.posonlyargs \
            or sl.decorator_list:
        raise TranslateError("sleep(): unexpected signature")
    pre = block(body[:defs[0]], Ctx(False))
    sleep_body = block(_strip_doc(sl.body), Ctx(True))
    loop = body[-1]
    if not (isinstance(loop, ast.While) and isinstance(loop.test, ast.Constant) and loop.test.value is True
            and not loop.orelse and len(loop.body) == 1 and isinstance(loop.body[0], ast.Try)):
        raise TranslateError("wait_pid: does not end in `while True:` around a single try statement")
    tr = loop.body[0]
    if tr.finalbody or len(tr.body) != 1 or len(tr.handlers) != 2 or not tr.orelse:
        raise TranslateError("wait_pid: try statement of unexpected shape")
    call = tr.body[0]
    ok = (isinstance(call, ast.Assign) and len(call.targets) == 1 and isinstance(call.targets[0], ast.Tuple)
          and [getattr(e, "id", None) for e in call.targets[0].elts] == ["retpid", "status"]
          and isinstance(call.value, ast.Call) and _is_os(call.value.func, "waitpid") and not call.value.keywords
          and len(call.value.args) == 2 and _is_name(call.value.args[0], "pid") and _is_name(call.value.args[1], "flags"))
    if not ok:
        raise TranslateError("wait_pid: try body is not `retpid, status = os.waitpid(pid, flags)`: " + _d(call))
    if [_handler_class(h) for h in tr.handlers] != ["InterruptedError", "ChildProcessError"]:
        raise TranslateError("wait_pid: handlers are not InterruptedError, ChildProcessError (in this order)")
    cx = Ctx(False)
    eintr = block(tr.handlers[0].body, cx)
    hb = tr.handlers[1].body
    if not (hb and isinstance(hb[0], ast.While) and not hb[0].orelse and isinstance(hb[0].test, ast.Call)
            and _is_name(hb[0].test.func, "_pid_exists") and len(hb[0].test.args) == 1 and not hb[0].test.keywords
            and _is_name(hb[0].test.args[0], "pid")):
        raise TranslateError("wait_pid: ChildProcessError handler does not start with `while _pid_exists(pid):`")
    ex_body = block(hb[0].body, cx)
    ex_after = block(hb[1:], cx)
    orelse = block(tr.orelse, cx)
    return ("{| g_pre := %s;\n     g_sleep := %s;\n     g_eintr := %s;\n     g_exists_body := %s;\n"
            "     g_exists_after := %s;\n     g_else := %s |}" % (pre, sleep_body, eintr, ex_body, ex_after, orelse))


def check_negsig(tree):
    """negsig_to_enum(num) returns Negsignal(num) or num itself; Negsignal is the IntEnum of the negated signal numbers
    (so the value compares equal to num: PyGen.ZNegsigEnum is the identity on numbers)"""
    fns = [n for n in tree.body if isinstance(n, ast.FunctionDef) and n.name == "negsig_to_enum"]
    if len(fns) != 1 or [a.arg for a in fns[0].args.args] != ["num"] or fns[0].decorator_list:
        raise TranslateError("negsig_to_enum: not exactly one plain def negsig_to_enum(num)")
    body = _strip_doc(fns[0].body)
    ok = (len(body) == 1 and isinstance(body[0], ast.Try) and not body[0].finalbody and not body[0].orelse
          and len(body[0].body) == 1 and isinstance(body[0].body[0], ast.Return)
          and isinstance(body[0].body[0].value, ast.Call) and _is_name(body[0].body[0].value.func, "Negsignal")
          and len(body[0].body[0].value.args) == 1 and _is_name(body[0].body[0].value.args[0], "num")
          and not body[0].body[0].value.keywords
          and len(body[0].handlers) == 1 and _handler_class(body[0].handlers[0]) == "ValueError"
          and len(body[0].handlers[0].body) == 1 and isinstance(body[0].handlers[0].body[0], ast.Return)
          and _is_name(body[0].handlers[0].body[0].value, "num"))
    if not ok:
        raise TranslateError("negsig_to_enum: body is not try: return Negsignal(num) / except ValueError: return num")
    asg = [n for n in tree.body if isinstance(n, ast.Assign) and len(n.targets) == 1 and _is_name(n.targets[0], "Negsignal")]
    if len(asg) != 1:
        raise TranslateError("Negsignal: not exactly one module-level assignment")
    want = "Call(func=Attribute(value=Name(id='enum'), attr='IntEnum'), args=[Constant(value='Negsignal'), " \
           "DictComp(key=Attribute(value=Name(id='x'), attr='name'), value=UnaryOp(op=USub(), " \
           "operand=Attribute(value=Name(id='x'), attr='value')), generators=[comprehension(target=Name(id='x'), " \
           "iter=Attribute(value=Name(id='signal'), attr='Signals'), ifs=[], is_async=0)])], keywords=[])"
    got = ast.dump(asg[0].value).replace(", ctx=Load()", "").replace(", ctx=Store()", "")
    if got != want:
        raise TranslateError("Negsignal is not enum.IntEnum('Negsignal', {x.name: -x.value for x in signal.Signals}): " + got[:300])


def generate(impl_dir):
    src = open(os.path.join(impl_dir, "psutil", "_psposix.py")).read()
    tree = ast.parse(src)
    fns = [n for n in tree.body if isinstance(n, ast.FunctionDef) and n.name == "wait_pid"]
    if len(fns) != 1:
        raise TranslateError("wait_pid: %d module-level definitions" % len(fns))
    # nothing may rebind the names the translation relies on
    for n in ast.walk(tree):
        if isinstance(n, (ast.Global, ast.Nonlocal)):
            raise TranslateError("global/nonlocal statement in _psposix.py")
    check_negsig(tree)
    prog = translate_wait_pid(fns[0])
    return "\n".join([
        "(* GENERATED by props/_c15_gen.py (C15.gen_tables) from psutil/_psposix.py of the tree under check -- do not edit. *)",
        "From PV Require Import C15.PyGen.",
        "Open Scope Q_scope.", "",
        "Definition gen_wait_pid : wprog :=\n  %s." % prog, ""])


def gen_tables(impl_dir, out_dir):
    txt = generate(impl_dir)
    path = os.path.join(out_dir, "C15_Tables.v")
    os.makedirs(out_dir, exist_ok=True)
    if not os.path.exists(path) or open(path).read() != txt:
        with open(path, "w") as f:
            f.write(txt)
