"""C10 translator part: dump, from the SOURCE of the tree under test (ast, no import), every operation of
_WrapNumbers.run / _remove_dead_reminders / _add_dict that could raise between the first state update and
the cache store: all Call nodes (by name), raise and assert statements.  Written to coq/Gen/C10_Tables.v;
the theorem C10_commit_section_cannot_raise checks every entry against the list of non-raising builtins.
Only the commit sections are listed (between the first possible state update and the last one), so that logging
or checks placed before the first update do not trip the theorem.
Fails closed when the class or one of the three functions is missing."""
import ast
import os

FUNCS = ("run", "_remove_dead_reminders", "_add_dict")


def call_name(node):
    f = node.func
    if isinstance(f, ast.Name):
        return f.id
    if isinstance(f, ast.Attribute):
        return "." + f.attr
    return "<" + type(f).__name__ + ">"


def _is_self_store(st, attr=None):
    """st is  self.<attr>[...] = ...  (any attr when attr is None)"""
    if not isinstance(st, ast.Assign):
        return False
    for t in st.targets:
        if isinstance(t, ast.Subscript) and isinstance(t.value, ast.Attribute) and isinstance(t.value.value, ast.Name) \
                and t.value.value.id == "self" and (attr is None or t.value.attr == attr):
            return True
    return False


def commit_section(fn):
    """the top-level statements of fn between its first possible state update and its last one (inclusive):
       run: from the statement that calls _remove_dead_reminders to the store  self.cache[name] = ...
       _remove_dead_reminders: from the first statement containing a del to the end
       _add_dict: from the first store into self.<dict>[name] to the end"""
    body = fn.body
    if fn.name == "run":
        starts = [i for i, st in enumerate(body) if any(isinstance(n, ast.Call) and call_name(n) == "._remove_dead_reminders" for n in ast.walk(st))]
        ends = [i for i, st in enumerate(body) if _is_self_store(st, "cache")]
        if not starts or not ends or ends[-1] < starts[0]:
            raise RuntimeError("C10 tables: run() has no _remove_dead_reminders call followed by a store into self.cache")
        return body[starts[0]:ends[-1] + 1]
    if fn.name == "_remove_dead_reminders":
        starts = [i for i, st in enumerate(body) if any(isinstance(n, ast.Delete) for n in ast.walk(st))]
        if not starts:
            raise RuntimeError("C10 tables: _remove_dead_reminders() has no del statement")
        return body[starts[0]:]
    starts = [i for i, st in enumerate(body) if _is_self_store(st)]
    if not starts:
        raise RuntimeError("C10 tables: _add_dict() has no store into a self.<dict>")
    return body[starts[0]:]


def ops_of(fn):
    """names of every call / raise / assert / yield in the commit section of the function, in source order"""
    out = []
    try:
        section = commit_section(fn)
    except RuntimeError as e:
        # fail closed through the theorem (an entry that is not a safe operation), not through a crash of the check
        return [(fn.lineno, "<%s>" % e)]
    for st in section:
        for node in ast.walk(st):
            if isinstance(node, ast.Call):
                out.append((node.lineno, node.col_offset, call_name(node)))
            elif isinstance(node, ast.Raise):
                out.append((node.lineno, node.col_offset, "raise"))
            elif isinstance(node, ast.Assert):
                out.append((node.lineno, node.col_offset, "assert"))
            elif isinstance(node, (ast.Await, ast.Yield, ast.YieldFrom)):
                out.append((node.lineno, node.col_offset, "yield"))
    return [(l, n) for l, _c, n in sorted(out)]


def wrap_functions(path):
    tree = ast.parse(open(path, encoding="utf-8").read(), path)
    cls = [n for n in tree.body if isinstance(n, ast.ClassDef) and n.name == "_WrapNumbers"]
    if len(cls) != 1:
        raise RuntimeError("C10 tables: class _WrapNumbers not found exactly once in %s" % path)
    fns = {n.name: n for n in cls[0].body if isinstance(n, ast.FunctionDef)}
    missing = [f for f in FUNCS if f not in fns]
    if missing:
        raise RuntimeError("C10 tables: _WrapNumbers lacks %s" % missing)
    return fns


def calls_by_line(path):
    """lineno -> names of the operations of the innermost statement header covering that line (for the harness)"""
    fns = wrap_functions(path)
    res = {}
    for name in FUNCS:
        fn = fns[name]
        for st in ast.walk(fn):
            if not isinstance(st, ast.stmt) or st is fn:
                continue
            body = getattr(st, "body", None)
            if isinstance(body, list) and body:       # compound statement: its header only
                hdr = [x for x in ast.iter_child_nodes(st) if not isinstance(x, ast.stmt)]
                last = body[0].lineno - 1
                names = []
                for h in hdr:
                    for n in ast.walk(h):
                        if isinstance(n, ast.Call):
                            names.append(call_name(n))
                for ln in range(st.lineno, max(st.lineno, last) + 1):
                    res.setdefault(ln, (name, []))[1].extend(names)
            else:
                names = []
                for n in ast.walk(st):
                    if isinstance(n, ast.Call):
                        names.append(call_name(n))
                    elif isinstance(n, ast.Raise):
                        names.append("raise")
                    elif isinstance(n, ast.Assert):
                        names.append("assert@" + name)
                for ln in range(st.lineno, (st.end_lineno or st.lineno) + 1):
                    res.setdefault(ln, (name, []))[1].extend(names)
    return res


def _tokens(node, mod_funcs, seen):
    """identifiers a handler touches: attr:<name>, name:<id> (load), store:<id>; functions of the same module that it
    calls are followed; a handler that cannot be resolved yields 'unresolved'"""
    toks = []
    for n in ast.walk(node):
        if isinstance(n, ast.Attribute):
            toks.append("attr:" + n.attr)
        elif isinstance(n, ast.Name):
            toks.append(("store:" if isinstance(n.ctx, (ast.Store, ast.Del)) else "name:") + n.id)
            if isinstance(n.ctx, ast.Load) and n.id in mod_funcs and n.id not in seen:
                seen.add(n.id)
                toks += _tokens(mod_funcs[n.id], mod_funcs, seen)
        elif isinstance(n, ast.Global):
            toks += ["store:" + x for x in n.names]
    return toks


def fork_handlers(impl_dir):
    """[(label, tokens)] for every handler passed to os.register_at_fork in psutil/_common.py and psutil/__init__.py"""
    out = []
    for rel in ("psutil/_common.py", "psutil/__init__.py"):
        path = os.path.join(impl_dir, rel)
        tree = ast.parse(open(path, encoding="utf-8").read(), path)
        mod_funcs = {n.name: n for n in ast.walk(tree) if isinstance(n, (ast.FunctionDef, ast.AsyncFunctionDef))}
        for n in ast.walk(tree):
            if not isinstance(n, ast.Call):
                continue
            f = n.func
            nm = f.attr if isinstance(f, ast.Attribute) else (f.id if isinstance(f, ast.Name) else "")
            if nm != "register_at_fork":
                continue
            args = [("arg%d" % i, a) for i, a in enumerate(n.args)] + [(k.arg or "**", k.value) for k in n.keywords]
            for kw, val in args:
                if isinstance(val, ast.Constant) and val.value is None:
                    continue
                label = "%s:%d:%s" % (rel, n.lineno, kw)
                if isinstance(val, ast.Name):
                    if val.id in mod_funcs:
                        toks = ["name:" + val.id] + _tokens(mod_funcs[val.id], mod_funcs, {val.id})
                    else:
                        toks = ["name:" + val.id, "unresolved"]
                elif isinstance(val, (ast.Attribute, ast.Lambda)):
                    toks = _tokens(val, mod_funcs, set())
                else:
                    toks = _tokens(val, mod_funcs, set()) + ["unresolved"]
                out.append((label, toks))
    return out


def _lit(s):
    return "[" + ";".join(str(b) for b in s.encode("utf-8")) + "]"


def render(fns):
    rows = []
    for name in FUNCS:
        for _ln, op in ops_of(fns[name]):
            rows.append("(%s, %s) (* %s: %s *)" % (_lit(name), _lit(op), name, op.replace("*)", "* )")))
    return ("(* GENERATED by props/_c10_tables.py from psutil/_common.py of the tree under test (ast): every call, raise,\n"
            "   assert and yield in the commit sections of _WrapNumbers.run (from the _remove_dead_reminders call to the\n"
            "   store into self.cache), _remove_dead_reminders (from its first del on) and _add_dict (from its first store on).\n"
            "   Do not edit: rewritten on every run of ./vcheck C10 when the source changes. *)\n"
            "From PV Require Import Base.Prelude.\n\n"
            "Definition gen_wrap_ops : list (list Z * list Z) :=\n  [ %s ].\n" % ";\n    ".join(rows))


def render_fork(handlers):
    rows = []
    for label, toks in handlers:
        uniq = sorted(set(toks))
        rows.append("(%s (* %s *),\n     [%s])" % (_lit(label), label, "; ".join("%s (* %s *)" % (_lit(t), t.replace("*)", "* )")) for t in uniq)))
    return ("\n(* every handler passed to os.register_at_fork in psutil/_common.py and psutil/__init__.py (file:line:keyword) with the\n"
            "   identifiers it touches: attr:<x>, name:<x> (read), store:<x> (assigned); module functions it calls are followed. *)\n"
            "Definition gen_fork_handlers : list (list Z * list (list Z)) :=\n  [ %s ].\n" % ";\n    ".join(rows))


def gen_tables(impl_dir, out_dir):
    fns = wrap_functions(os.path.join(impl_dir, "psutil", "_common.py"))
    txt = render(fns) + render_fork(fork_handlers(impl_dir))
    os.makedirs(out_dir, exist_ok=True)
    p = os.path.join(out_dir, "C10_Tables.v")
    if not os.path.exists(p) or open(p).read() != txt:
        with open(p + ".tmp", "w") as f:
            f.write(txt)
        os.replace(p + ".tmp", p)
