"""C16 -- oneshot() and as_dict() change speed, never answers; safe across threads."""
import errno
import json
import os
import subprocess

from pv import gallina as G
from pv.canon import B, Exc, T, Val, exc_name

ID = "C16"
COQ_REQUIRE = "C16.Run"
SHARD = 100
CASE_TIMEOUT = 60
VARIANT = os.environ.get("C16_VARIANT", "code_now")   # coq/C16/Model.v: code_now (fix 7b727b3, cache dict bound once per call) | code_before_fix | code_pre1948

RULE = ("hist: one real Process over a fake /proc driven by random sequences of enter / exit / nested enter / raise-in-body / "
        "method call (11 modelled methods over stat, status, smaps, statm, plus the real cmdline / environ / open_files / threads / "
        "as_dict(['cmdline']) whose answers are lists and dicts) / in-place mutation by the caller of an earlier answer (clear, append, "
        "pop, nested) / source change (new version, denied, process gone), 5-40 events, plus directed call-mutate-call-again patterns "
        "inside, nested in and after a block; "
        "values and per-call open counts of stat/status/smaps/statm compared; sched: one thread using oneshot() plus 1-2 threads "
        "calling plain methods plus a thread changing the sources, run under explicit line-level schedules (random segments, "
        "directed pre-emption patterns, and in thorough an enumeration of up to 3 pre-emption points); asdict: attrs None / "
        "non-collections / lists, tuples, sets with duplicates and unknown names, sources available / denied / gone, stubbed "
        "methods raising AccessDenied / ZombieProcess / NoSuchProcess / NotImplementedError, inside and outside a block; asdict_any: "
        "attrs collections whose elements are arbitrary hashable values (str, int, None, bool, bytes, float, NaN, tuples, instances "
        "with unusual __lt__/__repr__/__hash__, a str subclass), 1-6 unacceptable ones mixed with valid names and duplicates, in "
        "list/tuple/set/frozenset, through Process.as_dict and through process_iter(attrs=...); live: a real stopped child on the "
        "real /proc, histories over two Process objects, threads, process_iter, a change made by the child while a block is open; "
        "copyhist: copy.copy / deepcopy / pickle of the object inside and outside blocks, then kernel changes and queries of original "
        "and copies inside / outside their own blocks (copy protocol of the tree probed on every run); "
        "mgr: oneshot() context-manager OBJECTS built by p.oneshot() at one moment and entered (with / "
        "contextlib.ExitStack.enter_context) at another: built up front and nested later, built inside an open block and "
        "entered on their own after it, built outside and entered inside another block, never entered; kernel changes and read "
        "counters between the calls (systematic sweep of creation moments + random histories). "
        "Non-trivial = contains at least one method call; distinct = distinct canonical case hash.")
TRUSTED = ["correspondence harness props/C16.py, props/_c16_sched.py (sys.settrace line scheduler), props/_c16_live.py (real /proc), pv/ (fake /proc)",
           "read counting by wrapping psutil._pslinux.bcat/open_binary and attributing by calling frame",
           "hand-written model coq/C16/Model.v (tied to the code by the correspondence run only)"]
ASSUMPTIONS = ["granularity is the source line (as the property states); byte-code level pre-emption inside one line and "
               "free-threaded builds are outside the model",
               "CPython dict / attribute / RLock / generator-based context manager semantics are modelled, not verified",
               "a source reappearing after the process vanished, a single file of a live process vanishing and "
               "NotImplementedError inside as_dict are outside the claim (spec None / skipped); ppid() is covered "
               "everywhere else, including an unreadable stat and the sticky Process._gone"]
EXHAUSTIVE = {"quick": "mgr: for the base histories {two nested blocks, two sequential blocks} x 7 method triples, {three nested "
                       "blocks} x 3 triples, {blocks around an exception in the body} x 2 triples: every combination of creation "
                       "moments of the manager objects (the first-entered one up front or at entry, every other one at every "
                       "position of the history up to its entry, both orders when created together), plus never-entered managers "
                       "(props/_c16_mgr.py systematic(), 413 cases, part of every tier, never sampled)",
              "thorough": "all schedules of {enter;call;exit;enter;call;exit} || {call;call} || {source change} of the form "
                          "owner a steps, caller b steps, change, owner c steps, caller 4 steps, rest (a<=26, b<=5, c<=26 in steps "
                          "of 1 for b in {2,3}, of 5 otherwise) for 3 method pairs"}

SRC = ["stat", "status", "smaps", "statm"]
METHODS = {  # name -> (Coq constructor, source)
    "name": ("Mname", "stat"), "ppid": ("Mppid", "stat"), "cpu_times": ("Mcpu_times", "stat"), "cpu_num": ("Mcpu_num", "stat"),
    "uids": ("Muids", "status"), "gids": ("Mgids", "status"), "num_threads": ("Mnum_threads", "status"),
    "num_ctx_switches": ("Mnum_ctx", "status"), "memory_info": ("Mmemory_info", "statm"),
    "memory_full_info": ("Mmemory_full", "smaps"), "memory_maps": ("Mmemory_maps", "smaps"),
}
# real, un-memoized methods returning mutable containers whose source never changes in a case: constants in the model
CALLX = {"cmdline": 11, "environ": 12, "open_files": 13, "threads": 14, "as_dict_cmdline": 11}
MNAMES = sorted(METHODS)
PID = 4242
_IMPL_DIR = None
_ORDER_ALL = None
_COPY_TABLE = None


# ------------------------------------------------------------------ translator part
ORDER_CODE = r"""
import json, sys, psutil
from props.C16 import build_attrs
req = json.load(sys.stdin)
def memo(cls):
    # functools.wraps copies the decorator's attributes outwards, so an outer wrap_exceptions still shows them
    return sorted(n for n in dir(cls) if callable(getattr(cls, n, None)) and hasattr(getattr(cls, n), "cache_activate")
                  and hasattr(getattr(cls, n), "cache_deactivate"))
def copy_probe():
    # What copy.copy / copy.deepcopy / a pickle round trip of a Process object give, taken inside and outside a oneshot()
    # block: None if the operation raises, else [same platform object?, keeps the front-level _cache?, keeps a platform-level _cache?]
    import copy, pickle, contextlib
    out = {}
    for how in ("copy", "deepcopy", "pickle"):
        for where in ("in", "out"):
            p = psutil.Process()
            try:
                with (p.oneshot() if where == "in" else contextlib.nullcontext()):
                    p.ppid()
                    p.name()
                    c = copy.copy(p) if how == "copy" else copy.deepcopy(p) if how == "deepcopy" else pickle.loads(pickle.dumps(p))
                    out[how + "_" + where] = [c._proc is p._proc, hasattr(c, "_cache"),
                                             (c._proc is not p._proc) and hasattr(c._proc, "_cache")]
            except Exception:
                out[how + "_" + where] = None
    return out
out = {"file": psutil.__file__, "all": list(psutil._as_dict_attrnames), "orders": [], "copy": copy_probe(),
       "memo_front": memo(psutil.Process), "memo_platform": memo(psutil._psplatform.Process)}
assert isinstance(psutil._as_dict_attrnames, (set, frozenset)) and psutil._as_dict_attrnames
for kind, names in req:
    out["orders"].append(list(set(build_attrs(kind, names))))
print(json.dumps(out))
"""


def build_attrs(kind, names):
    if kind == "list":
        return list(names)
    if kind == "tuple":
        return tuple(names)
    if kind == "set":
        return set(names)
    if kind == "frozenset":
        return frozenset(names)
    raise ValueError(kind)


def _orders(reqs):
    """Iteration orders under the worker's hash seed, computed against the implementation under test."""
    here = os.path.dirname(os.path.dirname(os.path.abspath(__file__)))
    env = dict(os.environ)
    env["PYTHONPATH"] = (_IMPL_DIR or "/repo") + os.pathsep + here
    env["PYTHONHASHSEED"] = "0"
    env["PYTHONDONTWRITEBYTECODE"] = "1"
    r = subprocess.run(["/venv/bin/python", "-c", ORDER_CODE], input=json.dumps(reqs), env=env, cwd="/",
                       stdout=subprocess.PIPE, stderr=subprocess.PIPE, text=True, timeout=120)
    if r.returncode != 0:
        raise RuntimeError("C16 order dump failed:\n" + r.stderr[-2000:])
    return json.loads(r.stdout.strip().splitlines()[-1])


def gen_tables(impl_dir, out_dir):
    """coq/Gen/C16_Tables.v: psutil._as_dict_attrnames of the tree under test (sorted)."""
    global _IMPL_DIR, _ORDER_ALL, _COPY_TABLE
    _IMPL_DIR = impl_dir
    d = _orders([])
    if not os.path.realpath(d["file"]).startswith(os.path.realpath(impl_dir)):
        raise RuntimeError("C16 table dump imported psutil from %s" % d["file"])
    _ORDER_ALL = d["all"]
    _COPY_TABLE = d["copy"]
    names = sorted(d["all"])
    rows = ";\n   ".join("%s (* %s *)" % (G.by(n), n) for n in names)

    def lst(xs):
        return "[" + ";\n   ".join("%s (* %s *)" % (G.by(n), n) for n in xs) + "]"
    txt = ("(* GENERATED by props/C16.py from the tree under test. Do not edit. *)\n"
           "From PV Require Import Base.Prelude.\n\n"
           "(* psutil._as_dict_attrnames *)\n"
           "Definition as_dict_attrnames : list (list Z) :=\n  [%s].\n\n"
           "(* methods of psutil.Process decorated with memoize_when_activated (they carry cache_activate / cache_deactivate) *)\n"
           "Definition memoized_front : list (list Z) :=\n  %s.\n\n"
           "(* the same for the platform class psutil._psplatform.Process *)\n"
           "Definition memoized_platform : list (list Z) :=\n  %s.\n\n"
           "(* copy.copy / copy.deepcopy / pickle round trip of a Process object, each inside / outside a block: None = raises, else\n"
           "   (same platform object, keeps the front-level _cache, keeps a platform-level _cache) *)\n"
           "Definition copy_table : list (option (bool * bool * bool)) :=\n  [%s].\n"
           % (rows, lst(d["memo_front"]), lst(d["memo_platform"]),
              "; ".join("None" if d["copy"][h] is None else "Some (%s, %s, %s)" % tuple(G.bo(x) for x in d["copy"][h])
                        for h in COPY_KEYS)))
    os.makedirs(out_dir, exist_ok=True)
    path = os.path.join(out_dir, "C16_Tables.v")
    old = open(path).read() if os.path.exists(path) else None
    if old != txt:
        with open(path + ".tmp", "w") as f:
            f.write(txt)
        os.replace(path + ".tmp", path)
    return path


# ------------------------------------------------------------------ generators
def _rand_state(rng, ver):
    k = rng.random()
    if k < 0.8:
        return ["A", ver]
    return ["D"]


def _gen_hist(rng, n):
    ver = {s: 1 for s in SRC}
    st = {s: ["A", 1] for s in SRC}
    init = [list(st[s]) for s in SRC]
    ops, depth, dead, nres = [], 0, False, 0
    for _ in range(n):
        k = rng.random()
        if k < 0.17:
            ops.append(["enter"]); depth += 1
        elif k < 0.30:
            ops.append(["exit"]); depth = max(0, depth - 1)
        elif k < 0.34:
            ops.append(["raise"]); depth = 0
        elif k < 0.50 and not dead:
            s = rng.choice(SRC)
            ver[s] += 1
            st[s] = _rand_state(rng, ver[s])
            ops.append(["set", s, list(st[s])])
        elif k < 0.52 and not dead:
            ops.append(["gone"]); dead = True
            for s in SRC:
                st[s] = ["G"]
        elif k < 0.54:
            ops.append(["pid"])
        elif k < 0.64 and not dead:
            ops.append(["callx", rng.choice(sorted(CALLX))]); nres += 1
            continue
        elif k < 0.72 and nres:
            ops.append(["mut", rng.randrange(nres), rng.choice(["clear", "append", "pop", "nested"])])
        else:
            m = rng.choice(MNAMES)
            ops.append(["call", m])
            nres += 1
            continue
        if ops[-1][0] == "pid":
            nres += 1
    return init, ops


def _gen_mut_directed(rng):
    """call; mutate the answer in place; call again in the same block; nested as_dict; after the block."""
    x = rng.choice(sorted(CALLX) + ["memory_maps", "memory_maps"])
    call = ["call", x] if x == "memory_maps" else ["callx", x]
    how = rng.choice(["clear", "append", "pop", "nested"])
    ops = [["enter"], call, ["mut", 0, how], call]
    n = 2
    if rng.random() < 0.5:
        ops += [["callx", "as_dict_cmdline"], ["mut", n, rng.choice(["clear", "nested"])], ["callx", "as_dict_cmdline"]]
        n += 2
    if rng.random() < 0.5:
        ops += [["enter"], call, ["mut", n, how], ["exit"], call]
        n += 2
    ops += [["call", "name"], rng.choice([["exit"], ["raise"]]), call, ["mut", n + 1, how], call]
    return [["A", 1]] * 4, ops


def _drain(progs):
    tail = []
    for i, p in enumerate(progs):
        tail += [i] * (10 * len(p) + 6)
    return tail


def _sched_case(progs, sched, cls, init=None):
    return {"kind": "sched", "cls": cls, "init": init or [["A", 1]] * 4, "progs": progs, "sched": sched + _drain(progs)}


def _owner_prog(rng, nblocks, calls):
    p = []
    for _ in range(nblocks):
        p.append(["enter"])
        if rng.random() < 0.2:
            p.append(["enter"])
        for _ in range(rng.randint(1, calls)):
            p.append(["call", rng.choice(MNAMES)])
        p.append(["raise"] if rng.random() < 0.2 else ["exit"])
    return p


def _env_prog(rng, n):
    ver = {s: 1 for s in SRC}
    p = []
    for _ in range(n):
        s = rng.choice(SRC)
        ver[s] += 1
        p.append(["set", s, ["A", ver[s]] if rng.random() < 0.85 else ["D"]])
    return p


def _fix_ppid(progs):
    """ppid() with an unreadable stat is outside the model: keep stat readable in generated schedules."""
    denies_stat = any(o[0] == "set" and o[1] == "stat" and o[2] == ["D"] for p in progs for o in p)
    if denies_stat:
        for p in progs:
            for o in p:
                if o[0] == "call" and o[1] == "ppid":
                    o[1] = "cpu_num"
    return progs


def _rand_sched(rng, nthreads, total, max_seg):
    out = []
    while len(out) < total:
        out += [rng.randrange(nthreads)] * rng.randint(1, max_seg)
    return out


def directed_stale(m1, m2, a, b, c, d=4):
    """owner: two blocks; caller: two calls; env: one change.  owner a steps, caller b, change, owner c, caller d, rest."""
    src = METHODS[m2][1]
    progs = [[["enter"], ["call", m1], ["exit"], ["enter"], ["call", m1], ["exit"]],
             [["call", m2], ["call", m2]],
             [["set", src, ["A", 2]]]]
    return progs, [0] * a + [1] * b + [2] + [0] * c + [1] * d


def gen_cases(rng, tier):
    cases = []
    n_hist = {"quick": 440, "thorough": 12000, "search": 1500}[tier]
    n_sched = {"quick": 240, "thorough": 4000, "search": 600}[tier]
    n_ad = {"quick": 120, "thorough": 1500, "search": 300}[tier]
    # ---- single-thread histories
    for _ in range(n_hist):
        init, ops = _gen_hist(rng, rng.choice([5, 8, 12, 20, 40]))
        ncall = sum(1 for o in ops if o[0] in ("call", "callx"))
        nmut = sum(1 for o in ops if o[0] == "mut")
        cases.append({"kind": "hist", "cls": ("hist-mut" if nmut else "hist") if ncall else "trivial", "init": init, "ops": ops})
    for _ in range({"quick": 60, "thorough": 1500, "search": 400}[tier]):
        init, ops = _gen_mut_directed(rng)
        cases.append({"kind": "hist", "cls": "hist-mut-directed", "init": init, "ops": ops})
    # ---- thread schedules
    for _ in range(n_sched):
        nplain = rng.choice([1, 1, 2])
        progs = [_owner_prog(rng, rng.choice([1, 2, 2, 3]), 2)]
        for _ in range(nplain):
            progs.append([["call", rng.choice(MNAMES)] for _ in range(rng.randint(1, 3))])
        progs.append(_env_prog(rng, rng.randint(0, 3)))
        total = sum(8 * len(p) for p in progs)
        cases.append(_sched_case(progs, _rand_sched(rng, len(progs), total, rng.choice([1, 2, 4, 9])), "sched-random"))
    # directed: a caller pre-empted between its lookup, its read and its store while the owner leaves / re-enters
    pairs = [("cpu_num", "cpu_num"), ("uids", "gids"), ("memory_full_info", "memory_full_info"), ("ppid", "ppid"),
             ("cpu_times", "name")]
    if tier == "thorough":
        for m1, m2 in pairs[:3]:
            for a in range(0, 27):
                for b in range(0, 6):
                    for c in range(0, 27, 1 if b in (2, 3) else 5):
                        progs, s = directed_stale(m1, m2, a, b, c)
                        cases.append(_sched_case(progs, s, "sched-directed"))
    else:
        for m1, m2 in pairs:
            for _ in range(12 if tier == "quick" else 40):
                progs, s = directed_stale(m1, m2, rng.randint(0, 26), rng.randint(0, 5), rng.randint(0, 26))
                cases.append(_sched_case(progs, s, "sched-directed"))
    # ---- as_dict
    reqs, ad = [], []
    for _ in range(n_ad):
        k = rng.random()
        valid = _ORDER_ALL or sorted(METHODS) + ["pid"]
        stubs = {}
        for nme in valid:
            r = rng.random()
            if r < 0.04:
                stubs[nme] = ["exc", rng.choice(["AccessDenied", "ZombieProcess"])]
            elif r < 0.05:
                stubs[nme] = ["exc", rng.choice(["NoSuchProcess", "NotImplementedError"])]
            elif r < 0.3:
                stubs[nme] = ["val", rng.randint(0, 9)]
        init = [["A", rng.randint(1, 5)] if rng.random() < 0.8 else ["D"] for _ in SRC]
        pre = rng.choice([[], [], [], [["enter"]], [["enter"], ["call", "cpu_num"]], [["call", "uids"]], [["gone"]]])
        c = {"kind": "asdict", "cls": "asdict", "init": init, "pre": pre, "stubs": stubs}
        if k < 0.12:
            c["attrs"] = None
            c["cls"] = "asdict-all"
        elif k < 0.24:
            c["attrs"] = ["notcoll", rng.choice(["int", "str", "dict", "gen", "bytes", "float"])]
            c["cls"] = "asdict-typeerror"
        else:
            n = rng.choice([0, 1, 2, 3, 5, 8])
            pool = MNAMES * 2 + ["pid"] + list(valid)
            names = [rng.choice(pool) for _ in range(n)]
            if rng.random() < 0.2:
                names.insert(rng.randint(0, len(names)), rng.choice(["nope", "oneshot", "kill", "as_dict", "", "Name", "_pid"]))
                c["cls"] = "asdict-valueerror"
            elif n == 0:
                c["cls"] = "asdict-all"
            if rng.random() < 0.3 and names:
                names.append(rng.choice(names))
            c["attrs"] = [rng.choice(["list", "tuple", "set", "frozenset"]), names]
            reqs.append(c["attrs"])
        ad.append(c)
    if ad:
        d = _orders(reqs)
        it = iter(d["orders"])
        for c in ad:
            c["valid"] = d["all"]
            if c["attrs"] is not None and c["attrs"][0] != "notcoll":
                c["order"] = next(it)
        cases += ad
        cases += _gen_any(rng, {"quick": 80, "thorough": 1500, "search": 400}[tier], d["all"])
    # ---- oneshot() manager OBJECTS created ahead of / apart from their entry (systematic, every tier, never sampled)
    from props import _c16_mgr
    cases += _c16_mgr.systematic(METHODS)
    for _ in range({"quick": 120, "thorough": 4000, "search": 600}[tier]):
        cases.append(_c16_mgr.random_case(rng, METHODS, rng.choice([8, 12, 20, 30])))
    cases += _gen_live(rng, {"quick": 8, "thorough": 40, "search": 8}[tier])
    cases += _gen_copy(rng, {"quick": 60, "thorough": 1200, "search": 300}[tier],
                       _COPY_TABLE or COPY_TABLE_OF_RECORD)
    return cases


# ------------------------------------------------------------------ attrs with elements of any (hashable) type
ODD_STR = ["nope", "oneshot", "kill", "as_dict", "", "Name", "_pid", "foo", "bar", "a b", "n\u00e4me", "{}", "%s"]
OBJ_KINDS = ["plain", "lt_raises", "repr_odd", "hash_zero", "hash_like_name", "str_subclass_odd"]


def _odd_atom(rng):
    k = rng.randrange(10)
    if k == 0:
        return ["s", rng.choice(ODD_STR)]
    if k == 1:
        return ["i", rng.choice([0, 1, -1, 3, 7, 2 ** 70])]
    if k == 2:
        return ["none"]
    if k == 3:
        return ["bool", rng.random() < 0.5]
    if k == 4:
        return ["b", rng.choice([b"name", b"pid", b"", b"\xff"]).hex()]
    if k == 5:
        return ["f", rng.choice([[7, 2], [1, 1], [0, 1], [-1, 4], [3, 1]])]
    if k == 6:
        return ["nan", rng.randrange(3)]
    if k == 7:
        return ["obj", rng.randrange(4), rng.choice(OBJ_KINDS)]
    if k == 8:
        return ["s", rng.choice(ODD_STR)]
    return ["i", rng.randrange(5)]


def _odd_elem(rng):
    if rng.random() < 0.15:
        return ["t", [_odd_atom(rng) if rng.random() < 0.7 else ["s", rng.choice(MNAMES)] for _ in range(rng.choice([0, 1, 2, 3]))]]
    return _odd_atom(rng)


def _gen_any(rng, n, valid):
    out = []
    fixed = [  # the shapes named in the report that extended this generator
        ["list", [["s", "foo"], ["i", 1]]], ["list", [["s", "foo"], ["none"]]], ["tuple", [["s", "bar"], ["b", b"name".hex()]]],
        ["set", [["s", "name"], ["s", "pid"], ["s", "nope"], ["f", [7, 2]]]], ["frozenset", [["s", "kill"], ["i", 7]]],
        ["list", [["t", [["s", "a"]]], ["s", "b"]]], ["list", [["nan", 0], ["nan", 1], ["nan", 0], ["s", "name"]]],
        ["list", [["obj", 0, "lt_raises"], ["obj", 1, "repr_odd"], ["obj", 2, "hash_like_name"], ["s", "pid"]]],
        ["tuple", [["i", 1], ["bool", True], ["f", [1, 1]]]], ["list", [["s", "cpu_times"], ["s", "name"], ["i", 3], ["none"], ["s", "x"]]],
    ]
    for i in range(n):
        if i < len(fixed):
            cont, elems = fixed[i]
        else:
            cont = rng.choice(["list", "tuple", "set", "frozenset"])
            nbad = rng.choice([1, 2, 2, 3, 4, 6])
            elems = [_odd_elem(rng) for _ in range(nbad)] + [["s", rng.choice(MNAMES + ["pid"] + list(valid))]
                                                            for _ in range(rng.choice([0, 0, 1, 2, 4]))]
            if rng.random() < 0.3:
                elems.append(rng.choice(elems))
            rng.shuffle(elems)
        # an element is acceptable iff it is a str in the table; make sure at least one is not
        if all(e[0] == "s" and e[1] in valid for e in elems):
            elems.append(["i", 1])
        via = "process_iter" if rng.random() < 0.25 else "as_dict"
        pre = [] if via == "process_iter" else rng.choice([[], [], [["enter"]], [["enter"], ["call", "cpu_num"]]])
        nbad = sum(1 for e in elems if not (e[0] == "s" and e[1] in valid))
        kinds = sorted({e[0] for e in elems if not (e[0] == "s" and e[1] in valid)})
        out.append({"kind": "asdict_any", "cls": "asdict-any-%s-%s" % ("1bad" if nbad == 1 else "manybad", "mixed" if len(kinds) > 1 else kinds[0]),
                    "init": [["A", rng.randint(1, 5)] for _ in SRC], "pre": pre, "valid": list(valid), "container": cont,
                    "elems": elems, "via": via})
    # a non-collection through process_iter
    for nc in ["int", "str", "dict", "bytes"][: max(1, n // 20)]:
        out.append({"kind": "asdict_any", "cls": "asdict-any-typeerror", "init": [["A", 1]] * 4, "pre": [], "valid": list(valid),
                    "container": "notcoll", "elems": nc, "via": "process_iter"})
    return out


# ------------------------------------------------------------------ live cases: a real, stopped child on the real /proc
# method -> (model method whose read counts it must show, files of /proc/<pid> it opens outside a block)
LIVE = {
    "name": ("Mname", {"stat"}), "status": ("Mname", {"stat"}), "terminal": ("Mname", {"stat"}), "ppid": ("Mppid", {"stat"}),
    "cpu_times": ("Mcpu_times", {"stat"}), "cpu_num": ("Mcpu_num", {"stat"}), "create_time": ("Mname", {"stat"}),
    "uids": ("Muids", {"status"}), "gids": ("Mgids", {"status"}), "num_threads": ("Mnum_threads", {"status"}),
    "num_ctx_switches": ("Mnum_ctx", {"status"}), "memory_info": ("Mmemory_info", {"statm"}),
    "memory_percent": ("Mmemory_info", {"statm"}), "memory_full_info": ("Mmemory_full", {"smaps", "statm"}),
    "memory_maps": ("Mmemory_maps", {"smaps"}),
}
LIVE_FILES = ["stat", "status", "smaps", "statm", "smaps_rollup"]


def _gen_live(rng, n):
    out = []
    names = sorted(LIVE)
    for i in range(n):
        ops, depth = [], [0, 0]
        for _ in range(rng.choice([10, 16, 24])):
            ob = 0 if rng.random() < 0.7 else 1
            k = rng.random()
            if k < 0.15:
                ops.append([ob, "enter"]); depth[ob] += 1
            elif k < 0.27:
                ops.append([ob, "exit"]); depth[ob] = max(0, depth[ob] - 1)
            elif k < 0.31:
                ops.append([ob, "raise"]); depth[ob] = 0
            elif k < 0.40:
                ops.append([ob, "asdict", sorted(rng.sample(names, rng.choice([1, 2, 4, 7])))])
            else:
                ops.append([ob, "call", rng.choice(names)])
        out.append({"kind": "live", "cls": "live", "ops": ops, "threads": i % 3 == 0, "change": i % 2 == 0, "iter": i % 4 == 1})
    return out


# ------------------------------------------------------------------ copies of a Process object
HOWS = ["copy", "deepcopy", "pickle"]
COPY_KEYS = ["copy_in", "copy_out", "deepcopy_in", "deepcopy_out", "pickle_in", "pickle_out"]
COPY_TABLE_OF_RECORD = {"copy_in": [True, False, False], "copy_out": [True, False, False], "deepcopy_in": None,
                        "deepcopy_out": None, "pickle_in": None, "pickle_out": None}


def _gen_copy(rng, n, table):
    """Histories over several objects: copy inside / outside a block, change the kernel state, query original and copy
    inside / outside blocks.  A copy always takes the next object index; if the operation raises there is no object there."""
    out = []
    names = [m for m in MNAMES]
    for i in range(n):
        how = HOWS[i % 3] if i % 2 == 0 else rng.choice(HOWS)
        x, y = rng.choice(names), rng.choice(names)
        ver = {s_: 1 for s_ in SRC}

        def bump(srcs=None):
            ops_ = []
            for s_ in (srcs or SRC):
                ver[s_] += 1
                ops_.append(["on", 0, ["set", s_, ["A", ver[s_]]]])
            return ops_
        shape = i % 6
        if shape == 0:      # copy inside a block, the original leaves, the kernel changes, the copy is asked (for ever)
            ops = [["on", 0, ["enter"]], ["on", 0, ["call", x]], ["on", 0, ["call", y]], ["copy", 0, how], ["on", 0, ["exit"]]] + bump() + [
                ["on", 1, ["call", x]], ["on", 1, ["call", y]], ["on", 0, ["call", x]]] + bump() + [
                ["on", 1, ["call", x]], ["on", 1, ["enter"]], ["on", 1, ["call", y]], ["on", 1, ["exit"]], ["on", 1, ["call", y]]]
        elif shape == 1:    # copy outside a block
            ops = [["on", 0, ["call", x]], ["copy", 0, how], ["on", 0, ["enter"]], ["on", 0, ["call", x]]] + bump() + [
                ["on", 1, ["call", x]], ["on", 1, ["enter"]], ["on", 1, ["call", y]], ["on", 0, ["call", y]], ["on", 1, ["exit"]],
                ["on", 0, ["call", x]], ["on", 0, ["exit"]]] + bump() + [["on", 0, ["call", x]], ["on", 1, ["call", x]]]
        elif shape == 2:    # the copy opens and leaves its own block while the original is inside
            ops = [["on", 0, ["enter"]], ["on", 0, ["call", x]], ["copy", 0, how], ["on", 1, ["enter"]], ["on", 1, ["call", y]],
                   ["on", 1, ["raise"]]] + bump() + [["on", 0, ["call", x]], ["on", 0, ["call", y]], ["on", 0, ["exit"]],
                   ["on", 0, ["call", x]], ["on", 1, ["call", x]]]
        elif shape == 3:    # a copy of a copy, nested blocks
            ops = [["on", 0, ["enter"]], ["on", 0, ["enter"]], ["on", 0, ["call", x]], ["copy", 0, how], ["copy", 1, rng.choice(HOWS)],
                   ["on", 0, ["exit"]], ["on", 0, ["exit"]]] + bump() + [["on", 2, ["call", x]], ["on", 1, ["call", x]],
                   ["on", 0, ["call", x]], ["on", 2, ["enter"]], ["on", 2, ["call", y]], ["on", 2, ["exit"]]]
        else:
            ops, nobj = [], 1
            for _ in range(rng.choice([10, 16, 24])):
                k = rng.random()
                ob = rng.randrange(nobj)
                if k < 0.15 and nobj < 4:
                    ops.append(["copy", ob, rng.choice(HOWS)]); nobj += 1
                elif k < 0.30:
                    ops.append(["on", ob, ["enter"]])
                elif k < 0.42:
                    ops.append(["on", ob, ["exit"]])
                elif k < 0.46:
                    ops.append(["on", ob, ["raise"]])
                elif k < 0.60:
                    ops += bump([rng.choice(SRC)])
                else:
                    ops.append(["on", ob, ["call", rng.choice(names)]])
        out.append({"kind": "copyhist", "cls": "copy-%s-%d" % (how, shape), "init": [["A", 1]] * 4, "ops": ops, "table": table})
    return out


# ------------------------------------------------------------------ Coq terms
def _st(s):
    if s[0] == "A":
        return "(SAvail %d)" % s[1]
    return {"D": "SDenied", "G": "SGone"}[s[0]]


def _src(s):
    return {"stat": "Stat", "status": "Status", "smaps": "Smaps", "statm": "Statm"}[s]


def _outc(o):
    if o[0] == "val":
        return "(Val %d%%nat)" % o[1]
    return "(Exc %s)" % o[1]


def _op(o):
    k = o[0]
    if k == "enter":
        return "OEnter"
    if k == "exit":
        return "OExit"
    if k == "raise":
        return "ORaise"
    if k == "call":
        return "(OCall (CM %s))" % METHODS[o[1]][0]
    if k == "pid":
        return "(OCall CPid)"
    if k == "livecall":
        return "(OCall (CM %s))" % o[1]
    if k == "callx":
        c = "(OCall (CStub (Val %d%%nat)))" % CALLX[o[1]]
        # as_dict(['cmdline']) = its own (possibly nested) block around the one call
        return "OEnter; %s; OExit" % c if o[1] == "as_dict_cmdline" else c
    if k == "mut":
        return None    # what the caller does to an answer is not an event of the model (C16_alias_free)
    if k == "stub":
        return "(OCall (CStub %s))" % _outc(o[1])
    if k == "set":
        return "(OEnv (ESet %s %s))" % (_src(o[1]), _st(o[2]))
    if k == "gone":
        return "(OEnv EGone)"
    raise ValueError(k)


def _ops(ops):
    return G.lst([x for x in (_op(o) for o in ops) if x is not None])


def _init(case):
    return G.lst([_st(s) for s in case["init"]])


def _atom(e):
    k = e[0]
    if k == "s":
        return "(EStr %s)" % G.by(e[1])
    if k == "i":
        return "(EInt %s)" % G.z(e[1])
    if k == "none":
        return "ENone"
    if k == "bool":
        return "(EBool %s)" % G.bo(e[1])
    if k == "b":
        return "(EBytes %s)" % G.by(bytes.fromhex(e[1]))
    if k == "f":
        return "(EFloat %s %s)" % (G.z(e[1][0]), G.z(e[1][1]))
    if k == "nan":
        return "(ENaN %s)" % G.z(e[1])
    if k == "obj":
        return "(EObj %s)" % G.z(e[1])
    raise ValueError(k)


def _elem(e):
    if e[0] == "t":
        return "(NTuple %s)" % G.lst([_atom(x) for x in e[1]])
    return "(NA %s)" % _atom(e)


def _live_model_ops(case, ob):
    """The history of one Process object in model terms (sources never change: the child is stopped)."""
    out, seen_ctime = [], False
    for o in case["ops"]:
        if o[0] != ob:
            continue
        k = o[1]
        if k in ("enter", "exit", "raise"):
            out.append([k])
        elif k == "call":
            if o[2] == "create_time":      # Process.create_time() keeps its first answer for good
                out.append(["livecall", "Mname"] if not seen_ctime else ["pid"])
                seen_ctime = True
            else:
                out.append(["livecall", LIVE[o[2]][0]])
        elif k == "asdict":
            out.append(["enter"])
            for nme in o[2]:
                if nme == "create_time":
                    out.append(["livecall", "Mname"] if not seen_ctime else ["pid"])
                    seen_ctime = True
                else:
                    out.append(["livecall", LIVE[nme][0]])
            out.append(["exit"])
    return out


def coq_term(case):
    k = case["kind"]
    if k == "hist":
        return "run_hist %s %s %s %d%%nat" % (VARIANT, _init(case), _ops(case["ops"]), 10 * (len(case["ops"]) + 2 * sum(1 for o in case["ops"] if o[0] == "callx")) + 6)
    if k == "mgr":
        from props import _c16_mgr
        return "run_mgr %s %s" % (_init(case), G.lst([_c16_mgr.coq_op(o, _op) for o in case["ops"]]))
    if k == "sched":
        progs = G.lst([_ops(p) for p in case["progs"]])
        return "run_threads %s %s %s [%s]%%nat" % (VARIANT, _init(case), progs, ";".join(str(t) for t in case["sched"]))
    if k == "copyhist":
        if _COPY_TABLE is not None:
            case["table"] = _COPY_TABLE      # always the copy protocol of the tree under test (corpus / witness cases too)
        ms = []
        for o in case["ops"]:
            if o[0] == "on":
                ms.append("MOn %d%%nat %s" % (o[1], _op(o[2])))
            else:
                ds = ["None" if d is None else "(Some (mkCd %s %s %s))" % tuple(G.bo(x) for x in d)
                      for d in (case["table"][o[2] + "_in"], case["table"][o[2] + "_out"])]
                ms.append("MCopy %d%%nat %s %s" % (o[1], ds[0], ds[1]))
        return "run_copy %s %s" % (_init(case), G.lst(ms))
    if k == "live":
        hs = [_live_model_ops(case, ob) for ob in (0, 1)]
        return "JL [%s]" % "; ".join("run_hist %s [SAvail 1; SAvail 1; SAvail 1; SAvail 1] %s %d%%nat" % (VARIANT, _ops(h), 10 * len(h) + 6)
                                      for h in hs)
    if k == "asdict_any":
        valid = case["valid"]
        tbl = ["(%s, %s)" % (G.by(n), "(CM %s)" % METHODS[n][0] if n in METHODS else "CPid" if n == "pid" else "(CStub (Val 0%nat))")
               for n in valid]
        attrs = "PNotColl" if case["container"] == "notcoll" else "(PColl %s)" % G.lst([_elem(e) for e in case["elems"]])
        return "run_asdict_any %s %s %s %s %s" % (_init(case), _ops(case["pre"]),
                                                  G.lst([G.by(n) for n in valid]), G.lst(tbl), attrs)
    if k == "asdict":
        valid = case["valid"]
        tbl = []
        for nme in valid:
            if nme in METHODS:
                c = "(CM %s)" % METHODS[nme][0]
            elif nme == "pid":
                c = "CPid"
            else:
                c = "(CStub %s)" % _outc(case["stubs"].get(nme, ["val", 0]))
            tbl.append("(%s, %s)" % (G.by(nme), c))
        a = case["attrs"]
        if a is None:
            attrs = "ANone"
        elif a[0] == "notcoll":
            attrs = "ANotColl"
        else:
            # iteration order of set(attrs) first, the remaining (duplicate) occurrences after it
            attrs = "(AColl %s)" % G.lst([G.by(n) for n in case["order"] + list(a[1])])
        return "run_asdict %s %s %s %s %s" % (_init(case), _ops(case["pre"]),
                                              G.lst([G.by(n) for n in valid]), G.lst(tbl), attrs)
    raise ValueError(k)


def coq_struct(case, raw):
    k = case["kind"]
    if k == "hist":
        return {"model": {"res": raw[0], "ptrs": raw[2]}, "done": raw[1], "seq": {"res": raw[3], "ptrs": raw[4]},
                "spec": raw[5]}
    if k == "mgr":
        return {"model": None if raw[0] is None else {"res": raw[0][0], "ptrs": raw[0][1]}, "done": True,
                "seq": {"res": raw[1][0], "ptrs": raw[1][1]}, "spec": raw[2]}
    if k == "sched":
        threads = [[[r[0], r[1]] for r in th] for th in raw[0]]
        return {"model": {"threads": threads, "ptrs": raw[2]}, "done": raw[1],
                "allowed": [[r[2] for r in th] for th in raw[0]],
                "model_ok": all(r[3] for th in raw[0] for r in th), "spec": None}
    if k in ("asdict", "asdict_any"):
        return {"model": [raw[0], raw[1], raw[2]], "spec": raw[3]}
    if k == "copyhist":
        return {"model": {"res": [[r[0], r[1]] for r in raw[0]], "ptrs": raw[1]}, "spec": None,
                "allowed": [r[2] for r in raw[0]], "model_ok": all(r[3] for r in raw[0])}
    if k == "live":
        return {"model": T("Live"), "spec": None, "counts": [[x[1] for x in r[5]] for r in raw], "done": [r[1] for r in raw]}
    raise ValueError(k)


def _block_toggled_under_open_block(ops):
    """Exactly the defect's class: some object opens or leaves its OUTERMOST block while another object that shares its
    platform object (original and shallow copies of it) is inside a block."""
    depth = [0]                      # all objects of such a history share one platform object
    for o in ops:
        if o[0] == "copy":
            depth.append(0)
            continue
        ob, op = o[1], o[2][0]
        if ob >= len(depth):
            continue
        others_inside = any(d > 0 for i, d in enumerate(depth) if i != ob)
        if op == "enter":
            if depth[ob] == 0 and others_inside:
                return True
            depth[ob] += 1
        elif op == "exit" and depth[ob] > 0:
            depth[ob] -= 1
            if depth[ob] == 0 and others_inside:
                return True
        elif op == "raise" and depth[ob] > 0:
            depth[ob] = 0
            if others_inside:
                return True
    return False


def finding_key(case, coq):
    if case["kind"] == "copyhist" and not coq.get("model_ok", True):
        # the tree's own copy protocol (as probed) lets a copy answer from a block that is no longer open
        t = case["table"]
        others = any(o[0] == "copy" and o[2] != "copy" and (t.get(o[2] + "_in") or t.get(o[2] + "_out")) for o in case["ops"])
        if t.get("copy_in") == [True, True, False] and t.get("copy_out") == [True, False, False] and not others:
            return "shallow-copy-keeps-front-cache"
        if t.get("copy_in") == [True, False, False] and t.get("copy_out") == [True, False, False] and not others \
                and _block_toggled_under_open_block(case["ops"]):
            # the copy refers to the same platform object: a block entered / left on one of them resets / deletes the
            # platform-level cache of a block the other one is still in
            return "shallow-copy-shares-platform-object"
        return None
    if case["kind"] == "sched" and not coq.get("model_ok", True):
        # the model (code as written) itself gives an answer the property does not allow: a value read before
        # the current block, stored into the block's cache by a caller that looked up an earlier block's cache
        return "stale-store-across-blocks"
    return None


def _has_oom(x):
    if isinstance(x, dict):
        return x.get("t") == "OutOfModel" or any(_has_oom(v) for v in x.get("a", [])) or any(
            _has_oom(v) for k, v in x.items() if k not in ("t", "a"))
    if isinstance(x, list):
        return any(_has_oom(v) for v in x)
    return False


def judge(case, coq, impl):
    from pv.core import Verdict
    if isinstance(impl, dict) and impl.get("t") == "Skip":
        return Verdict("skip", str(impl.get("a")))
    if _has_oom(coq["model"]):
        return Verdict("skip", "outside the model")
    k = case["kind"]
    errs = impl.get("errs") if isinstance(impl, dict) else (impl[3] if isinstance(impl, list) and len(impl) > 3 else None)
    if errs:
        return Verdict("violation", "oneshot() itself raised while being entered / left: %r" % (errs,))
    if k == "copyhist":
        if len(impl["res"]) != len(coq["allowed"]) and impl == coq["model"]:
            return Verdict("corr", "result count")
        for i, r in enumerate(impl["res"]):
            al = coq["allowed"][i] if i < len(coq["allowed"]) and i < len(coq["model"]["res"]) and coq["model"]["res"][i][0] == r[0] else None
            if al is not None and r[1] not in al:
                return Verdict("violation", "answer #%d (object %d) is %r; the property allows only %r (the answer this source already "
                               "gave in the object's own open block, else what the kernel held since the earliest open block "
                               "on its platform object, else now)" % (i, r[0], r[1], al))
        if impl != coq["model"]:
            return Verdict("corr", "impl != model")
        return Verdict("ok")
    if k == "live":
        if impl.get("t") == "LiveOk":
            return Verdict("ok")
        return Verdict("violation", "live /proc: %s" % (impl.get("a"),))
    if k == "mgr" and coq["model"] is None:
        return Verdict("corr", "the generated manager history is outside the domain of coq/C16/Mgr.v (generator error)")
    if k in ("hist", "mgr"):
        if not coq["done"]:
            return Verdict("corr", "model run did not finish within its step budget")
        spec = coq["spec"]
        if spec is not None:
            if len(spec) != len(impl["res"]):
                return Verdict("violation", "number of answers differs from the specification")
            for i, (s, r) in enumerate(zip(spec, impl["res"])):
                if r[0] != s[0]:
                    return Verdict("violation", "call #%d answers %r, the property demands %r" % (i, r[0], s[0]))
                if s[1] is not None and r[1] != s[1]:
                    return Verdict("violation", "call #%d opens [stat,status,smaps,statm] %r times, the property allows %r" % (i, r[1], s[1]))
        if coq["seq"] != coq["model"]:
            return Verdict("corr", "the manager-object model and the same history written with `with` disagree (contradicts C16_precreated_same_as_with)"
                           if k == "mgr" else
                           "the sequential reading and the interleaving semantics run alone disagree (contradicts C16_seq_is_lts_alone)")
        if impl != coq["model"]:
            return Verdict("corr", "impl != model")
        return Verdict("ok")
    if k == "sched":
        if impl.get("unfinished"):
            return Verdict("corr", "implementation threads still running after the schedule: %r" % impl["unfinished"])
        if not all(coq["done"]):
            return Verdict("corr", "model threads still running after the schedule")
        for ti, (al, rs) in enumerate(zip(coq["allowed"], impl["threads"])):
            if len(al) != len(rs):
                return Verdict("violation", "thread %d: %d answers, expected %d" % (ti, len(rs), len(al)))
            for ci, (a, r) in enumerate(zip(al, rs)):
                if a is not None and r[0] not in a:
                    return Verdict("violation", "thread %d call #%d answers %r; allowed by the property: %r" % (ti, ci, r[0], a))
        if impl != coq["model"]:
            return Verdict("corr", "impl != model")
        return Verdict("ok")
    if k in ("asdict", "asdict_any"):
        spec = coq["spec"]
        if spec is not None:
            if impl[0] != spec[0]:
                return Verdict("violation", "as_dict gives %r, the property demands %r" % (impl[0], spec[0]))
            if spec[1] is not None and impl[1] != spec[1]:
                return Verdict("violation", "as_dict opened [stat,status,smaps,statm] %r times before rejecting its argument" % (impl[1],))
        if impl != coq["model"]:
            return Verdict("corr", "impl != model")
        return Verdict("ok")
    raise ValueError(k)


def nontrivial(case, coq, impl):
    return case.get("cls") != "trivial"


# ------------------------------------------------------------------ implementation side
class FakeTarget:
    """One process in a fake /proc whose four sources carry a version number in every field read by the modelled methods."""

    def __init__(self, work, init):
        import psutil
        from psutil import _pslinux
        from pv import fakeproc
        self.psutil, self.px = psutil, _pslinux
        self.root = os.path.join(work, "proc")
        self.fp = fakeproc.FakeProc(self.root)
        fakeproc.attach(psutil, self.root)
        self.fakeproc = fakeproc
        self.denied = set()
        self.counts = {}          # thread ident -> [stat, status, smaps, statm]
        os.makedirs(self.fp.pdir(PID), exist_ok=True)
        self.fp.add(PID)          # directory skeleton
        self.dir = self.fp.pdir(PID)
        self.paths = {s: os.path.join(self.dir, s) for s in SRC}
        for s in SRC:
            self.write(s, ["A", 1])
        with open(os.path.join(self.dir, "environ"), "wb") as f:
            f.write(b"A=1\x00B=2\x00")
        self.proc = None
        self._orig = None
        self.install()
        self.proc = psutil.Process(PID)
        for s, st in zip(SRC, init):
            self.write(s, st)

    # -- fake kernel
    def write(self, s, st):
        if st[0] == "D":
            self.denied.add(self.paths[s])
            return
        if st[0] == "G":
            self.gone()
            return
        v = st[1]
        self.denied.discard(self.paths[s])
        os.makedirs(self.dir, exist_ok=True)
        if s == "stat":
            data = self.fakeproc.stat_line(PID, comm=b"v%d" % v, ppid=1000 + v, utime=v, processor=v, starttime=5000)
        elif s == "status":
            data = self.fakeproc.status_text(PID, comm=b"x", uids=(v, v, v, v), gids=(v, v, v, v), threads=v, vol=v, nonvol=0)
        elif s == "smaps":
            data = (b"00400000-00401000 r-xp 00000000 08:01 1 /bin/x\nSize:  4 kB\nPss:  %d kB\n"
                    b"Private_Clean:  0 kB\nPrivate_Dirty:  0 kB\nSwap:  0 kB\n" % v)
        else:
            data = b"100 %d 0 0 0 0 0\n" % v
        tmp = self.paths[s] + ".tmp"
        with open(tmp, "wb") as f:
            f.write(data)
        os.replace(tmp, self.paths[s])

    def gone(self):
        import shutil
        shutil.rmtree(self.dir, ignore_errors=True)
        self.denied.clear()

    # -- read counting / denial at the two I/O entry points of the Linux readers
    def install(self):
        import sys
        import threading
        px = self.px
        self._orig = (px.bcat, px.open_binary)
        readers = {"_parse_stat_file": 0, "_read_status_file": 1, "_read_smaps_file": 2, "memory_info": 3}
        tgt = self

        def note(path):
            fr = sys._getframe(2)
            idx = readers.get(fr.f_code.co_name)
            if idx is not None and tgt.proc is not None and fr.f_locals.get("self") is tgt.proc._proc \
                    and path == tgt.paths[SRC[idx]]:
                tgt.counts.setdefault(threading.get_ident(), [0, 0, 0, 0])[idx] += 1
            if path in tgt.denied:
                raise PermissionError(errno.EACCES, "Permission denied", path)

        def bcat(fname, *a, **kw):
            note(fname)
            return tgt._orig[0](fname, *a, **kw)

        def open_binary(fname, *a, **kw):
            note(fname)
            return tgt._orig[1](fname, *a, **kw)
        px.bcat, px.open_binary = bcat, open_binary

    def uninstall(self):
        if self._orig:
            self.px.bcat, self.px.open_binary = self._orig
            self._orig = None

    def take_counts(self):
        import threading
        return self.counts.pop(threading.get_ident(), [0, 0, 0, 0])

    # -- one modelled method call -> canonical outcome (the version the answer carries)
    def callx(self, name):
        """A real, un-memoized method whose kernel-side answer is constant in a case: (canonical outcome, raw object)."""
        p = self.proc
        expected = {"cmdline": ["proc"], "environ": {"A": "1", "B": "2"}, "open_files": [], "threads": [],
                    "as_dict_cmdline": {"cmdline": ["proc"]}}[name]
        try:
            raw = p.as_dict(attrs=["cmdline"]) if name == "as_dict_cmdline" else getattr(p, name)()
        except BaseException as e:  # noqa
            if isinstance(e, (KeyboardInterrupt, SystemExit)):
                raise
            return Exc(exc_name(e)), None
        code = CALLX[name]
        return Val(code if raw == expected else 9000 + code), raw

    def call(self, m, with_raw=False, proc=None):
        r, raw = self._call(m, proc)
        return (r, raw) if with_raw else r

    def _call(self, m, proc=None):
        p, px = proc or self.proc, self.px
        raw = None
        try:
            if m == "name":
                v = int(p.name()[1:])
            elif m == "ppid":
                v = p.ppid() - 1000
            elif m == "cpu_times":
                v = int(round(p.cpu_times().user * px.CLOCK_TICKS))
            elif m == "cpu_num":
                v = p.cpu_num()
            elif m == "uids":
                v = p.uids().real
            elif m == "gids":
                v = p.gids().real
            elif m == "num_threads":
                v = p.num_threads()
            elif m == "num_ctx_switches":
                v = p.num_ctx_switches().voluntary
            elif m == "memory_info":
                v = p.memory_info().rss // px.PAGESIZE
            elif m == "memory_full_info":
                v = p.memory_full_info().pss // 1024
            elif m == "memory_maps":
                raw = p.memory_maps()
                v = (raw[0].pss // 1024) if len(raw) == 1 and hasattr(raw[0], "pss") else 9000 + len(raw)
            else:
                raise ValueError(m)
        except BaseException as e:  # noqa
            if isinstance(e, (KeyboardInterrupt, SystemExit)):
                raise
            return Exc(exc_name(e)), None
        return Val(v), raw

    def decode(self, name, value):
        """Version carried by the value as_dict stored under `name`."""
        px = self.px
        if name == "name":
            return int(value[1:])
        if name == "ppid":
            return value - 1000
        if name == "cpu_times":
            return int(round(value.user * px.CLOCK_TICKS))
        if name in ("uids", "gids"):
            return value.real
        if name == "num_ctx_switches":
            return value.voluntary
        if name == "memory_info":
            return value.rss // px.PAGESIZE
        if name == "memory_full_info":
            return value.pss // 1024
        if name == "memory_maps":
            return (value[0].pss // 1024) if len(value) == 1 else 9000 + len(value)
        return value

    def ptrs(self):
        return [hasattr(self.proc, "_cache"), hasattr(self.proc._proc, "_cache")]


class BodyError(Exception):
    pass


class Runner:
    """Executes one thread's list of operations on the target.  Whatever psutil raises while it is being driven is
    an implementation outcome (recorded, judged), never a harness failure."""

    def __init__(self, tgt):
        self.tgt = tgt
        self.stack = []
        self.res = []
        self.objs = []     # the raw objects handed out, by answer index (for in-place mutation by the caller)
        self.errs = []     # exceptions raised by oneshot() itself on enter / exit

    def _guard(self, what, fn):
        try:
            return fn()
        except BodyError:
            raise
        except BaseException as e:  # noqa
            if isinstance(e, (KeyboardInterrupt, SystemExit)):
                raise
            self.errs.append([what, exc_name(e)])
            return None

    def step(self, o, pause=None):
        t, k = self.tgt, o[0]
        if k == "enter":
            cm = t.proc.oneshot()
            if self._guard("enter", lambda: (cm.__enter__(), True)[1]):
                self.stack.append(cm)
        elif k == "exit":
            if self.stack:
                cm = self.stack.pop()
                self._guard("exit", lambda: cm.__exit__(None, None, None))
        elif k == "raise":
            while self.stack:
                cm = self.stack.pop()
                e = BodyError("raised in the body")

                def leave(cm=cm, e=e):
                    try:
                        return cm.__exit__(BodyError, e, None)
                    except BodyError:
                        return False
                if self._guard("exit-by-exception", leave):
                    self.errs.append(["exit-by-exception", "swallowed the body's exception"])
        elif k == "call":
            t.take_counts()
            r, raw = t.call(o[1], with_raw=True)
            self.res.append([r, t.take_counts()])
            self.objs.append(raw)
        elif k == "callx":
            t.take_counts()
            r, raw = t.callx(o[1])
            self.res.append([r, t.take_counts()])
            self.objs.append(raw)
        elif k == "mut":
            if o[1] < len(self.objs):
                _mutate(self.objs[o[1]], o[2])
        elif k == "pid":
            self.res.append([Val(t.proc.pid), [0, 0, 0, 0]])
            self.objs.append(None)
        elif k == "set":
            if pause:
                pause()
            t.write(o[1], o[2])
        elif k == "gone":
            if pause:
                pause()
            t.gone()
        else:
            raise ValueError(k)

    def close(self):
        while self.stack:
            cm = self.stack.pop()
            self._guard("exit", lambda: cm.__exit__(None, None, None))


def _mutate(obj, how):
    """The caller changes an answer in place (only lists and dicts can be)."""
    junk = "\x00mutated-by-caller"
    try:
        if how == "nested" and isinstance(obj, dict):
            for v in list(obj.values()):
                if isinstance(v, (list, dict)):
                    _mutate(v, "clear")
                    _mutate(v, "append")
            return
        if isinstance(obj, list):
            if how in ("clear", "nested"):
                del obj[:]
            elif how == "pop" and obj:
                obj.pop()
            else:
                obj.append(junk)
        elif isinstance(obj, dict):
            if how == "clear":
                obj.clear()
            elif how == "pop" and obj:
                obj.pop(next(iter(obj)))
            else:
                obj[junk] = junk
    except Exception:  # noqa
        pass


def _stub(psutil, spec, orig=None):
    def f():
        if spec[0] == "val":
            return spec[1]
        if spec[1] == "NotImplementedError":
            raise NotImplementedError("stub")
        raise getattr(psutil, spec[1])(PID, "stub")
    # wrap, don't replace: whatever a decorator hung on the real method (cache_activate, cache_deactivate,
    # __wrapped__ ...) stays reachable through the stub
    f.__dict__.update(getattr(orig, "__dict__", {}))
    return f


class _LtRaises:
    def __lt__(self, other):
        raise TypeError("no ordering")
    __gt__ = __le__ = __ge__ = __lt__


class _ReprOdd:
    def __repr__(self):
        return "<{odd} %s \u00e9 'x', \"y\">"


class _HashZero:
    def __hash__(self):
        return 0


class _HashLikeName:
    def __hash__(self):
        return hash("name")


class _StrSubclassOdd(str):
    """A str subclass whose text is not a valid name and whose repr is unusual."""

    def __repr__(self):
        return "StrSub()"


def _build_elems(elems):
    """Python values for the encoded elements; equal ids give the very same object (NaN, instances)."""
    memo = {}

    def atom(e):
        k = e[0]
        if k == "s":
            return e[1]
        if k == "i":
            return e[1]
        if k == "none":
            return None
        if k == "bool":
            return bool(e[1])
        if k == "b":
            return bytes.fromhex(e[1])
        if k == "f":
            return e[1][0] / e[1][1]
        if k == "nan":
            return memo.setdefault(("nan", e[1]), float("nan") * 1)
        if k == "obj":
            key = ("obj", e[1])
            if key not in memo:
                memo[key] = {"plain": object, "lt_raises": _LtRaises, "repr_odd": _ReprOdd, "hash_zero": _HashZero,
                             "hash_like_name": _HashLikeName,
                             "str_subclass_odd": lambda: _StrSubclassOdd("not-a-name-%d" % e[1])}[e[2]]()
            return memo[key]
        raise ValueError(k)
    return [tuple(atom(x) for x in e[1]) if e[0] == "t" else atom(e) for e in elems]


def impl_run(case, coq, env):
    import psutil
    k = case["kind"]
    if k == "live":
        from props._c16_live import run_live
        return run_live(case, coq, psutil, LIVE, LIVE_FILES, _live_model_ops)
    tgt = FakeTarget(env["work"], case["init"])
    try:
        if k == "copyhist":
            import copy
            import pickle
            objs, stacks, res, errs = [tgt.proc], [[]], [], []
            for o in case["ops"]:
                if o[0] == "copy":
                    src = objs[o[1]] if o[1] < len(objs) else None
                    new = None
                    if src is not None:
                        try:
                            new = (copy.copy(src) if o[2] == "copy" else copy.deepcopy(src) if o[2] == "deepcopy"
                                   else pickle.loads(pickle.dumps(src)))
                        except Exception:  # noqa   an operation that raises creates no object
                            new = None
                    objs.append(new)
                    stacks.append([])
                    continue
                ob, op = o[1], o[2]
                if op[0] in ("set", "gone"):
                    tgt.write(op[1], op[2]) if op[0] == "set" else tgt.gone()
                    continue
                p = objs[ob] if ob < len(objs) else None
                if p is None:
                    continue
                try:
                    if op[0] == "enter":
                        cm = p.oneshot()
                        cm.__enter__()
                        stacks[ob].append(cm)
                    elif op[0] == "exit":
                        if stacks[ob]:
                            stacks[ob].pop().__exit__(None, None, None)
                    elif op[0] == "raise":
                        while stacks[ob]:
                            cm = stacks[ob].pop()
                            try:
                                cm.__exit__(BodyError, BodyError("raised in the body"), None)
                            except BodyError:
                                pass
                    elif op[0] == "call":
                        res.append([ob, tgt.call(op[1], proc=p)])
                except BaseException as e:  # noqa
                    if isinstance(e, (KeyboardInterrupt, SystemExit)):
                        raise
                    errs.append([op[0], exc_name(e)])
            out = {"res": res, "ptrs": [None if x is None else [hasattr(x, "_cache"), hasattr(x._proc, "_cache")] for x in objs]}
            if errs:
                out["errs"] = errs
            for ob, st in enumerate(stacks):
                while st:
                    try:
                        st.pop().__exit__(None, None, None)
                    except Exception:  # noqa
                        pass
            return out
        if k == "mgr":
            from props import _c16_mgr
            return _c16_mgr.run_impl(case, tgt, Runner, BodyError)
        if k == "hist":
            r = Runner(tgt)
            for o in case["ops"]:
                r.step(o)
            out = {"res": r.res, "ptrs": tgt.ptrs()}
            if r.errs:
                out["errs"] = r.errs
            r.close()
            return out
        if k == "sched":
            from props._c16_sched import Controller
            ctl = Controller(os.path.dirname(psutil.__file__), targets=(tgt.proc, tgt.proc._proc))
            runners = [Runner(tgt) for _ in case["progs"]]

            def mk(r, prog):
                def fn(pause):
                    for o in prog:
                        r.step(o, pause)
                return fn
            unfinished = ctl.run([mk(r, p) for r, p in zip(runners, case["progs"])], case["sched"])
            if ctl.errors:
                raise RuntimeError("harness thread failed: %r" % (ctl.errors,))
            out = {"threads": [r.res for r in runners], "ptrs": tgt.ptrs()}
            if unfinished:
                out["unfinished"] = unfinished
            if any(r.errs for r in runners):
                out["errs"] = [r.errs for r in runners]
            return out
        if k == "asdict_any":
            p = tgt.proc
            if list(psutil._as_dict_attrnames) != case["valid"]:
                return T("Skip", "iteration order of _as_dict_attrnames differs from the one the case was built with")
            r = Runner(tgt)
            for o in case["pre"]:
                r.step(o)
            if case["container"] == "notcoll":
                arg = {"int": 5, "str": "name", "dict": {"name": 1}, "bytes": b"name"}[case["elems"]]
            else:
                arg = build_attrs(case["container"], _build_elems(case["elems"]))
            tgt.take_counts()
            try:
                if case["via"] == "process_iter":
                    psutil.process_iter.cache_clear()
                    g = psutil.process_iter(attrs=arg)
                    try:
                        first = next(g)
                    finally:
                        g.close()
                    res = Val([[B(nm), 0] for nm in sorted(first.info)])
                else:
                    d = p.as_dict(attrs=arg)
                    res = Val([[B(nm), 0] for nm in d])
            except BaseException as e:  # noqa
                if isinstance(e, (KeyboardInterrupt, SystemExit)):
                    raise
                res = Exc(exc_name(e))
            cnt = tgt.take_counts()
            out = [res, cnt, tgt.ptrs()]
            if r.errs:
                out.append(r.errs)
            r.close()
            return out
        if k == "asdict":
            p = tgt.proc
            valid = list(psutil._as_dict_attrnames)
            if valid != case["valid"]:
                return T("Skip", "iteration order of _as_dict_attrnames differs from the one the case was built with")
            for nme in valid:
                if nme not in METHODS and nme != "pid":
                    setattr(p, nme, _stub(psutil, case["stubs"].get(nme, ["val", 0]), getattr(type(p), nme, None)))
            r = Runner(tgt)
            for o in case["pre"]:
                r.step(o)
            a = case["attrs"]
            if a is None:
                arg = None
            elif a[0] == "notcoll":
                arg = {"int": 5, "str": "name", "dict": {"name": 1}, "gen": (x for x in ["name"]), "bytes": b"name",
                       "float": 1.5}[a[1]]
            else:
                arg = build_attrs(a[0], a[1])
                if list(set(arg)) != case["order"]:
                    return T("Skip", "set iteration order differs from the one the case was built with")
            sentinel = object()
            tgt.take_counts()
            try:
                d = p.as_dict(attrs=arg, ad_value=sentinel)
                res = Val([[B(nm), T("AdValue") if v is sentinel else tgt.decode(nm, v)] for nm, v in d.items()])
            except BaseException as e:  # noqa
                if isinstance(e, (KeyboardInterrupt, SystemExit)):
                    raise
                res = Exc(exc_name(e))
            cnt = tgt.take_counts()
            out = [res, cnt, tgt.ptrs()]
            if r.errs:
                out.append(r.errs)
            r.close()
            return out
        raise ValueError(k)
    finally:
        tgt.uninstall()


MANIFEST = {
    "text": "Theorems (Coq 8.16, 32, all closed under the global context; coq/Properties/C16.v). One thread, every history of "
            "enter/exit/nested enter/exception in the body/call/source change (new content, denied, process gone): the model "
            "of memoize_when_activated + oneshot() + the Linux memoized readers produces, call by call, the answers and per-call "
            "read counts of a ghost machine written from the property text (first successful read in the block is kept, "
            "forgotten at the outermost exit whether normal or exceptional, nested blocks only counted) -- proved for the "
            "sequential reading and, through a simulation theorem (the run of lts_step with one thread terminates, is unique "
            "and equals the sequential reading up to ghost step numbers), for the interleaving semantics itself; ppid() with "
            "its sticky PID-gone pre-check is inside the domain, the excluded class (a source changing after the process "
            "vanished, a single file vanishing) is decided by the machine; the shared sources stat/status/smaps are read at "
            "most once per block whatever is called, statm is per method (kept by memory_info(), re-read by every "
            "memory_full_info()); once no block is open both _cache attributes are gone and calls read current data; nested "
            "enter+exit changes nothing but the lock count; as_dict = TypeError/ValueError with the state untouched, else one "
            "block around the requested calls with ad_value for AccessDenied/ZombieProcess, NoSuchProcess propagating, exactly "
            "the requested keys (checked against the generated table of _as_dict_attrnames); attrs elements of any hashable type: "
            "a collection with at least one element that is not an acceptable name is rejected with ValueError, state untouched, "
            "for all element types and counts. Answers are values: the table of memoize_when_activated methods generated from the "
            "source equals the model's (4 front-level keys, 3 readers) and contains no method returning a list/dict, and on a machine "
            "about object identity no call ever hands out an object the caller has mutated (refuted were cmdline() cached). Threads, every interleaving at "
            "source-line granularity, any number of threads and programs, no bound on length: no AttributeError/KeyError of "
            "the cache plumbing reaches a caller (refuted for the pre-issue-1948 wrapper); every value held by any cache dict "
            "was read after that dict was created (refuted for the wrapper before commit 7b727b3, witness schedule replayed on "
            "the real code); a returned value was read during the call or inside a block overlapping it; cache pointers never "
            "dangle; whoever creates/removes dicts holds Process._lock. The model is tied to the code by running the real "
            "psutil.Process over a fake /proc, single-threaded and under a deterministic sys.settrace line scheduler, against "
            "model and specification.",
    "note": "Trusted: Coq kernel + vm_compute; hand-written model coq/C16/Model.v (tied by the correspondence run only); harness, "
            "scheduler (pause points = the model's steps), fake /proc, read counting by frame inspection; CPython dict/attribute/"
            "RLock/generator semantics. Granularity is the source line; byte-code level pre-emption and free-threaded builds are "
            "outside. Proof covers the model for all histories/interleavings; sampling covers model-vs-code.",
}
