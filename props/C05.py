"""C05 -- children(), parent() and parents() describe the real process tree."""
import os
import shutil
import signal

from pv import gallina as G
from props._c05_tables import gen_tables  # noqa: F401  (translator hook: coq/Gen/C05_Tables.v from the source's ast)
from pv.canon import Exc, T, Val, outcome

ID = "C05"
COQ_REQUIRE = "C05.Run"
RULE = ("process tables (pid, ppid, start ticks) written into a fake /proc: random forests of 1-40 processes with injected "
        "self-loops, 2- and 3-cycles, unlisted parents, children older than the caller, equal start ticks; caller alive / PID "
        "recycled (other start ticks) / PID gone, create_time() cached or not, lowest-PID cache empty / fresh / stale; processes "
        "vanishing at a chosen point of the call (directory removed just before the k-th open of that process's stat file, every "
        "k enumerated for every victim on small tables); multi-step histories (process_iter() fully consumed so that psutil._pmap is "
        "warm, create_time() read on some yielded objects, then exit / PID reuse with an older or younger start / reparenting / "
        "new process, then the call; the demanded answer is computed from the FINAL table only); plus every table over a small PID "
        "universe (exhaustive part). Each case is one call of children(), children(recursive=True), parent() or parents(); every "
        "returned object is compared by identity (pid, start ticks). Non-trivial = table with >= 2 processes; distinct = distinct "
        "canonical case hash.")
TRUSTED = ["correspondence harness props/C05.py + pv/fakeproc (fake /proc tree, os.listdir order patch, builtins.open wrapper that removes "
           "a directory before the k-th open of its stat file, ppid_map wrapper, itimer guard turning a non-terminating call into Timeout)",
           "float layer: create_time() = ticks/CLK + boot time is compared on ticks in the model (strictly monotone for a constant boot time)",
           "round 2: Process.children() and Process.parent() are translated from the ast of the tree under check (props/_c05_gen.py, fail-closed) into the statement "
           "language of coq/C05/PyGen.v and proved equal to the model's children_direct / children_rec for every table with non-negative PIDs "
           "(coq/C05/ProofsGen.v); trusted there: the translator (ast shape -> constructor, ~200 lines), the interpreter's reading of the Python "
           "statements, and the primitives it is instantiated with (Process(pid), _start_times, _raise_if_pid_reused, _ppid_map stay hand-written)"]
ASSUMPTIONS = ["the table is static during one call except for the victims removed at the stated stat-open index",
               "the caller object is fresh or yielded by process_iter() (_gone/_pid_reused False); sticky flags belong to C01",
               "boot time constant between the caller's cached create_time() and the children's (clock steps belong to C02)",
               "a directory lists each PID once (wf_table); PIDs and parent PIDs within pid_t range; the table lists at least one process",
               "the model merges the vanish points that give the same answer (children(): before ppid_map's read / before Process(pid) / "
               "before child.create_time(); parents(): before Process(ppid) / before parent.create_time(), resp. any point after the "
               "ancestor was appended); the harness exercises each point separately against that answer"]
EXHAUSTIVE = {"quick": "all 36 tables over PIDs {5,7} x ppid in {5,7,unlisted 3} x start in {10,20}, every caller, all four calls; all 36 tables "
                       "over root 2 + PIDs {5,7} x ppid in {2,5,7} x start in {10,20}, every caller, every other process as victim, every "
                       "stat-open index 0..3 (children), 0..2 (parent), 0..6 (parents); all 36 tables over PIDs {1,2} x ppid in {1,2,unlisted 0} x "
                       "start tick in {0,1}, every caller, all four calls, cold and after [create_time(), clock step +100 s, boot_time()]; "
                       "13 seed-generated big tables (chain 1100, chain/comb 300 under recursion limit 150 or a deep stack, star 2000); all 9 tables "
                       "over PIDs {5,7} x ppid in {5,7,unlisted 3}, caller alive/recycled/gone, four calls asked on a copy made by copy/deepcopy/pickle; "
                       "own-pid aliasing block (672 cases, fixed rng, never sampled): os.getpid() patched to a PID of the table -- all 9 tables over "
                       "PIDs {5,7} x ppid in {5,7,unlisted 3}, caller alive/recycled/gone, four calls, own pid = the caller's or the other PID, "
                       "recycled callers also after is_running() set _pid_reused; every history motif x four calls x own pid = handle / child / parent",
              "thorough": "all 1728 tables over PIDs {4,6,9} x ppid in {4,6,9,unlisted 2} x start in {10,20,30}, every caller, all four calls; "
                          "the same vanish-point enumeration as quick"}
CASE_TIMEOUT = 30
SHARD = 120

# model parameters: the five repairs found with this check are in /repo (6afb079 skip_self, 3959fba parent_reuse, e202d3b
# parents_seen, 671469c parents_nsp, e49a6c9 mono).  All True = the code as it is now.  C05_OLD=skip_self,... evaluates the model of
# the code WITHOUT a repair (only useful to replay an old defect against a reverted copy:  C05_OLD=mono VERIF_REPO=<copy> ./vcheck C05 quick).
FIXES = {"skip_self": True, "parents_seen": True, "parent_reuse": True, "parents_nsp": True, "mono": True,
         "ident_some": True}   # not a repair: True = _start_times tests "_ident[1] is not None" (the code); False = truthiness
for _k in filter(None, os.environ.get("C05_OLD", "").split(",")):
    FIXES[_k] = False
BTIME0 = 1500000000

OPS = ["children", "children_rec", "parent", "parents"]
HANG_S = 0.4      # guard for a call the model predicts not to terminate
SLOW_S = 6.0      # guard for every other call (a call on <= 40 fake processes takes milliseconds)


# ------------------------------------------------------------------ generation
def _chain_hangs(tab, pid, cache):
    """Cheap predictor used ONLY to cap the number of slow (non-terminating) cases per run."""
    d = {p: (pp, s) for p, pp, s in tab}
    if pid not in d:
        return False
    low = cache if cache is not None else min(d)
    seen = set()
    cur = pid
    while True:
        if cur == low or cur not in d:
            return False
        pp, s = d[cur]
        if pp not in d or d[pp][1] > s:
            return False
        if (cur, ) in seen:
            return True
        seen.add((cur, ))
        cur = pp


def _zero_ticks(rng, tab):
    """start tick 0 is a legal identity (init, kthreadd, PID 1/2 of a container): give it real weight."""
    r = rng.random()
    if r < 0.12:                       # the first processes of the boot: everything listed early is at tick 0
        k = rng.randint(1, max(1, len(tab) // 2))
        for e in sorted(tab)[:k]:
            e[2] = 0
    elif r < 0.2:                      # one process and its parent, both at tick 0
        e = rng.choice(tab)
        e[2] = 0
        for f in tab:
            if f[0] == e[1]:
                f[2] = 0
    elif r < 0.25:
        for e in tab:
            e[2] = min(e[2], rng.choice([0, 0, 1]))
    return tab


def _random_table(rng):
    n = rng.choice([1, 2, 3, 3, 4, 5, 6, 8, 12, 20, 40])
    pids = rng.sample(range(1, 400), n)
    if rng.random() < 0.3:
        pids[0] = 1
        pids = list(dict.fromkeys(pids))
    tab = []
    motif = []
    for i, p in enumerate(pids):
        if i == 0 or rng.random() < 0.12:
            pp = rng.choice([0, 0, 1, 2, 399 + rng.randint(1, 50)])   # mostly unlisted
            st = rng.randint(1, 50)
        else:
            j = rng.randrange(i)
            pp = tab[j][0]
            st = tab[j][2] + rng.choice([0, 0, 1, 5, 100])
        tab.append([p, pp, st])
    idx = list(range(len(tab)))
    r = rng.random()
    if r < 0.12:                       # self-loop
        i = rng.choice(idx)
        tab[i][1] = tab[i][0]
        motif.append("selfloop")
    elif r < 0.24 and len(tab) >= 2:    # 2-cycle
        i, j = rng.sample(idx, 2)
        tab[i][1], tab[j][1] = tab[j][0], tab[i][0]
        if rng.random() < 0.6:
            tab[j][2] = tab[i][2]
        motif.append("cycle2")
    elif r < 0.34 and len(tab) >= 3:    # 3-cycle
        i, j, k = rng.sample(idx, 3)
        tab[i][1], tab[j][1], tab[k][1] = tab[j][0], tab[k][0], tab[i][0]
        if rng.random() < 0.6:
            tab[j][2] = tab[k][2] = tab[i][2]
        motif.append("cycle3")
    if rng.random() < 0.25 and len(tab) >= 2:   # a child older than its parent (recycled child / recycled parent)
        i = rng.choice(idx)
        tab[i][2] = max(0, tab[i][2] - rng.choice([1, 10, 60]))
        motif.append("older")
    if rng.random() < 0.15:             # everything in one tick
        for e in tab:
            e[2] = tab[0][2]
        motif.append("eqticks")
    if rng.random() < 0.25:
        before = [e[2] for e in tab]
        _zero_ticks(rng, tab)
        if before != [e[2] for e in tab]:
            motif.append("tick0")
    if rng.random() < 0.5:
        rng.shuffle(tab)
    return tab, motif


def _mk(op, tab, pid, ident, cached, cache, gone, cls, vanish=(), hist=None):
    c = {"kind": op, "op": op, "cls": cls, "tab": [list(e) for e in tab], "pid": pid, "ident": ident,
         "cached": bool(cached), "cache": cache, "gone": sorted(gone)}
    if vanish:
        c["vanish"] = [list(v) for v in vanish]     # [victim pid, k]: directory removed just before the k-th open of its stat
    if hist:
        c["hist"] = hist
    return c


MAXK = {"children": 3, "children_rec": 3, "parent": 2, "parents": 6}


def vanish_sets(case):
    """Model view of the vanish points: (gone, goneb).  See ASSUMPTIONS / coq/C05/Model.v."""
    op = case["op"]
    gone = set(case.get("gone", []))
    goneb = set()
    for v, k in case.get("vanish", []):
        if op in ("children", "children_rec"):
            if k <= 2:
                gone.add(v)
        else:
            if k <= 1:
                gone.add(v)
            elif k <= 4 and op == "parents":
                goneb.add(v)
    return sorted(gone), sorted(goneb - gone)


def _family(tab, pid, up):
    """descendants (up=False) or ancestors (up=True) of pid by raw parent links, bounded."""
    d = {e[0]: e for e in tab}
    out = []
    if up:
        cur, n = pid, 0
        while cur in d and n < len(tab):
            cur = d[cur][1]
            if cur in d and cur != pid and cur not in out:
                out.append(cur)
            n += 1
    else:
        front = [pid]
        while front:
            nxt = [e[0] for e in tab if e[1] in front and e[0] != pid and e[0] not in out]
            out.extend(nxt)
            front = nxt
    return out


HIST_MOTIFS = ["reuse_older", "reuse_younger", "reparent", "exit", "new", "caller_recycled", "parent_reused",
               "grandchild_reuse_older"]


def _history_case(rng, mot=None, op=None):
    """process_iter() consumed on tab0, create_time() read on some objects, table change, one call."""
    n = rng.choice([3, 4, 5, 6, 8, 12])
    pids = rng.sample(range(2, 300), n - 1)
    tab0 = [[1, 0, 1]]
    for p in pids:
        j = rng.randrange(len(tab0))
        tab0.append([p, tab0[j][0], tab0[j][2] + rng.choice([0, 1, 5, 40])])
    kids = {}
    for e in tab0:
        kids.setdefault(e[1], []).append(e[0])
    callers = [p for p in kids if p != 0]
    pid = rng.choice(callers)
    d0 = {e[0]: e for e in tab0}
    tab = [list(e) for e in tab0]
    d = {e[0]: e for e in tab}
    op = op or rng.choice(OPS)
    child = rng.choice(kids[pid])
    mot = mot or rng.choice(["reuse_older", "reuse_older", "reuse_younger", "reparent", "exit", "new", "caller_recycled",
                             "parent_reused", "grandchild_reuse_older"])
    if mot == "reuse_older":
        d[child][2] = max(0, d0[pid][2] - rng.choice([1, 3, 20]))
    elif mot == "reuse_younger":
        d[child][2] = d0[child][2] + rng.choice([1, 7])
        if rng.random() < 0.5:
            d[child][1] = rng.choice([e[0] for e in tab0])
    elif mot == "reparent":
        d[child][1] = 1
    elif mot == "exit":
        tab = [e for e in tab if e[0] != child]
    elif mot == "new":
        tab.append([rng.choice([x for x in range(300, 330)]), pid, d0[pid][2] + rng.choice([0, 3])])
    elif mot == "caller_recycled":
        d[pid][2] = d0[pid][2] + rng.choice([-1, 1, 9]) if d0[pid][2] > 0 else d0[pid][2] + 1
    elif mot == "parent_reused":
        pp = d0[pid][1]
        if pp in d:
            if rng.random() < 0.5:
                d[pp][2] = d0[pid][2] + rng.choice([1, 10])
            else:
                tab = [e for e in tab if e[0] != pp]
    elif mot == "grandchild_reuse_older":
        gk = [g for g in kids.get(child, [])]
        if gk:
            d[rng.choice(gk)][2] = max(0, d0[pid][2] - 1)
        else:
            d[child][2] = max(0, d0[pid][2] - 1)
    ct = sorted(p for p in d0 if rng.random() < 0.6 or p == child and rng.random() < 0.8)
    from_iter = rng.random() < 0.6
    cached = (from_iter and pid in ct) or rng.random() < 0.3
    cache = None
    if op in ("parent", "parents") and tab and rng.random() < 0.5:
        cache = min(e[0] for e in tab)
    if rng.random() < 0.3:
        rng.shuffle(tab)
    hist = {"tab0": tab0, "ct": ct, "from_iter": from_iter}
    return _mk(op, tab, pid, d0[pid][2], cached, cache, [], "hist-%s-%s" % (op, mot), hist=hist)


def _vanish_case(rng):
    tab, motif = _random_table(rng)
    if len(tab) < 2:
        tab = [[1, 0, 1], [5, 1, 10], [8, 5, 20]]
    d = {e[0]: e for e in tab}
    op = rng.choice(OPS)
    up = op in ("parent", "parents")
    cands = []
    for e in tab:
        fam = _family(tab, e[0], up)
        if fam:
            cands.append((e[0], fam))
    if cands:
        pid, fam = rng.choice(cands)
    else:
        pid = tab[0][0]
        fam = [e[0] for e in tab if e[0] != pid]
    others = [e[0] for e in tab if e[0] != pid]
    victims = []
    for _ in range(rng.choice([1, 1, 2])):
        v = rng.choice(fam) if fam and rng.random() < 0.8 else rng.choice(others)
        if v not in [x[0] for x in victims]:
            victims.append([v, rng.randint(0, MAXK[op])])
    cache = None
    if up and rng.random() < 0.5:
        cache = min(d)
    return _mk(op, tab, pid, d[pid][2], rng.random() < 0.5, cache, [], "vanish-%s%s" % (op, "-" + "+".join(motif) if motif else ""),
               vanish=victims)


CLOCK_PATTERNS = {
    "ct-set": lambda b1, b2: [["ct"], ["set", b1]], "ct-set-boot": lambda b1, b2: [["ct"], ["set", b1], ["boot"]],
    "set-boot-ct": lambda b1, b2: [["set", b1], ["boot"], ["ct"]], "boot-ct-set": lambda b1, b2: [["boot"], ["ct"], ["set", b1]],
    "set-ct-boot": lambda b1, b2: [["set", b1], ["ct"], ["boot"]],
    "ct-set-boot-set-boot": lambda b1, b2: [["ct"], ["set", b1], ["boot"], ["set", b2], ["boot"]],
    "set": lambda b1, b2: [["set", b1]], "set-boot": lambda b1, b2: [["set", b1], ["boot"]],
    "ct-set-ct": lambda b1, b2: [["ct"], ["set", b1], ["ct"]], "none": lambda b1, b2: [], "ct": lambda b1, b2: [["ct"]]}


def _clock_case_tick0(rng):
    """The caller is PID 1 or 2 and its start tick is exactly 0; its parent and some children are at tick 0 too."""
    sec = 100
    pid = rng.choice([1, 2, 2])
    tab = [[1, 0, 0], [2, rng.choice([0, 1, 1]), 0]]
    nxt = 3
    for _ in range(rng.choice([1, 2, 3, 5])):
        st = rng.choice([0, 0, 1, 2, 1 * sec, 2 * sec, 30 * sec, 90 * sec])
        tab.append([nxt, pid, st])
        if rng.random() < 0.4:
            tab.append([nxt + 1, nxt, st + rng.choice([0, 0, 1, 50 * sec])])
        nxt += 2
    if rng.random() < 0.3:
        tab.append([nxt, 3 - pid, rng.choice([0, 5])])
    delta = rng.choice([1, 2, 50, 100, 1000, -1, -2, -50, -100, -1000])
    pat = rng.choice(["ct-set-boot", "ct-set-boot", "ct-set-boot", "ct-set", "set-boot-ct", "ct-set-boot-set-boot", "none", "ct", "set-boot"])
    evs = CLOCK_PATTERNS[pat](BTIME0 + delta, BTIME0 - delta)
    prior = None
    if rng.random() < 0.3 and any(e[0] == "ct" for e in evs):
        prior = rng.choice(PRIOR_CALLS)
        evs = [[prior] if e[0] == "ct" else e for e in evs]
    op = rng.choice(OPS)
    cache = 1 if op in ("parent", "parents") and rng.random() < 0.5 else None
    if rng.random() < 0.3:
        rng.shuffle(tab)
    c = _mk(op, tab, pid, 0, any(e[0] == "ct" for e in evs), cache, [], "clock0-%s-%s%s" % (op, pat, "-prior_" + prior if prior else ""))
    c["clock"] = evs
    return c


def _tick0_exhaustive():
    """Every table over PIDs {1,2} x ppid in {1,2,unlisted 0} x start tick in {0,1}, every caller, all four calls -- once with
    a cold object and once after [create_time(); clock step +100 s; psutil.boot_time()]."""
    import itertools
    out = []
    P = [1, 2]
    per = [(pp, st) for pp in P + [0] for st in (0, 1)]
    for combo in itertools.product(per, repeat=2):
        tab = [[p, pp, st] for p, (pp, st) in zip(P, combo)]
        for pid, _, st in tab:
            for op in OPS:
                out.append(_mk(op, tab, pid, st, False, None, [], "exh-tick0-" + op))
                c = _mk(op, tab, pid, st, True, None, [], "exh-tick0-clock-" + op)
                c["clock"] = [["ct"], ["set", BTIME0 + 100], ["boot"]]
                out.append(c)
    return out


def _unknown_ident_case(rng):
    """The caller's identity could not be read when the object was created (_ident[1] is None)."""
    tab, motif = _random_table(rng)
    if len(tab) < 2:
        tab = [[1, 0, 0], [5, 1, 0], [8, 5, 20]]
    e = rng.choice(tab)
    op = rng.choice(OPS)
    c = _mk(op, tab, e[0], e[2], False, min(x[0] for x in tab) if rng.random() < 0.5 else None, [], "unknown-ident-" + op)
    c["unknown_ident"] = True
    return c


def _clock_case(rng):
    """One Process object, create_time() cached or not, the btime line of /proc/stat steps, psutil.boot_time() is or is
    not called, then the call.  Start ticks are whole seconds so that ticks/CLK + btime is exact in floats (ties included)."""
    sec = 100
    if rng.random() < 0.35:
        return _clock_case_tick0(rng)
    S = rng.choice([50, 200, 1000]) * sec
    root_s = max(0, S - rng.choice([1, 5, 40, 200]) * sec)
    tab = [[1, 0, min(root_s, S)]]
    gp = rng.choice([None, None, 3])
    if gp:
        tab.append([3, 1, min(root_s, S)])
    par = 3 if gp else 1
    par_start = {1: tab[0][2], 3: tab[0][2]}[par]
    pid = 20
    tab.append([pid, par, S])
    if rng.random() < 0.5:       # the parent started within a few seconds of the caller
        for e in tab:
            if e[0] == par:
                e[2] = max(0, S - rng.choice([0, 1, 2, 30]) * sec)
    nxt = 30
    for _ in range(rng.choice([1, 2, 3, 5])):
        d = rng.choice([0, 1, 2, 30, 90, -1, -2, -30, -90]) * sec      # negative: a recycled PID, older than the caller
        tab.append([nxt, pid, max(0, S + d)])
        if rng.random() < 0.4:
            tab.append([nxt + 1, nxt, max(0, S + d + rng.choice([0, 1, 50]) * sec)])
        nxt += 2
    delta = rng.choice([1, 2, 3, 50, 100, 1000, -1, -2, -3, -50, -100, -1000])
    b1 = BTIME0 + delta
    pat = rng.choice(["ct-set", "ct-set", "ct-set", "ct-set-boot", "ct-set-boot", "set-boot-ct", "boot-ct-set", "set-ct-boot",
                      "ct-set-boot-set-boot", "set", "set-boot", "ct-set-ct"])
    evs = {"ct-set": [["ct"], ["set", b1]], "ct-set-boot": [["ct"], ["set", b1], ["boot"]],
           "set-boot-ct": [["set", b1], ["boot"], ["ct"]], "boot-ct-set": [["boot"], ["ct"], ["set", b1]],
           "set-ct-boot": [["set", b1], ["ct"], ["boot"]],
           "ct-set-boot-set-boot": [["ct"], ["set", b1], ["boot"], ["set", BTIME0 - delta], ["boot"]],
           "set": [["set", b1]], "set-boot": [["set", b1], ["boot"]], "ct-set-ct": [["ct"], ["set", b1], ["ct"]]}[pat]
    prior = None
    if rng.random() < 0.45:          # the cache is filled by an earlier call on the same object instead of create_time()
        prior = rng.choice(PRIOR_CALLS)
        evs = [[prior] if e[0] == "ct" else e for e in evs]
    op = rng.choice(OPS)
    cache = None
    if op in ("parent", "parents") and rng.random() < 0.5:
        cache = 1
    if rng.random() < 0.3:
        rng.shuffle(tab)
    c = _mk(op, tab, pid, S, any(e[0] == "ct" for e in evs), cache, [], "clock-%s-%s%s" % (op, pat, "-prior_" + prior if prior else ""))
    c["clock"] = evs
    return c


def _vanish_exhaustive():
    import itertools
    out = []
    P, S = [5, 7], [10, 20]
    per = [(pp, st) for pp in [2] + P for st in S]
    for combo in itertools.product(per, repeat=2):
        tab = [[2, 0, 5]] + [[p, pp, st] for p, (pp, st) in zip(P, combo)]
        for pid, _, st in tab[1:]:
            victim = [x for x in P if x != pid][0]
            for op in OPS:
                for k in range(MAXK[op] + 1):
                    out.append(_mk(op, tab, pid, st, False, None, [], "exh-vanish-" + op, vanish=[[victim, k]]))
    return out


def _ownpid_block():
    """Wave 8: the observer's own os.getpid() has the SAME NUMBER as a PID of the inspected table (foreign PID namespace /
    another procfs through PROCFS_PATH): the handle's PID, or a relative's.  Systematic (own fixed rng, never sampled):
    (a) every table over PIDs {5,7} x ppid in {5,7,unlisted 3}, every caller alive / recycled / gone, all four calls, own pid =
        the caller's PID or the other listed PID; for a recycled caller also after is_running() has already set _pid_reused;
    (b) every history motif of _history_case (warm process_iter() cache, then the table changes) x all four calls x own pid =
        the handle's PID / one of its children / its parent, with and without a prior is_running() on the stale handle."""
    import itertools
    import random
    out = []
    P = [5, 7]
    for combo in itertools.product(P + [3], repeat=2):
        tab = [[p, pp, 10] for p, pp in zip(P, combo)]
        for pid in P:
            for state in ("alive", "recycled", "gone"):
                t = [e for e in tab if not (state == "gone" and e[0] == pid)]
                ident = 10 if state != "recycled" else 4
                for own in P:
                    for pre in ((None, "is_running") if state == "recycled" else (None,)):
                        for op in OPS:
                            c = _mk(op, t, pid, ident, False, None, [],
                                    "ownpid-%s-%s-%s%s" % (op, state, "self" if own == pid else "other", "-flagged" if pre else ""))
                            c["ownpid"] = own
                            if pre:
                                c["pre"] = pre
                            out.append(c)
    r = random.Random(811)
    for mot in HIST_MOTIFS:
        for op in OPS:
            for who in ("self", "child", "parent"):
                c = _history_case(r, mot=mot, op=op)
                tab0 = c["hist"]["tab0"]
                pid = c["pid"]
                if who == "self":
                    own = pid
                elif who == "child":
                    own = [e[0] for e in tab0 if e[1] == pid][0]
                else:
                    own = [e[1] for e in tab0 if e[0] == pid][0] or pid
                c["ownpid"] = own
                if r.random() < 0.5:
                    c["pre"] = "is_running"
                c["cls"] = "ownpid-" + c["cls"] + "-" + who + ("-flagged" if c.get("pre") else "")
                out.append(c)
    return out


def gen_cases(rng, tier):
    n_rand = {"quick": 200, "thorough": 14000, "search": 2500}[tier]
    max_hang = {"quick": 40, "thorough": 400, "search": 40}[tier]
    cases = []
    hang = 0
    # ---- exhaustive small scope
    if tier == "thorough":
        P, U, S = [4, 6, 9], 2, [10, 20, 30]
    else:
        P, U, S = [5, 7], 3, [10, 20]
    if tier != "search":
        import itertools
        per = [(pp, st) for pp in P + [U] for st in S]
        for combo in itertools.product(per, repeat=len(P)):
            tab = [[p, pp, st] for p, (pp, st) in zip(P, combo)]
            for pid, _, st in tab:
                for op in OPS:
                    cases.append(_mk(op, tab, pid, st, False, None, [], "exh-" + op))
        cases.extend(_vanish_exhaustive())
        cases.extend(_tick0_exhaustive())
        cases.extend(_copy_exhaustive())
        cases.extend(_ownpid_block())
    # ---- multi-step histories (warm process_iter() cache) and vanish points
    n_hist = {"quick": 120, "thorough": 4000, "search": 800}[tier]
    n_van = {"quick": 100, "thorough": 4000, "search": 600}[tier]
    for _ in range(n_hist):
        c = _history_case(rng)
        cases.append(_with_copy(rng, c) if rng.random() < 0.35 else c)
    for _ in range(n_van):
        cases.append(_vanish_case(rng))
    for _ in range({"quick": 200, "thorough": 4000, "search": 800}[tier]):
        c = _clock_case(rng)
        cases.append(_with_copy(rng, c) if rng.random() < 0.25 else c)
    for _ in range({"quick": 30, "thorough": 400, "search": 60}[tier]):
        cases.append(_unknown_ident_case(rng))
    # ---- random
    for _ in range(n_rand):
        tab, motif = _random_table(rng)
        d = {e[0]: e for e in tab}
        op = rng.choice(OPS)
        # caller: prefer nodes with children / on motifs
        cand = [e[0] for e in tab]
        parents_with_kids = [e[1] for e in tab if e[1] in d]
        pid = rng.choice(parents_with_kids) if parents_with_kids and rng.random() < 0.6 else rng.choice(cand)
        r = rng.random()
        state = "alive" if r < 0.8 else ("recycled" if r < 0.92 else "gone")
        ident = d[pid][2]
        if state == "recycled":
            ident = d[pid][2] + rng.choice([-7, -1, 1, 30])
            if ident < 0:
                ident = d[pid][2] + 1
        if state == "gone":
            tab = [e for e in tab if e[0] != pid]
            if not tab:                     # a process table is never empty (the process running psutil is listed)
                tab = [[pid + 1, pid if rng.random() < 0.7 else 0, ident]]
        cached = rng.random() < 0.5
        cache = None
        gone = []
        if op in ("parent", "parents"):
            r = rng.random()
            live = [e[0] for e in tab]
            if r < 0.4 or not live:
                cache = None
            elif r < 0.8 or state != "alive":
                cache = min(live)
            else:
                cache = rng.choice(live + [0, 1, 500])
        elif rng.random() < 0.25:
            others = [e[0] for e in tab if e[0] != pid]
            if others:
                gone = rng.sample(others, min(len(others), rng.choice([1, 1, 2, 3])))
        if op == "parents" and state == "alive" and _chain_hangs(tab, pid, cache):
            hang += 1
            if hang > max_hang:
                continue
        cls = op + ("-" + state if state != "alive" else "") + ("-" + "+".join(motif) if motif else "") + \
            ("-vanish" if gone else "")
        if len(tab) < 2:
            cls = "trivial"
        c = _mk(op, tab, pid, ident, cached, cache, gone, cls)
        cases.append(_with_copy(rng, c) if rng.random() < 0.2 and cls != "trivial" else c)
    # ---- size / depth: spread over the case list so that the (slower) Coq evaluations land in different shards
    big = _big_cases()
    step = max(1, len(cases) // (len(big) + 1))
    for i, c in enumerate(big):
        cases.insert(min(len(cases), (i + 1) * step + i), c)
    return cases


# ------------------------------------------------------------------ Coq terms
def _fx():
    return "(mk_fixes %s %s %s %s %s %s)" % (G.bo(FIXES["skip_self"]), G.bo(FIXES["parents_seen"]), G.bo(FIXES["parent_reuse"]),
                                             G.bo(FIXES["parents_nsp"]), G.bo(FIXES["mono"]), G.bo(FIXES["ident_some"]))


PRIOR_CALLS = ("children", "children_rec", "parent", "parents", "as_dict")


def _hev(e, case):
    """Coq event of one step of the caller's history.  An earlier children()/parent()/parents() call on the same object does
    not touch the clock state in the code as it is (the age tests use the identity's start time, not create_time());
    as_dict() reads create_time().  For the model of the code BEFORE e49a6c9 (C05_OLD=mono) an earlier call filled the
    create_time() cache when it compared anything: approximated by 'ct' (exact unless nothing was compared)."""
    if e[0] == "ct" or e[0] == "as_dict":
        return "HCt"
    if e[0] == "boot":
        return "HBoot"
    if e[0] == "set":
        return "(HSet %s)" % G.z(e[1])
    if e[0] in PRIOR_CALLS:
        return None if FIXES["mono"] else "HCt"
    raise ValueError(e)


def clock_events(case):
    """The clock history of the caller object before the call: list of ["ct"] | ["set", btime seconds] | ["boot"]."""
    if "clock" in case:
        return case["clock"]
    return [["ct"]] if case["cached"] else []


SHAPES = {"chain": 0, "star": 1, "comb": 2}
COPY_HOW = {"copy": 1, "deepcopy": 2, "pickle": 3}


def _with_copy(rng, c):
    """history step: copy the caller (copy.copy / copy.deepcopy / pickle round trip), before or after the table changed under
    the original, and ask the COPY."""
    c["copy"] = rng.choice(["copy", "copy", "copy", "deepcopy", "pickle"])
    c["copy_when"] = rng.choice(["before", "after", "after"])
    c["cls"] = c["cls"] + "-" + c["copy"]
    return c


def _copy_exhaustive():
    """Every table over PIDs {5,7} x ppid in {5,7,unlisted 3} (start 10), every caller alive / recycled / gone, all four calls
    asked on a copy made AFTER the change, by each of the three protocols."""
    import itertools
    out = []
    P = [5, 7]
    for combo in itertools.product(P + [3], repeat=2):
        tab = [[p, pp, 10] for p, pp in zip(P, combo)]
        for pid in P:
            for state in ("alive", "recycled", "gone"):
                t = [e for e in tab if not (state == "gone" and e[0] == pid)]
                ident = 10 if state != "recycled" else 4
                for how in ("copy", "deepcopy", "pickle"):
                    for op in OPS:
                        c = _mk(op, t, pid, ident, how == "copy" and state == "recycled", None, [], "exh-copy-%s-%s" % (how, state))
                        c["copy"] = how
                        c["copy_when"] = "after"
                        out.append(c)
    return out


def big_table(big):
    """The table of a 'big' case from its seed -- the same definition as gen_chain / gen_star / gen_comb in coq/C05/Spec.v."""
    n, w = big["n"], big.get("w", 0)
    if big["shape"] == "chain":
        return [[i, i - 1, i] for i in range(1, n + 1)]
    if big["shape"] == "star":
        return [[1, 0, 1]] + [[i, 1, i] for i in range(2, n + 2)]
    if big["shape"] == "comb":
        return [[i, i - 1, i] for i in range(1, n + 1)] + \
               [[n + (i - 1) * w + j, i, i] for i in range(1, n + 1) for j in range(1, w + 1)]
    raise ValueError(big)


def _big_cases():
    """Depth and width beyond the interpreter's recursion limit: chains of 1100 (default limit 1000), chains / combs of 300
    under sys.setrecursionlimit(150) or called from a Python stack that is already ~850 frames deep, a star of 2000."""
    out = []

    def add(op, shape, n, k, w=0, limit=None, deep=0, cache=None):
        tab0 = {"chain": k, "star": k, "comb": None}[shape]
        ident = tab0 if tab0 is not None else dict((e[0], e[2]) for e in big_table({"shape": shape, "n": n, "w": w}))[k]
        c = _mk(op, [], k, ident, False, cache, [], "big-%s-%s%s%s" % (shape, op, "-limit" if limit else "", "-deepstack" if deep else ""))
        c["big"] = {"shape": shape, "n": n, "w": w}
        if limit:
            c["limit"] = limit
        if deep:
            c["deep"] = deep
        out.append(c)
    add("children_rec", "chain", 1100, 1)
    add("children_rec", "chain", 1100, 500)
    add("parents", "chain", 1100, 1100)
    add("parent", "chain", 1100, 1100)
    add("children_rec", "chain", 300, 1, limit=150)
    add("parents", "chain", 300, 300, limit=150)
    add("children_rec", "chain", 300, 2, deep=850)
    add("parents", "chain", 300, 299, deep=850)
    add("children", "star", 2000, 1)
    add("children_rec", "star", 2000, 1, limit=150)
    add("children_rec", "comb", 300, 1, w=2, limit=150)
    add("parents", "comb", 300, 300 + 299 * 2 + 1, w=2, limit=150)
    return out


def coq_term(case):
    if case.get("big"):
        b = case["big"]
        return "run_big %s %s %s %s %s %s %s" % (_fx(), G.z(OPS.index(case["op"])), G.z(SHAPES[b["shape"]]), G.z(b["n"]),
                                                 G.z(b.get("w", 0)), G.z(case["pid"]), G.opt(case["cache"], G.z))
    tab = G.lst(["(%s,%s,%s)" % (G.z(p), G.z(pp), G.z(s)) for p, pp, s in case["tab"]])
    evs = G.lst([t for t in (_hev(e, case) for e in clock_events(case)) if t])
    obj = "(mk_obj %s %s %s %s %s)" % (G.bo(not case.get("unknown_ident")), G.z(case["pid"]), G.z(case["ident"]), G.z(BTIME0), evs)
    gone, goneb = vanish_sets(case)
    if case.get("copy"):
        how = G.z(COPY_HOW[case["copy"]])
        return "after_copy %s %s (run_%s %s %s %s %s %s (copied %s %s))" % (
            how, obj, case["op"], _fx(), tab, G.zs(gone), G.zs(goneb), G.opt(case["cache"], G.z), how, obj)
    return "run_%s %s %s %s %s %s %s" % (case["op"], _fx(), tab, G.zs(gone), G.zs(goneb), G.opt(case["cache"], G.z), obj)


TAGS = ["alive", "recycled", "self_desc", "self_parent", "chain_cyclic", "stale", "is_lowest", "ancestor_vanishes", "clock_skew"]


def coq_struct(case, raw):
    model, spec, tags = raw
    return {"model": model, "spec": spec, "tags": dict(zip(TAGS, tags))}


def finding_key(case, coq):
    tg = coq.get("tags") or {}
    if not tg:
        return None
    op = case["op"]
    if tg["alive"] and not FIXES["skip_self"]:
        if op == "children" and tg["self_parent"]:
            return "children-yields-caller"
        if op == "children_rec" and tg["self_desc"]:
            return "children-yields-caller"
    if op == "parents" and tg["alive"] and tg["chain_cyclic"] and not FIXES["parents_seen"]:
        return "parents-nonterminating"
    if tg["alive"] and tg["clock_skew"] and not FIXES["mono"]:     # only with C05_OLD=mono
        return "age-test-mixes-clocks"
    if op == "parents" and tg["alive"] and tg["ancestor_vanishes"] and not FIXES["parents_nsp"]:
        return "parents-ancestor-vanishes"
    if op in ("parent", "parents") and tg["alive"] and tg["stale"]:
        return "parent-stale-lowest-pid-cache"
    if op in ("parent", "parents") and tg["recycled"] and tg["is_lowest"] and not FIXES["parent_reuse"]:
        return "parent-recycled-lowest-pid"
    return None


def _is_val_list(x):
    return isinstance(x, dict) and x.get("t") == "Val" and isinstance(x["a"][0], list)


def _is_exc(x, name=None):
    return isinstance(x, dict) and x.get("t") == "Exc" and (name is None or x["a"][0].get("t") == name)


def judge(case, coq, impl):
    from pv.core import Verdict
    model, spec = coq["model"], coq["spec"]
    if isinstance(model, dict) and model.get("t") == "OutOfModel":
        return Verdict("skip", "table outside the model")
    op = case["op"]
    tg = coq.get("tags") or {}
    ok = True
    why = ""
    if isinstance(impl, dict) and impl.get("t") == "NoCopy":
        # the copy protocol created no object: nothing was asked, nothing is demanded of the four calls
        return Verdict("ok") if impl == model else Verdict("corr", "impl %r != model %r" % (impl, model))
    # whatever the table and whatever vanishes meanwhile: the only exception these calls may let out is
    # NoSuchProcess for the CALLER's pid, and only when the caller is gone or recycled
    if _is_exc(impl) and not (_is_exc(impl, "NoSuchProcess") and not tg.get("alive", False)):
        ok, why = False, "%s() of %d raises %s%s" % (
            op, case["pid"], impl["a"][0].get("t"),
            " (NoSuchProcess for another PID than the caller's)" if _is_exc(impl, "NoSuchProcessOther") else
            " although the caller is alive" if _is_exc(impl, "NoSuchProcess") else "")
    elif spec is None:
        pass                                        # caller's PID absent: a value or NoSuchProcess(caller), checked above
    elif isinstance(spec, dict) and spec.get("t") == "Cyclic":
        if isinstance(impl, dict) and impl.get("t") == "Timeout":
            ok, why = False, "parents() does not terminate (parent chain is cyclic)"
    elif op in ("children", "children_rec") and _is_val_list(spec):
        if not _is_val_list(impl):
            ok, why = False, "%s(): %r, demanded %r" % (op, impl, spec)
        else:
            got = [tuple(x) for x in impl["a"][0]]
            want = [tuple(x) for x in spec["a"][0]]
            if len(set(x[0] for x in got)) != len(got):
                ok, why = False, "a process is returned twice: %r" % (got,)
            elif sorted(got) != sorted(want):
                extra = sorted(set(got) - set(want))
                stale = [x for x in extra if x[0] in [w[0] for w in want]]
                ok, why = False, "%s() of %d returns (pid, start ticks) %r, demanded set %r%s%s" % (
                    op, case["pid"], got, sorted(want),
                    " (contains the caller itself)" if case["pid"] in [x[0] for x in extra] else "",
                    " (object with a stale identity: %r)" % (stale,) if stale else "")
    elif impl != spec:
        ok, why = False, "%s() of %d: %r, demanded %r" % (op, case["pid"], impl, spec)
    if not ok:
        return Verdict("violation", why)
    if impl != model:
        return Verdict("corr", "impl %r != model %r" % (impl, model))
    return Verdict("ok")


# ------------------------------------------------------------------ implementation side
def _write_stat(root, pid, ppid, start):
    from pv import fakeproc
    d = os.path.join(root, str(pid))
    os.makedirs(d, exist_ok=True)
    tmp = os.path.join(d, "stat.tmp")
    with open(tmp, "wb") as f:
        f.write(fakeproc.stat_line(pid, ppid=ppid, starttime=start))
    os.replace(tmp, os.path.join(d, "stat"))


def impl_run(case, coq, env):
    """own-pid aliasing (case['ownpid']): os.getpid answers a PID of the table for the whole case -- from the creation of the
    handle to the call -- as it does for an observer whose own PID number is also listed in the inspected (foreign) procfs."""
    own = case.get("ownpid")
    if own is None:
        return _impl_run(case, coq, env)
    real_getpid = os.getpid
    os.getpid = lambda: own
    try:
        return _impl_run(case, coq, env)
    finally:
        os.getpid = real_getpid


def _impl_run(case, coq, env):
    import builtins
    import psutil
    from psutil import _pslinux
    from pv import fakeproc
    root = os.path.join(env["work"], "proc")
    fp = fakeproc.FakeProc(root, btime=BTIME0)   # wipes and recreates the tree, writes /proc/stat (btime)
    fakeproc.attach(psutil, root)         # also clears psutil._pmap / _pids_reused
    clk = _pslinux.CLOCK_TICKS
    tab = big_table(case["big"]) if case.get("big") else case["tab"]
    pid, ident = case["pid"], case["ident"]
    order = [e[0] for e in tab]
    hist = case.get("hist")
    real_listdir = os.listdir
    broot = os.fsencode(root)

    def fake_listdir(path=".", *a):
        r = real_listdir(path, *a)
        if path == root or path == broot:
            have = {os.fsdecode(x) for x in r}
            out = [str(p) for p in order if str(p) in have]
            out += sorted((x for x in have if x.isdigit() and x not in out), key=int) + sorted(x for x in have if not x.isdigit())
            assert len(out) == len(have), (out, have)
            return [os.fsencode(x) for x in out] if isinstance(path, bytes) else out
        return r

    def set_table(t):
        keep = {str(e[0]) for e in t}
        for name in real_listdir(root):
            if name.isdigit() and name not in keep:
                shutil.rmtree(os.path.join(root, name))
        for p, pp, st in t:
            _write_stat(root, p, pp, st)

    nocopy = None
    os.listdir = fake_listdir
    try:
        if hist:
            # ---- history: warm process_iter() cache, memoised create_time() on some objects, then the table changes
            set_table(hist["tab0"])
            objs = {p.pid: p for p in psutil.process_iter()}
            assert sorted(objs) == sorted(e[0] for e in hist["tab0"]), (sorted(objs), hist["tab0"])
            for p in hist["ct"]:
                objs[p].create_time()
            obj = objs[pid] if hist["from_iter"] else psutil.Process(pid)
            assert int(round(obj._ident[1] * clk)) == ident
            if case["cached"]:
                obj.create_time()
            if case.get("copy") and case.get("copy_when") == "before":
                obj, nocopy = _copy_of(obj, case["copy"])
            set_table(tab)
        else:
            set_table(tab)
            # ---- the caller object, created while its PID belonged to the process started at tick `ident`
            cur = {e[0]: e for e in tab}.get(pid)
            _write_stat(root, pid, cur[1] if cur else 0, ident)
            if case.get("unknown_ident"):
                # the start time cannot be read while the object is created (EACCES): _ident[1] is None
                ro = builtins.open
                cstat = os.path.join(root, str(pid), "stat")

                def denying_open(file, *a, **kw):
                    if file == cstat:
                        raise PermissionError(13, "Permission denied", file)
                    return ro(file, *a, **kw)
                builtins.open = denying_open
                try:
                    obj = psutil.Process(pid)
                finally:
                    builtins.open = ro
                assert obj._ident[1] is None
            else:
                obj = psutil.Process(pid)
                assert obj._ident[1] is not None and int(round(obj._ident[1] * clk)) == ident
            # ---- clock history on this object: create_time() calls, steps of the btime line, psutil.boot_time() calls
            for ev in clock_events(case):
                if ev[0] == "ct":
                    obj.create_time()
                elif ev[0] == "set":
                    fp.set_btime(ev[1])
                elif ev[0] == "boot":
                    psutil.boot_time()
                elif ev[0] == "as_dict":
                    obj.as_dict(attrs=["pid", "create_time", "ppid"])
                elif ev[0] in PRIOR_CALLS:           # an earlier call on the same object; its answer is not looked at
                    try:
                        {"children": obj.children, "children_rec": lambda: obj.children(recursive=True),
                         "parent": obj.parent, "parents": obj.parents}[ev[0]]()
                    except psutil.Error:
                        pass
                else:
                    raise ValueError(ev)
            if case.get("copy") and case.get("copy_when") == "before":
                obj, nocopy = _copy_of(obj, case["copy"])
            if cur is None:
                shutil.rmtree(os.path.join(root, str(pid)))
            else:
                _write_stat(root, pid, cur[1], cur[2])
        if case.get("copy") and case.get("copy_when") != "before":
            obj, nocopy = _copy_of(obj, case["copy"])
    except BaseException:
        os.listdir = real_listdir
        raise
    if nocopy is not None:
        # the copy protocol raised: no object was created, nothing can be asked
        os.listdir = real_listdir
        return T("NoCopy", T(nocopy))
    if case.get("pre") == "is_running":
        # an earlier is_running() on the handle after the change: sets _pid_reused on a stale handle (never used with a
        # vanished caller: the sticky _gone flag belongs to C01)
        try:
            obj.is_running()
        except BaseException:
            os.listdir = real_listdir
            raise
    # ---- patches: vanish points (k-th open of the victim's stat file), legacy vanish after the ppid_map() snapshot,
    #      lowest-PID cache
    real_ppid_map = psutil._ppid_map

    def vanishing_ppid_map():
        m = real_ppid_map()
        for g in case["gone"]:
            shutil.rmtree(os.path.join(root, str(g)), ignore_errors=True)
        return m
    victims = {os.path.join(root, str(v), "stat"): [k, 0] for v, k in case.get("vanish", [])}
    real_open = builtins.open

    def counting_open(file, *a, **kw):
        ent = victims.get(file) if isinstance(file, str) else None
        if ent is not None:
            if ent[1] == ent[0]:
                shutil.rmtree(os.path.dirname(file), ignore_errors=True)
            ent[1] += 1
        return real_open(file, *a, **kw)
    old_lowest = psutil._LOWEST_PID
    old_handler = signal.getsignal(signal.SIGALRM)
    model = coq.get("model") if isinstance(coq, dict) else None
    expect_hang = isinstance(model, dict) and model.get("t") == "Timeout"

    class _Hang(BaseException):
        pass

    def on_alarm(signum, frame):
        raise _Hang()

    def ident_of(p):
        assert isinstance(p, psutil.Process)
        return [p.pid, int(round(p._ident[1] * clk))]

    def conv_list(r):
        return [ident_of(c) for c in r]

    def conv_parent(r):
        return None if r is None else ident_of(r)

    op = case["op"]
    call, conv = {
        "children": (lambda: obj.children(), conv_list),
        "children_rec": (lambda: obj.children(recursive=True), conv_list),
        "parent": (lambda: obj.parent(), conv_parent),
        "parents": (lambda: obj.parents(), conv_list),
    }[op]

    def deep_call(fn, d):
        return fn() if d <= 0 else deep_call(fn, d - 1)

    def run():
        import sys
        old_limit = sys.getrecursionlimit()
        try:
            if case.get("limit"):
                sys.setrecursionlimit(case["limit"])        # a lowered recursion limit around the call
            try:
                return deep_call(call, case.get("deep", 0))      # ... or a call from an already deep Python stack
            finally:
                sys.setrecursionlimit(old_limit)
        except RecursionError:
            raise _Recursion() from None
        except psutil.NoSuchProcess as e:
            if e.pid != pid:
                raise _OtherNSP() from None
            raise

    psutil._ppid_map = vanishing_ppid_map
    psutil._LOWEST_PID = case["cache"]
    signal.signal(signal.SIGALRM, on_alarm)
    if victims:
        builtins.open = counting_open
    try:
        try:
            signal.setitimer(signal.ITIMER_REAL, HANG_S if expect_hang else SLOW_S)
            try:
                res = outcome(run, conv)      # _Hang is a BaseException: outcome() maps it to Exc("_Hang")
            finally:
                signal.setitimer(signal.ITIMER_REAL, 0)
        except _Hang:
            res = Exc("_Hang")
        if res == Exc("_Hang"):
            res = T("Timeout")
        if res == Exc("_OtherNSP"):
            res = Exc("NoSuchProcessOther")
        if res == Exc("_Recursion"):
            res = Exc("RecursionError")
    finally:
        builtins.open = real_open
        signal.signal(signal.SIGALRM, old_handler)
        os.listdir = real_listdir
        psutil._ppid_map = real_ppid_map
        psutil._LOWEST_PID = old_lowest
    return res


def _copy_of(obj, how):
    """(the copy, None) or (the original, name of the exception the protocol raised)."""
    import copy
    import pickle
    from pv.canon import exc_name
    try:
        if how == "copy":
            c = copy.copy(obj)
        elif how == "deepcopy":
            c = copy.deepcopy(obj)
        elif how == "pickle":
            c = pickle.loads(pickle.dumps(obj))
        else:
            raise ValueError(how)
    except Exception as e:  # noqa
        if isinstance(e, ValueError) and str(e) == how:
            raise
        return obj, exc_name(e)
    assert c is not obj
    return c, None


class _Recursion(Exception):
    """RecursionError escaped from the call."""


class _OtherNSP(Exception):
    """NoSuchProcess raised for another PID than the caller's."""


MANIFEST = {
    "text": "Theorems (Coq, closed under the global context) about a line-by-line model of Process.children/parent/parents/ppid and "
            "ppid_map over an arbitrary process table (pid, ppid, start ticks; self-loops, cycles, unlisted parents, any start order, "
            "any size, processes vanishing after the snapshot): children() = exactly the listed processes naming the caller as parent, not "
            "older than it, never the caller; children(recursive=True) terminates within |table|+1 loop iterations on ANY parent-link graph, "
            "returns every process at most once, never the caller, and exactly the processes reachable through parent links; parent() = the "
            "process named by ppid() unless unlisted or younger (None for the root; hypothesis: lowest-PID cache fresh); parents() terminates "
            "within |table|+1 steps on ANY table, is the chain of parent() whenever that chain ends, and the chain ends on every table without "
            "cyclic links; every call raises NoSuchProcess for a recycled caller; a parent that vanishes before its create_time() was read is no parent; parents() terminates whatever vanishes meanwhile. Refuted statements kept for the code before the repairs "
            "this check led to (caller returned by children() on a ppid cycle; parents() not terminating on a self-loop; recycled lowest PID "
            "got None) (also: parents() of a live caller raised NoSuchProcess when an ancestor vanished after it was appended -- now proved to return a "
            "list under any vanish sets, namely the chain demanded under vanishing) and for the known finding (stale lowest-PID cache). The model is tied to the code by running both on random and "
            "exhaustively enumerated tables written into a fake /proc, on multi-step histories with a warm process_iter() cache (answer demanded "
            "from the final table, objects compared by (pid, start ticks)) and with a process removed before each k-th open of its stat file; the harness oracle for descendants is proved equal to the inductive set.",
    "note": "Trusted: Coq kernel + vm_compute; hand-written model coq/C05/Model.v (tied by the correspondence run; the control flow of children() -- guards, comparison operators, order of "
            "checks, exception handlers, both loops, seen set, stack -- additionally by translation: coq/Gen/C05_Tables.v c05_children is generated from "
            "the ast on every run and C05_gen_children_direct / C05_gen_children_rec prove the interpreter on it equal to the model; likewise parent() (c05_parent, C05_gen_parent, no hypothesis); parents(), "
            "_start_times, Process(pid), ppid_map stay tied by the correspondence run only); translator props/_c05_gen.py + interpreter coq/C05/PyGen.v; harness (fake /proc, "
            "os.listdir order patch, ppid_map wrapper, itimer guard); CPython floats/dicts/sets. Proof covers the model, sampling covers model-vs-code.",
}
