"""Shared harness of C01 / C02: histories of kernel events (spawn, exit->zombie, reap, clock step) and psutil calls,
run on the Coq machine (coq/Proc) and on the real psutil over a fake /proc + recorded system calls.

case = {"kind": "hist", "cls": ..., "evs": [event, ...]} with events
  ["spawn", pid, start, ppid, comm] (comm optional, default "proc") ["thread", pid] (one more thread: stat field 20)
  ["exit", pid] ["reap", pid] ["clock", d] ["deny", pid] / ["allow", pid] (reading /proc/<pid>/stat fails with EACCES / works)
  ["new", pid] ["popen", pid] (psutil.Popen over a stub subprocess.Popen with that pid) ["os_enter", o] ["os_exit", o]
  (o.oneshot() block entered / innermost left) ["asdict", o] (o.as_dict(attrs=["ppid"])) ["isrun", o] ["eq", a, b] ["hasheq", a, b] ["ppid", o] ["ctime", o] ["boot"] ["iter"]
  ["wait", o, vis] (o.wait(timeout=0) through the real _psposix.wait_pid; os.waitpid answers ECHILD -- not a child of
  the caller --, os.kill(pid, 0) sees the PID iff vis (default true) and it is in the table: vis = false is a foreign procfs)
  ["waitprocs", o, vis] (psutil.wait_procs([o], timeout=0): is o reported gone?) ["iterstart"] (g = process_iter())
  ["iternext", g] (next(g))
  ["copy", o, how] how in copy/deepcopy/pickle (copy.copy(o), copy.deepcopy(o), pickle.loads(pickle.dumps(o))): a new object
  or the exception the tree under test raises; ["pdump", o] (pickle.dumps(o), kept) ["pload", o] (pickle.loads of it)
  ["set", o, [method, args...]]   method in signal/suspend/resume/terminate/kill/nice/ionice/rlimit/affinity
Objects are numbered in order of creation (psutil.Process(pid) and objects first yielded by process_iter()).
"""
import errno
import os
import sys

from pv import gallina as G
from pv.canon import Exc, T, Val, exc_name

COQ_REQUIRE = "Proc.Run"
COQ_DIRS = ["Proc"]
BTIME0 = 1500000000
KERNEL_EVENTS = ("spawn", "thread", "exit", "reap", "clock", "deny", "allow")
IMPORT_PID = 7      # the PID psutil believes it was imported under (os.getpid() is patched during the import only):
                    # the worker is then like a forked child, and PID 7 -- its "parent" -- is an ordinary, recyclable
                    # process of the fake kernel
_real_getpid = []
# which object protocols the tree under test supports for Process objects (probed by gen_tables; the default is the
# unchanged tree: copy.copy gives a shallow copy, deepcopy / pickle raise TypeError because of the RLock)
COPY_OK = {"copy": True, "deepcopy": False, "pickle": False}


def probe_copy_support(impl_dir):
    import json
    import subprocess
    code = ("import os, json, copy, pickle, psutil\np = psutil.Process(os.getpid())\nr = {}\n"
            "for k, f in (('copy', copy.copy), ('deepcopy', copy.deepcopy), ('pickle', lambda x: pickle.loads(pickle.dumps(x)))):\n"
            "    try:\n        r[k] = isinstance(f(p), psutil.Process)\n    except Exception:\n        r[k] = False\n"
            "print(json.dumps(r))")
    env = dict(os.environ, PYTHONPATH=impl_dir)
    out = subprocess.run(["/venv/bin/python", "-c", code], env=env, stdout=subprocess.PIPE, stderr=subprocess.PIPE, text=True)
    if out.returncode != 0:
        raise RuntimeError("copy-support probe failed: " + out.stderr[-800:])
    COPY_OK.update(json.loads(out.stdout.strip().splitlines()[-1]))
    return dict(COPY_OK)


def impl_setup(env):
    """Runs in the worker before psutil is imported."""
    if not _real_getpid:
        _real_getpid.append(os.getpid)
        os.getpid = lambda: IMPORT_PID
PID_MAX = 2 ** 31
PIDS = [0, 1, 2, 3, 7, 2 ** 31 - 1]
BAD_PIDS = [-1, -7, 5, 2 ** 31, 2 ** 64]
STARTS = [b + d for b in (0, 100, 5000, 123456, 2 ** 31, 2 ** 40, 10 ** 12 + 7) for d in (0, 1, 2)]
# process names: blanks (0-3), parentheses, 15 bytes (the kernel's limit), digits that look like stat fields
COMMS = ["proc", "a b", "a b c", "w x y z", "(sd-pam)", "a) (b", ") 1 2", "Web Content", "fifteen bytes 15", "x  y", "1 2 3"]
COMMS = [c[:15] for c in COMMS]
SIGS = [0, 1, 2, 9, 15, 17, 18, 19, 64]
SETTER_KINDS = ["signal", "suspend", "resume", "terminate", "kill", "nice", "ionice", "rlimit", "affinity"]

TRUSTED = ["live cases: the Linux kernel's sched_setaffinity/setpriority/ioprio_set/prlimit semantics as transcribed in coq/Proc/Live.v "
           "(mask intersected with the eligible CPUs, EINVAL when empty; nice clamped), read back with os.sched_getaffinity, "
           "os.getpriority, the ioprio_get syscall and resource.prlimit",
           "correspondence harness props/_proc_common.py + pv/ (fake /proc tree; os.kill, cext_posix.setpriority, "
           "cext.proc_ioprio_set, cext.proc_cpu_affinity_set, resource.prlimit replaced by recorders that answer ESRCH "
           "exactly when the PID has no /proc entry)",
           "ghost incarnation numbers and the demanded answers in coq/Proc/Spec.v (written from the property text)"]
ASSUMPTIONS = ["the C01 delivery theorems are for calls with no kernel event between psutil's identity check and its system call; the "
               "window is modelled (event ER): a PID recycled inside it receives the request (theorem C01_two_step_receiver_refuted, "
               "reproduced on the implementation by the class race-toctou) -- the TOCTOU inherent in PIDs; the identity probe itself "
               "and all getters are atomic",
               "two starts of one PID never carry the same start tick (psutil's documented assumption; hypothesis wf_hist)",
               "identity float starttime/CLK_TCK is an injective image of the tick count for ticks < 2^52; the model keeps ticks",
               "CPython tuple hashing does not collide on the sampled identities",
               "the theorems over well-formed histories assume /proc/<pid>/stat readable (no Deny event); objects without identity and "
               "unreadable stat files are exercised (class no-identity) against the model and the every-history theorems only",
               "EPERM answers of the kernel (AccessDenied) and the non-Linux branches of __eq__/_get_ident/send_signal are outside the model"]


# ------------------------------------------------------------------ shadow (generator only)
class Shadow:
    """Light re-implementation of the machine, used ONLY to generate well-formed, in-range, interesting histories."""

    def __init__(self):
        self.table = {}     # pid -> [inc, start, zomb]
        self.starts = {}    # pid -> set of starts used
        self.last_start = {}
        self.nextinc = 0
        self.objs = []      # [pid, start, gone, reused, inc]
        self.gens = []      # [started, done, ls, pm]
        self.denied = set()
        self.exitc = set()  # objects whose exit code is cached
        self.shared = set() # objects that share _proc with a copy
        self.popens = set() # objects built by psutil.Popen (copy.copy of those ends in a RecursionError: never copied here)
        self.depth = {}     # object -> depth of open oneshot blocks
        self.cppid = set()  # objects whose ppid() is memoized in the current block
        self.pmap = {}
        self.reused = set()

    def free_pids(self):
        return [p for p in PIDS if p not in self.table]

    def spawn(self, pid, start):
        self.last_start[pid] = start
        self.table[pid] = [self.nextinc, start, False]
        self.starts.setdefault(pid, set()).add(start)
        self.nextinc += 1

    def alive(self, o):
        x = self.objs[o]
        return x[0] in self.table and self.table[x[0]][0] == x[4]

    def owned(self, o):
        return self.objs[o][0] in self.table

    def _new(self, pid, popen=False):
        if 0 <= pid < PID_MAX and pid in self.table:
            start = None if pid in self.denied else self.table[pid][1]
            self.objs.append([pid, start, False, False, self.table[pid][0]])
            return len(self.objs) - 1
        if popen and 0 <= pid < PID_MAX:
            self.objs.append([pid, None, True, False, None])      # child already gone: no identity, _gone
            return len(self.objs) - 1
        return None

    def _isrun(self, o):
        x = self.objs[o]
        if x[2] or x[3]:
            return False
        if x[0] not in self.table:
            x[2] = True
            return False
        other = None if x[0] in self.denied else self.table[x[0]][1]
        if other is None and x[1] is not None:
            return True       # creation time unreadable now: no reuse verdict
        if other != x[1]:
            x[2] = x[3] = True
            self.reused.add(x[0])
            return False
        return True

    def apply(self, e):
        k = e[0]
        if k == "spawn":
            self.spawn(e[1], e[2])
        elif k == "deny":
            self.denied.add(e[1])
        elif k == "allow":
            self.denied.discard(e[1])
        elif k == "exit":
            if e[1] in self.table:
                self.table[e[1]][2] = True
        elif k == "reap":
            self.table.pop(e[1], None)
        elif k == "new":
            self._new(e[1])
        elif k == "popen":
            i = self._new(e[1], popen=True)
            if i is not None:
                self.popens.add(i)
        elif k == "race":
            if e[1] < len(self.objs):
                x = self.objs[e[1]]
                if not (x[2] or x[3]):
                    self._isrun(e[1])
            for ke in e[3]:
                self.apply(ke)
        elif k in ("copy", "pload"):
            how = e[2] if k == "copy" else "pickle"
            if e[1] < len(self.objs) and COPY_OK[how] and self.depth.get(e[1], 0) == 0:
                self.objs.append(list(self.objs[e[1]]))
                if e[1] in self.exitc:
                    self.exitc.add(len(self.objs) - 1)
                self.shared.update((e[1], len(self.objs) - 1))
        elif k == "os_enter":
            if e[1] < len(self.objs) and e[1] not in self.shared:
                self.depth[e[1]] = self.depth.get(e[1], 0) + 1
        elif k == "os_exit":
            if self.depth.get(e[1], 0) > 0:
                self.depth[e[1]] -= 1
                if self.depth[e[1]] == 0:
                    self.cppid.discard(e[1])
        elif k in ("wait", "waitprocs"):
            if e[1] < len(self.objs):
                x = self.objs[e[1]]
                vis = e[2] if len(e) > 2 else True
                none = e[1] in self.exitc or (x[0] > 0 and not (vis and x[0] in self.table))
                if none:
                    self.exitc.add(e[1])
                    if k == "waitprocs":
                        self._isrun(e[1])
        elif k in ("isrun", "ppid", "asdict"):
            if e[1] < len(self.objs):
                if k == "ppid" and self.depth.get(e[1], 0) > 0:
                    if e[1] in self.cppid:
                        return
                    if self._isrun(e[1]):
                        self.cppid.add(e[1])
                    return
                self._isrun(e[1])
        elif k == "set":
            if e[1] < len(self.objs):
                x = self.objs[e[1]]
                if not (x[2] or x[3]):
                    self._isrun(e[1])
                    if e[2][0] in ("signal", "suspend", "resume", "terminate", "kill") and x[0] != 0 and x[0] not in self.table:
                        x[2] = True
        elif k == "iter":
            if self.table:
                a = sorted(self.table)
                b = set(self.pmap)
                pm = {p: i for p, i in self.pmap.items() if p in self.table and p not in self.reused}
                self.reused = set()
                for p in a:
                    if (p in pm and self.objs[pm[p]][3]) or (p not in pm and p not in b):
                        pm.pop(p, None)
                        i = self._new(p)
                        if i is not None:
                            pm[p] = i
                self.pmap = pm
        elif k == "iterstart":
            self.gens.append([False, False, [], {}])
        elif k == "iternext":
            if e[1] < len(self.gens):
                g = self.gens[e[1]]
                if g[1]:
                    return
                if not g[0]:
                    if not self.table:
                        g[0] = g[1] = True
                        return
                    a = sorted(self.table)
                    b = set(self.pmap)
                    pm = {p: i for p, i in self.pmap.items() if p in self.table and p not in self.reused}
                    self.reused = set()
                    g[0], g[2], g[3] = True, [p for p in a if p in pm or p not in b], pm
                while g[2]:
                    p = g[2].pop(0)
                    pm = g[3]
                    if p in pm and not self.objs[pm[p]][3]:
                        return
                    pm.pop(p, None)
                    i = self._new(p)
                    if i is not None:
                        pm[p] = i
                        return
                g[1] = True
                self.pmap = g[3]


def gen_setter(rng):
    k = rng.choice(SETTER_KINDS + ["kill", "signal", "nice"])
    if k == "signal":
        return [k, rng.choice(SIGS)]
    if k in ("suspend", "resume", "terminate", "kill"):
        return [k]
    if k == "nice":
        return [k, rng.choice([-20, -1, 0, 5, 19, 40])]
    if k == "ionice":
        return [k, rng.choice([0, 1, 2, 3, 2, 1, 2, 4, -1, 2 ** 20]), rng.choice([None, 0, 1, 4, 7, 8, -1])]
    if k == "rlimit":
        return [k, rng.choice([0, 7, 15]), rng.choice([[1, 2], [1024, 4096], [-1, -1], [5], [], [1, 2, 3], [0, 0]])]
    return [k, rng.choice([[0], [1, 0], [2, 2, 1], [], [3], [0, 1, 2, 3], [5, 0]])]


def gen_history(rng, n_events, flavour):
    """flavour: 'c01' favours setters after exit/reuse, 'c02' favours ==/hash/is_running and clock steps."""
    sh = Shadow()
    evs = []
    feats = set()

    def emit(e):
        # classify before applying
        k = e[0]
        if k == "set" and e[1] < len(sh.objs):
            if sh.alive(e[1]):
                feats.add("set-zombie" if sh.table[sh.objs[e[1]][0]][2] else "set-alive")
                if sh.objs[e[1]][0] == 0:
                    feats.add("pid0")
            elif sh.owned(e[1]):
                feats.add("set-reused")
                if sh.objs[e[1]][2] and not sh.objs[e[1]][3]:
                    feats.add("set-reused-after-gone")
            else:
                feats.add("set-gone")
        if k == "race" and e[1] < len(sh.objs):
            feats.add("race-window" if e[3] else "race-empty-window")
            if sh.alive(e[1]) and any(x[0] == "reap" and x[1] == sh.objs[e[1]][0] for x in e[3]) \
                    and any(x[0] == "spawn" and x[1] == sh.objs[e[1]][0] for x in e[3]):
                feats.add("race-toctou")
        if k == "isrun" and e[1] < len(sh.objs):
            feats.add("isrun-alive" if sh.alive(e[1]) else ("isrun-reused" if sh.owned(e[1]) else "isrun-gone"))
        if k in ("eq", "hasheq") and max(e[1], e[2]) < len(sh.objs):
            a, b = sh.objs[e[1]], sh.objs[e[2]]
            if e[1] != e[2] and a[0] != b[0] and a[1] is not None and a[1] == b[1]:
                feats.add("eq-other-pid-same-start")
            if (a[1] is None and not a[2]) or (b[1] is None and not b[2]) or (a[1] is None and a[4] is not None) \
                    or (b[1] is None and b[4] is not None):
                feats.add("no-identity")
            elif a[1] is None or b[1] is None:
                feats.add("popen-gone-child")
            if e[1] != e[2] and a[0] == b[0] and None not in (a[1], b[1]) and abs(a[1] - b[1]) == 1:
                feats.add("eq-adjacent-ticks")
            if e[1] != e[2]:
                feats.add("eq-same-proc" if a[4] == b[4] else ("eq-same-pid-other-proc" if a[0] == b[0] else "eq-other-pid"))
        if k == "clock":
            feats.add("clock")
        if k == "thread":
            feats.add("thread")
        if k == "spawn" and len(e) > 4 and " " in e[4]:
            feats.add("comm-blanks")
        if k == "iter":
            feats.add("iter")
        evs.append(e)
        sh.apply(e)

    def some_obj(pred=None):
        c = [i for i in range(len(sh.objs)) if pred is None or pred(i)]
        return rng.choice(c) if c else None

    def spawn_some(pid=None):
        free = sh.free_pids()
        if pid is None:
            if not free:
                return False
            pid = rng.choice(free)
        cand = [s for s in STARTS if s not in sh.starts.get(pid, ())]
        if not cand:
            return False
        start = rng.choice(cand)
        prev = sh.last_start.get(pid)
        if prev is not None and rng.random() < 0.6:
            # PID reuse one tick later / earlier than the previous owner's start (adjacent identities)
            adj = [t for t in (prev + 1, prev - 1) if t >= 0 and t not in sh.starts.get(pid, ())]
            if adj:
                start = adj[0] if rng.random() < 0.8 else adj[-1]
        emit(["spawn", pid, start, rng.choice([0, 1, 2]), rng.choice(COMMS)])
        return True

    def query(o):
        if rng.random() < 0.2 and sh.objs[o][0] in sh.table:
            emit(["thread", sh.objs[o][0]])
        r = rng.random()
        if r < 0.35:
            emit(["isrun", o])
        elif r < 0.5:
            emit(["ppid", o])
        elif r < 0.6:
            emit(["iter"])
        elif r < 0.7:
            emit(["ctime", o])
        elif r < 0.8:
            emit(["boot"])
        elif r < 0.9 and len(sh.objs) > 1:
            emit(["eq", o, rng.randrange(len(sh.objs))])
        else:
            emit(["hasheq", o, rng.randrange(len(sh.objs))])

    def oneshot_motif():
        # guarded calls inside one "with p.oneshot():" block, before and after the process ends and the PID is reused
        o = some_obj(lambda i: sh.alive(i))
        if o is None:
            return
        pid = sh.objs[o][0]
        emit(["os_enter", o])
        if rng.random() < 0.3:
            emit(["os_enter", o])
        for _ in range(rng.choice([0, 1, 2])):
            emit(rng.choice([["ppid", o], ["isrun", o], ["ctime", o], ["set", o, gen_setter(rng)], ["asdict", o]]))
        feats.add("oneshot")
        if rng.random() < 0.85:
            if rng.random() < 0.3:
                emit(["exit", pid])
            emit(["reap", pid])
            if rng.random() < 0.4:
                emit(rng.choice([["ppid", o], ["isrun", o], ["ctime", o]]))
            if rng.random() < 0.8:
                spawn_some(pid)
        emit(["set", o, gen_setter(rng)])
        if rng.random() < 0.5:
            emit(rng.choice([["ppid", o], ["isrun", o], ["set", o, gen_setter(rng)], ["asdict", o]]))
        while sh.depth.get(o, 0) > 0 and rng.random() < 0.8:
            emit(["os_exit", o])
        if rng.random() < 0.5:
            emit(["set", o, gen_setter(rng)])

    def window(o):
        """kernel events happening between psutil's identity check and its system call"""
        pid = sh.objs[o][0]
        r = rng.random()
        if pid not in sh.table or r < 0.15:
            return []
        if r < 0.55:
            # the inherent TOCTOU: reaped and the PID handed out again inside the window
            used = sh.starts.get(pid, set())
            cand = [t for t in (sh.table[pid][1] + 1, sh.table[pid][1] + 2) + tuple(STARTS) if t not in used]
            return ([["exit", pid]] if rng.random() < 0.3 else []) + [["reap", pid]] + \
                   [["spawn", pid, cand[0], 1, rng.choice(COMMS)]]
        if r < 0.7:
            return [["reap", pid]]
        if r < 0.8:
            return [["exit", pid]]
        if r < 0.9:
            return [["thread", pid], ["clock", 5]]
        return [["clock", -7]]

    def race_motif():
        o = some_obj(lambda i: sh.alive(i)) if rng.random() < 0.75 else some_obj()
        if o is None:
            return
        emit(["race", o, gen_setter(rng), window(o)])
        if rng.random() < 0.6:
            emit(rng.choice([["isrun", o], ["set", o, gen_setter(rng)], ["ppid", o]]))

    def blind_motif():
        # an object built while the stat file of its PID cannot be read (no identity); hash before / after the
        # file becomes readable and is_running() is called; PID reuse in between; comparison with fresh objects
        if sh.table and rng.random() < 0.6:
            pid = rng.choice(sorted(sh.table))
        else:
            free = sh.free_pids()
            if not free:
                return
            pid = rng.choice(free)
            spawn_some(pid)
            if pid not in sh.table:
                return
        regular = None
        if rng.random() < 0.4:
            emit(["new", pid])
            regular = len(sh.objs) - 1
        emit(["deny", pid])
        emit(["new", pid] if rng.random() < 0.75 else ["popen", pid])
        x = len(sh.objs) - 1
        feats.add("no-identity")
        emit(["hasheq", x, x])
        for _ in range(rng.choice([0, 1, 2])):
            emit(rng.choice([["isrun", x], ["ppid", x], ["ctime", x], ["asdict", x], ["eqother", x, "ident"],
                             ["isrun", regular if regular is not None else x]]))
        if rng.random() < 0.5:
            emit(["reap", pid])
            if rng.random() < 0.85:
                spawn_some(pid)
            if rng.random() < 0.5:
                emit(["isrun", x])
        if pid in sh.table and rng.random() < 0.4:
            emit(["new", pid])
            emit(["eq", x, len(sh.objs) - 1])
            emit(["hasheq", x, len(sh.objs) - 1])
        if rng.random() < 0.9:
            emit(["allow", pid])
        if rng.random() < 0.5:
            emit(["hasheq", x, x])
        emit(["isrun", x])
        emit(["hasheq", x, x])
        if pid in sh.table:
            emit(["new", pid])
            q = len(sh.objs) - 1
            emit(["eq", x, q])
            emit(["hasheq", q, x])
            emit(["eq", q, x])
        emit(rng.choice([["isrun", x], ["set", x, gen_setter(rng)], ["iter"]]))
        if regular is not None:
            emit(["isrun", regular])
            emit(["eq", regular, x])
        emit(["isrun", x])

    def copy_motif():
        # a copy is another handle on the same incarnation: made while alive or from a STALE original (process gone,
        # PID recycled, nobody has probed since), then ==/hash/is_running/signals/setters on the copy
        o = some_obj(lambda i: sh.alive(i) and sh.depth.get(i, 0) == 0 and i not in sh.popens) if rng.random() < 0.85 \
            else some_obj(lambda i: i not in sh.popens)
        if o is None:
            return
        pid = sh.objs[o][0]
        hows = ["copy", "copy", "deepcopy", "pickle"]
        if rng.random() < 0.4:
            emit(["pdump", o])
        if rng.random() < 0.3:
            emit(["copy", o, rng.choice(hows)])
        stale = False
        if pid in sh.table and rng.random() < 0.8:
            if rng.random() < 0.3:
                emit(["exit", pid])
            emit(["reap", pid])
            stale = True
            if rng.random() < 0.8:
                spawn_some(pid)
        n0 = len(sh.objs)
        emit(["copy", o, rng.choice(hows)])
        if rng.random() < 0.5:
            emit(["pload", o])
        feats.add("copy-stale" if stale else "copy")
        for c in range(n0, len(sh.objs)):
            emit(["eq", c, o])
            emit(["hasheq", o, c])
            emit(rng.choice([["isrun", c], ["set", c, gen_setter(rng)], ["race", c, gen_setter(rng), []]]))
            if pid in sh.table and rng.random() < 0.5:
                emit(["new", pid])
                emit(["eq", c, len(sh.objs) - 1])
            emit(rng.choice([["set", c, gen_setter(rng)], ["isrun", c], ["hasheq", c, o]]))
        emit(rng.choice([["isrun", o], ["set", o, gen_setter(rng)]]))

    def wait_motif():
        # wait() caches the exit code; afterwards the PID is recycled; then guarded calls
        o = some_obj(lambda i: sh.alive(i))
        if o is None:
            return
        pid = sh.objs[o][0]
        if rng.random() < 0.3:
            emit(["wait", o, True])          # still there: TimeoutExpired
        if rng.random() < 0.5:
            # foreign procfs: the caller's namespace does not see the PID although the process is in the table
            emit([rng.choice(["wait", "waitprocs"]), o, False])
            feats.add("wait-foreign")
            emit(["isrun", o])
            if rng.random() < 0.6:
                emit(["new", pid])
                emit(["eq", o, len(sh.objs) - 1])
                emit(["hasheq", len(sh.objs) - 1, o])
            if rng.random() < 0.3:
                emit(["waitprocs", o, rng.random() < 0.5])
            if rng.random() < 0.4:
                emit(["isrun", len(sh.objs) - 1])
                return
        if rng.random() < 0.3:
            emit(["exit", pid])
        emit(["reap", pid])
        emit([rng.choice(["wait", "wait", "waitprocs"]), o, rng.random() < 0.7])
        feats.add("wait")
        if rng.random() < 0.3:
            emit(["wait", o, True])
        if rng.random() < 0.85 and spawn_some(pid):
            feats.add("wait-then-reuse")
        emit(rng.choice([["set", o, gen_setter(rng)], ["isrun", o], ["race", o, gen_setter(rng), []]]))
        emit(rng.choice([["set", o, gen_setter(rng)], ["isrun", o], ["ppid", o]]))

    def overlap_motif():
        # a generator suspended before PID p while the object cached for p is found stale by its holder
        if len(sh.table) < 2:
            spawn_some()
            spawn_some()
        if len(sh.table) < 2:
            return
        emit(["iter"])
        cand = sorted(p for p in sh.pmap if p in sh.table)[1:]
        if not cand:
            return
        p = rng.choice(cand)
        c = sh.pmap[p]
        emit(["reap", p])
        if not spawn_some(p):
            return
        emit(["iterstart"])
        g = len(sh.gens) - 1
        steps = rng.randint(1, max(1, sorted(sh.table).index(p)))
        for _ in range(steps):
            emit(["iternext", g])
        emit(["isrun", c])
        feats.add("iter-overlap")
        for _ in range(rng.randint(1, 4)):
            emit(["iternext", g])
            if rng.random() < 0.5:
                emit(rng.choice([["isrun", c], ["hasheq", c, c], ["eq", c, len(sh.objs) - 1], ["set", c, gen_setter(rng)]]))
        emit(["isrun", c])
        emit(["eq", c, len(sh.objs) - 1])
        if rng.random() < 0.5:
            emit(["iter"])

    def orphan_motif():
        # psutil.Popen whose child is already gone; later the PID gets an owner; compare, probe, signal
        free = sh.free_pids()
        if not free:
            return
        pid = rng.choice(free)
        emit(["popen", pid])
        o = len(sh.objs) - 1
        feats.add("popen-gone-child")
        if rng.random() < 0.4:
            emit(rng.choice([["isrun", o], ["set", o, gen_setter(rng)], ["ppid", o], ["os_enter", o]]))
        if rng.random() < 0.8 and spawn_some(pid):
            emit(["new", pid] if rng.random() < 0.7 else ["popen", pid])
            emit(["eq", o, len(sh.objs) - 1])
            emit(["hasheq", len(sh.objs) - 1, o])
        emit(rng.choice([["set", o, gen_setter(rng)], ["race", o, gen_setter(rng), []], ["isrun", o]]))

    def same_start_motif():
        free = sh.free_pids()
        if len(free) < 2:
            return
        a, b = rng.sample(free, 2)
        cand = [t for t in STARTS if t not in sh.starts.get(a, ()) and t not in sh.starts.get(b, ())]
        if not cand:
            return
        t = rng.choice(cand)
        emit(["spawn", a, t, 1, rng.choice(COMMS)])
        emit(["spawn", b, t, 1, rng.choice(COMMS)])
        emit(["new", a])
        emit(["new", b] if rng.random() < 0.7 else ["popen", b])
        n = len(sh.objs)
        emit(["eq", n - 2, n - 1])
        emit(["hasheq", n - 1, n - 2])

    # a little population first
    for _ in range(rng.choice([1, 2, 3])):
        spawn_some()
    while len(evs) < n_events:
        r = rng.random()
        objs_n = len(sh.objs)
        if r < 0.10:
            spawn_some()
        elif r < 0.16 and sh.table:
            emit(["exit", rng.choice(sorted(sh.table))])
        elif r < 0.22 and sh.table:
            emit(["reap", rng.choice(sorted(sh.table))])
        elif r < 0.25:
            emit(["clock", rng.choice([-100000, -3, -1, 1, 3, 3600, 10 ** 9])])
        elif r < 0.27 and sh.table:
            emit(["thread", rng.choice(sorted(sh.table))])
        elif r < 0.37:
            pid = rng.choice(sorted(sh.table)) if sh.table and rng.random() < 0.85 else rng.choice(PIDS + BAD_PIDS)
            if rng.random() < 0.3 and (pid in sh.table or (0 <= pid < PID_MAX and rng.random() < 0.5)):
                if pid not in sh.table:
                    feats.add("popen-gone-child")
                emit(["popen", pid])
                feats.add("popen")
            else:
                emit(["new", pid])
        elif r < 0.40:
            emit(["boot"])
        elif r < 0.415:
            emit(["iter"])
        elif r < 0.42:
            emit(["iterstart"] if not sh.gens or rng.random() < 0.3 else ["iternext", rng.randrange(len(sh.gens))])
        elif r < 0.425:
            overlap_motif()
        elif r < 0.43:
            orphan_motif()
        elif r < 0.434:
            same_start_motif()
        elif r < 0.44 or (flavour == "c02" and r < 0.45):
            blind_motif()
        elif objs_n == 0:
            continue
        elif r < 0.447:
            wait_motif()
        elif r < 0.462:
            copy_motif()
        elif r < 0.49:
            oneshot_motif()
        elif r < 0.54:
            race_motif()
        elif r < 0.64:
            # motif: end of a process, optional queries, optional reuse, then the call under test
            o = some_obj(lambda i: sh.alive(i)) if rng.random() < 0.8 else some_obj()
            if o is None:
                continue
            pid = sh.objs[o][0]
            if pid in sh.table:
                if rng.random() < 0.3:
                    emit(["exit", pid])
                    if rng.random() < 0.5:
                        query(o)
                emit(["reap", pid])
            for _ in range(rng.choice([0, 0, 1, 2])):
                query(o)
            if rng.random() < 0.75:
                spawn_some(pid)
                if rng.random() < 0.3:
                    emit(["exit", pid])
                for _ in range(rng.choice([0, 0, 1])):
                    query(o)
                if rng.random() < 0.3:
                    emit(["new", pid])
            if flavour == "c01" or rng.random() < 0.4:
                emit(["set", o, gen_setter(rng)])
            else:
                emit(["isrun", o])
                if len(sh.objs) > 1:
                    emit(["eq", o, len(sh.objs) - 1])
                    emit(["hasheq", o, len(sh.objs) - 1])
        elif r < 0.71:
            # motif: clock step, boot_time(), a second object for the same process, compare
            o = some_obj(lambda i: sh.alive(i))
            if o is None:
                continue
            if rng.random() < 0.5:
                emit(["ctime", o])
            emit(["clock", rng.choice([-5, 3, 86400])])
            if rng.random() < 0.5:
                emit(["thread", sh.objs[o][0]])
            if rng.random() < 0.7:
                emit(["boot"])
            emit(["new", sh.objs[o][0]])
            emit(["eq", o, len(sh.objs) - 1])
            emit(["hasheq", len(sh.objs) - 1, o])
            emit(["isrun", o])
            if flavour == "c01":
                emit(["set", o, gen_setter(rng)])
        else:
            o = rng.randrange(objs_n)
            w = rng.random()
            if flavour == "c01" and w < 0.6 or w < 0.25:
                emit(["set", o, gen_setter(rng)])
            elif w < 0.5:
                emit(["isrun", o])
            elif w < 0.65:
                emit(["eq", o, rng.randrange(objs_n)])
            elif w < 0.75:
                emit(["hasheq", o, rng.randrange(objs_n)])
            elif w < 0.8:
                emit(["eqother", o, rng.choice(["int", "ident", "object", "none", "str", "pidfloat"])])
                feats.add("eq-non-process")
            elif w < 0.9:
                emit(["ppid", o])
            else:
                emit(["ctime", o])
    if "oneshot" in feats and ("set-reused" in feats or "set-reused-after-gone" in feats):
        feats.add("oneshot-set-reused")
    if "popen" in feats and ("set-reused" in feats or "set-reused-after-gone" in feats):
        feats.add("popen-set-reused")
    if sh.objs and any(x[0] == IMPORT_PID for x in sh.objs) and ("set-reused" in feats or "set-reused-after-gone" in feats):
        feats.add("import-pid")
    order = ["copy-stale", "copy", "wait-foreign", "wait-then-reuse", "iter-overlap", "no-identity", "race-toctou", "race-window", "race-empty-window", "oneshot-set-reused", "popen-set-reused", "set-reused-after-gone", "set-reused", "pid0", "set-gone", "set-zombie", "eq-same-pid-other-proc", "isrun-reused",
             "clock", "eq-same-proc", "isrun-gone", "iter", "set-alive", "isrun-alive", "eq-other-pid"]
    if flavour == "c02":
        order = ["copy-stale", "copy", "wait-foreign", "no-identity", "iter-overlap", "popen-gone-child", "eq-other-pid-same-start", "eq-non-process", "eq-adjacent-ticks", "eq-same-pid-other-proc", "isrun-reused", "clock", "eq-same-proc", "isrun-gone", "set-reused", "iter",
                 "isrun-alive", "eq-other-pid", "set-gone", "set-alive"]
    cls = next((f for f in order if f in feats), "trivial")
    return {"kind": "hist", "cls": cls, "evs": evs}


# ------------------------------------------------------------------ process-wide "who am I" state (wave 8)
def alias_own_pid(case, pid=None, every=2):
    """The same history, observed by a process whose own os.getpid() is the NUMBER of a PID of the table (fake procfs /
    foreign PID namespace): case["ownpid"]; every `every`-th Process(pid) on that PID becomes the call form Process().
    The Coq term is unchanged (the unchanged code consults os.getpid() only to default pid=None)."""
    evs = case["evs"]
    if pid is None:
        count = {}
        for e in evs:
            if e[0] == "new" and isinstance(e[1], int) and 0 <= e[1] < PID_MAX:
                count[e[1]] = count.get(e[1], 0) + 1
        if not count:
            sp = [e[1] for e in evs if e[0] == "spawn"]
            if not sp:
                return None
            pid = sp[0]
        else:
            pid = max(sorted(count), key=lambda q: count[q])
    out, n = [], 0
    for e in evs:
        if e[0] == "new" and e[1] == pid and len(e) == 2:
            n += 1
            out.append(["new", pid, "self"] if n % every == 1 or every == 1 else list(e))
        else:
            out.append(e)
    c = dict(case, evs=out, ownpid=pid, cls=case.get("cls", "hist") + "+ownpid")
    return c


def own_pid_block():
    """the systematic block of wave 8 (never sampled): the observer builds Process() / Process(os.getpid()) for ITS OWN number,
    warms whatever can be memoised, the table entry of that number dies (zombie / reaped) / is recycled (adjacent or distant
    start tick), construction is attempted while the entry is missing, fresh objects are built in both call forms and compared
    with the old one (==, hash, is_running both ways) -- each shape with own-pid aliasing ON (os.getpid() == table PID,
    Process() call form) and OFF; then the same continued in a real os.fork() child whose os.getpid() is another table PID
    (or the real one), with a handle on the parent's number taken in the child."""
    out, seen = [], set()
    warms = {"none": [], "isrun": [["isrun", 0]], "hash": [["hasheq", 0, 0]], "ctime": [["ctime", 0], ["boot"], ["ppid", 0]],
             "iter": [["iter"], ["isrun", 0]]}

    def add(c):
        key = repr(sorted((k, v) for k, v in c.items() if k != "cls"))
        if key not in seen:
            seen.add(key)
            out.append(c)

    def shapes(P, self0, warm, end, mid, reuse, t0):
        first = ["new", P, "self"] if self0 else ["new", P]
        evs = [["spawn", 1, 50, 0, "init"], ["spawn", P, t0, 1, "a b"], first] + [list(x) for x in warms[warm]]
        if end in ("zombie", "exit+reap"):
            evs.append(["exit", P])
        sh = Shadow()
        for x in evs:
            sh.apply(x)
        n = len(sh.objs)                       # objects so far (process_iter() of the warm-up adds one per PID)
        if end in ("reap", "exit+reap"):
            evs.append(["reap", P])
            if mid == "new":
                evs.append(["new", P])         # NoSuchProcess demanded: no object
            elif mid == "self":
                evs.append(["new", P, "self"])
            elif mid == "isrun":
                evs.append(["isrun", 0])
            if reuse == "adjacent":
                evs.append(["spawn", P, t0 + 1, 1, "a b"])
            elif reuse == "distant":
                evs.append(["spawn", P, 2 ** 31 + 1, 1, "c"])
        evs += [["new", P, "self"], ["new", P]]
        present = end in ("alive", "zombie") or reuse != "none"
        if present:
            a, b = n, n + 1
            evs += [["eq", 0, a], ["eq", b, 0], ["hasheq", 0, a], ["hasheq", b, 0], ["eq", a, b], ["hasheq", a, b],
                    ["isrun", 0], ["isrun", a], ["isrun", b], ["eq", 0, b], ["hasheq", 0, b], ["isrun", 0],
                    ["eqother", 0, "int"]]
        else:
            evs += [["isrun", 0], ["hasheq", 0, 0], ["eq", 0, 0], ["isrun", 0], ["new", P, "self"]]
        return evs

    for P in (3, IMPORT_PID):
        for self0 in ((True, False) if P == 3 else (True,)):
            for warm in (("none", "isrun", "hash", "ctime", "iter") if P == 3 else ("none",)):
                for end in ("alive", "zombie", "reap", "exit+reap"):
                    gone = end in ("reap", "exit+reap")
                    mids = ("none", "new", "self", "isrun") if warm == "none" else ("none", "self")
                    for mid in (mids if gone else ("none",)):
                        for reuse in (("none", "adjacent", "distant") if gone else ("none",)):
                            evs = shapes(P, self0, warm, end, mid, reuse, 100)
                            on = {"kind": "hist", "cls": "ownpid-block-on", "evs": evs, "ownpid": P}
                            off = {"kind": "hist", "cls": "ownpid-block-off",
                                   "evs": [e[:2] if e[0] == "new" else e for e in evs]}
                            add(on)
                            if P == 3:
                                add(off)
                            if P == 3 and warm in ("none", "hash") and mid in ("none", "self"):
                                # the history continued in a forked child (fork right after the warm-up): the child is
                                # table PID 2 (child of P) / has the worker's real PID, not in the table
                                k = 3 + len(warms[warm])
                                pre = evs[:2] + [["spawn", 2, 300, P, "child"]] + evs[2:]
                                # (in the child os.getpid() is 2: handles on P = os.getppid() are taken as Process(P);
                                #  the child also builds Process() for itself and compares it with its parent's objects)
                                post = [e[:2] if e[0] == "new" else e for e in pre[k + 1:]]
                                sh = Shadow()
                                for x in pre:
                                    sh.apply(x)
                                add(dict(on, cls="ownpid-fork", evs=pre[:k + 1] + post + [["new", 2, "self"], ["eq", 0, len(sh.objs)],
                                                                                         ["isrun", 0]], fork_at=k + 1, child_pid=2))
                                add(dict(off, cls="ownpid-fork", evs=[e[:2] if e[0] == "new" else e for e in pre], fork_at=k + 1))
    return out


# ------------------------------------------------------------------ Coq terms
def _setter_term(s):
    k = s[0]
    if k == "signal":
        return "(SendSignal %s)" % G.z(s[1])
    if k in ("suspend", "resume", "terminate", "kill"):
        return k.capitalize()
    if k == "nice":
        return "(Nice %s)" % G.z(s[1])
    if k == "ionice":
        return "(Ionice %s %s)" % (G.z(s[1]), G.opt(s[2], G.z))
    if k == "rlimit":
        return "(Rlimit %s %s)" % (G.z(s[1]), G.lst([G.z(x) for x in s[2]]))
    if k == "affinity":
        return "(Affinity %s)" % G.lst([G.z(x) for x in s[1]])
    raise ValueError(k)


def _kev_term(e):
    k = e[0]
    if k == "spawn":
        return "(Spawn %s %s %s %s)" % (G.z(e[1]), G.z(e[2]), G.z(e[3]), G.by(e[4] if len(e) > 4 else "proc"))
    if k == "thread":
        return "(SpawnThread %s)" % G.z(e[1])
    if k == "exit":
        return "(Exit %s)" % G.z(e[1])
    if k == "reap":
        return "(Reap %s)" % G.z(e[1])
    if k == "clock":
        return "(ClockStep %s)" % G.z(e[1])
    if k == "deny":
        return "(Deny %s)" % G.z(e[1])
    if k == "allow":
        return "(Allow %s)" % G.z(e[1])
    raise ValueError(k)


def _ev_term(e):
    k = e[0]
    if k in KERNEL_EVENTS:
        return "EK " + _kev_term(e)
    if k == "race":
        return "ER %s %s %s" % (G.nat(e[1]), _setter_term(e[2]), G.lst([_kev_term(x) for x in e[3]]))
    if k == "eqother":
        return "EC (EqOther %s)" % G.nat(e[1])
    if k == "wait":
        return "EC (Wait %s %s)" % (G.nat(e[1]), G.bo(e[2] if len(e) > 2 else True))
    if k == "waitprocs":
        return "EC (WaitProcs %s %s)" % (G.nat(e[1]), G.bo(e[2] if len(e) > 2 else True))
    if k == "copy":
        return "EC (Copy %s %s %s)" % (G.nat(e[1]), {"copy": "HCopy", "deepcopy": "HDeep", "pickle": "HPickle"}[e[2]],
                                      G.bo(COPY_OK[e[2]]))
    if k == "pdump":
        return "EC (PickleDump %s %s)" % (G.nat(e[1]), G.bo(COPY_OK["pickle"]))
    if k == "pload":
        return "EC (Copy %s HLoad %s)" % (G.nat(e[1]), G.bo(COPY_OK["pickle"]))
    if k == "iterstart":
        return "EC IterStart"
    if k == "iternext":
        return "EC (IterNext %s)" % G.nat(e[1])
    if k == "new":
        return "EC (New %s)" % G.z(e[1])
    if k == "popen":
        return "EC (NewPopen %s)" % G.z(e[1])
    if k == "os_enter":
        return "EC (OneshotEnter %s)" % G.nat(e[1])
    if k == "os_exit":
        return "EC (OneshotExit %s)" % G.nat(e[1])
    if k == "asdict":
        return "EC (AsDict %s)" % G.nat(e[1])
    if k == "isrun":
        return "EC (IsRunning %s)" % G.nat(e[1])
    if k == "eq":
        return "EC (EqC %s %s)" % (G.nat(e[1]), G.nat(e[2]))
    if k == "hasheq":
        return "EC (HashEq %s %s)" % (G.nat(e[1]), G.nat(e[2]))
    if k == "set":
        return "EC (Set_ %s %s)" % (G.nat(e[1]), _setter_term(e[2]))
    if k == "ppid":
        return "EC (Ppid %s)" % G.nat(e[1])
    if k == "ctime":
        return "EC (CreateTime %s)" % G.nat(e[1])
    if k == "boot":
        return "EC BootTime"
    if k == "iter":
        return "EC ProcIter"
    raise ValueError(k)


# ------------------------------------------------------------------ live cases: the real C extension on a throw-away child
# case = {"kind": "live", "cls": ..., "ops": [op, ...]} with ops
#   ["aff", [cpu, ...]]  cpu = ["e", i, k] (the i-th CPU the child may use, plus k) or ["a", n] (the integer n)
#   ["nice", v]  ["ionice", cls, v|None]  ["rlimit", [soft, hard]]  (RLIMIT_FSIZE)
_LIVE_ENV = {}


def live_env():
    """Facts about this machine that the model needs: the CPUs a child may use, and what it inherits."""
    if not _LIVE_ENV:
        import resource
        import subprocess
        import sys
        out = subprocess.run([sys.executable, "-c", "import os\ntry:\n os.sched_setaffinity(0, range(1024))\nexcept OSError:\n pass\n"
                              "print(sorted(os.sched_getaffinity(0)))"], stdout=subprocess.PIPE, text=True).stdout
        getpid = _real_getpid[0] if _real_getpid else os.getpid
        _LIVE_ENV.update(elig=eval(out), mask0=sorted(os.sched_getaffinity(0)), nice0=os.getpriority(os.PRIO_PROCESS, getpid()),
                         io0=_ioprio_get(getpid()), rl0=list(resource.getrlimit(resource.RLIMIT_FSIZE)))
    return _LIVE_ENV


def _ioprio_get(pid):
    import ctypes
    import platform
    if platform.machine() != "x86_64":
        return None
    v = ctypes.CDLL(None, use_errno=True).syscall(252, 1, pid)      # ioprio_get(IOPRIO_WHO_PROCESS, pid)
    return [v >> 13, v & 0x1fff] if v >= 0 else None


def _cpu(spec, elig):
    return elig[spec[1] % len(elig)] + spec[2] if spec[0] == "e" else spec[1]


def _lop_term(op, elig):
    k = op[0]
    if k == "aff":
        return "(LAff %s)" % G.lst([G.z(_cpu(c, elig)) for c in op[1]])
    if k == "nice":
        return "(LNice %s)" % G.z(op[1])
    if k == "ionice":
        return "(LIonice %s %s)" % (G.z(op[1]), G.opt(op[2], G.z))
    if k == "rlimit":
        return "(LRlimit %s)" % G.lst([G.z(x) for x in op[1]])
    raise ValueError(k)


def gen_live(rng, n):
    W = 2 ** 32
    cases = []
    for _ in range(n):
        ops, feats = [], set()
        rl_hard = None        # None = whatever the child inherits; afterwards only ever lowered
        for _ in range(rng.choice([3, 5, 8])):
            r = rng.random()
            if r < 0.55:
                i = rng.randrange(64)
                w = rng.random()
                if w < 0.2:
                    cpus = [["e", i, 0]]
                elif w < 0.55:
                    cpus = [["e", i, rng.choice([W, 3 * W, -W, 2 ** 40, 2 ** 31, 2 ** 64, -2 ** 31, 2 ** 63 - 2 ** 20, 5 * W, 1024, 2048])]]
                    feats.add("live-aff-wrap")
                elif w < 0.75:
                    cpus = [["a", rng.choice([-1, -2, 2 ** 63 - 1, 2 ** 63, -2 ** 63, -2 ** 63 - 1, 2 ** 31, 2 ** 32, 1023, 1024, 5000,
                                              2 ** 31 - 1, 2 ** 64, 10 ** 30])]]
                    feats.add("live-aff-boundary")
                elif w < 0.9:
                    cpus = [["e", i, 0], ["e", rng.randrange(64), 0]] + ([["e", 0, 0]] if rng.random() < 0.3 else [])
                elif w < 0.95:
                    cpus = [["e", i, 0], ["e", i, rng.choice([W, 1024, -W])]]       # kernel keeps the eligible one: no demand
                else:
                    cpus = []
                ops.append(["aff", cpus])
                feats.add("live-aff")
            elif r < 0.7:
                ops.append(["nice", rng.choice([-20, -5, 0, 1, 7, 19, 19, 20, 40, -21, 2 ** 31 - 1, 2 ** 31, -2 ** 31, -2 ** 31 - 1,
                                                2 ** 32 + 5, 2 ** 32 - 3, 2 ** 63, -2 ** 63 - 1, 2 ** 64 + 1])])
                feats.add("live-nice")
            elif r < 0.85:
                ops.append(["ionice"] + rng.choice([[2, 0], [2, 4], [2, 7], [1, 3], [1, 0], [3, None], [0, None], [3, 0], [2, None],
                                                     [2, 8], [2, -1], [2, 2 ** 32 + 4], [4, 0], [2 ** 32 + 2, 4], [-1, 0], [3, 1],
                                                     [0, 5], [2 ** 63, 0], [2, 2 ** 63], [1, 2 ** 32]]))
                feats.add("live-ionice")
            else:
                w = rng.random()
                if w < 0.5:
                    cap = rl_hard if rl_hard is not None else 2 ** 62
                    h = rng.choice([x for x in (2 ** 62, 2 ** 41, 2 ** 32 + 1, 2 ** 32, 2 ** 31, 2 ** 31 - 1, 70000) if x <= cap] or [cap])
                    ops.append(["rlimit", [rng.choice([h, h // 2, 0, 2 ** 31 if h >= 2 ** 31 else h]), h]])
                    rl_hard = h
                else:
                    ops.append(["rlimit", rng.choice([[2 ** 63, 2 ** 63], [2 ** 64, 5], [5, 2 ** 64], [3, 2], [2 ** 40, 2 ** 20], [1], [1, 2, 3],
                                                      [2 ** 63 - 1, 2 ** 63]])])
                feats.add("live-rlimit")
        order = ["live-aff-wrap", "live-aff-boundary", "live-aff", "live-nice", "live-ionice", "live-rlimit"]
        cases.append({"kind": "live", "cls": next(f for f in order if f in feats), "ops": ops})
    return cases


def live_judge(case, coq, impl):
    from pv.core import Verdict
    if isinstance(impl, dict) and impl.get("t") == "Skip":
        return Verdict("skip", str(impl.get("a")))
    if not isinstance(impl, list) or len(impl) != len(case["ops"]):
        return Verdict("corr", "live run did not complete: %r" % (impl,))
    for i, op in enumerate(case["ops"]):
        want = coq["spec"][i]
        if want is not None and impl[i] != want:
            return Verdict("violation", "op %d %r on a live process: outcome/kernel state %r, demanded %r (exactly the value asked "
                           "for, or an exception and nothing changed)" % (i, op, impl[i], want))
        if coq["model"][i][0] == T("OutOfModel"):
            return Verdict("ok")          # from here on the model does not know the state
        if impl[i] != coq["model"][i]:
            return Verdict("corr", "op %d %r: implementation %r, model %r" % (i, op, impl[i], coq["model"][i]))
    return Verdict("ok")


def live_run(case, env):
    import resource
    import subprocess

    import psutil
    E = live_env()
    if E["io0"] is None:
        return T("Skip", "ioprio_get syscall number unknown on this machine")
    psutil.PROCFS_PATH = "/proc"
    child = subprocess.Popen(["sleep", "60"])
    out = []
    try:
        p = psutil.Process(child.pid)

        def state():
            lim = resource.prlimit(child.pid, resource.RLIMIT_FSIZE)
            return [sorted(os.sched_getaffinity(child.pid)), os.getpriority(os.PRIO_PROCESS, child.pid), _ioprio_get(child.pid),
                    [int(lim[0]), int(lim[1])]]

        for op in case["ops"]:
            k = op[0]
            try:
                if k == "aff":
                    r = p.cpu_affinity([_cpu(c, E["elig"]) for c in op[1]])
                elif k == "nice":
                    r = p.nice(op[1])
                elif k == "ionice":
                    r = p.ionice(op[1], op[2])
                elif k == "rlimit":
                    r = p.rlimit(resource.RLIMIT_FSIZE, tuple(op[1]))
                else:
                    raise AssertionError(k)
                res = Val(None if r is None else T("Unexpected", repr(r)))
            except BaseException as e:  # noqa
                if isinstance(e, (KeyboardInterrupt, SystemExit, AssertionError)) or type(e).__name__ == "CaseTimeout":
                    raise
                res = Exc(exc_name(e))
            out.append([res, state()])
    finally:
        child.kill()
        child.wait()
    return out


def coq_term(case):
    if case.get("kind") == "live":
        E = live_env()
        io0 = E["io0"] or [0, 0]
        return "run_live %s %s %s %s %s %s %s %s" % (
            G.lst([G.z(c) for c in E["elig"]]), G.lst([G.z(c) for c in E["mask0"]]), G.z(E["nice0"]), G.z(io0[0]), G.z(io0[1]),
            G.z(E["rl0"][0]), G.z(E["rl0"][1]), G.lst([_lop_term(op, E["elig"]) for op in case["ops"]]))
    return "run_hist %s" % G.lst([_ev_term(e) for e in case["evs"]])


def coq_struct(case, raw):
    if case.get("kind") == "live":
        return {"model": [[s[0], s[1]] for s in raw], "spec": [s[2] for s in raw]}
    wf, steps = raw
    return {"wf": wf, "model": [[s[0], s[1]] for s in steps], "spec": [s[2] for s in steps]}


# ------------------------------------------------------------------ judging
def delivered(effs):
    return [[e[0], e[1]] for e in effs if e[1] is not None]


def group_kill(effs):
    for e in effs:
        c = e[0]
        if isinstance(c, dict) and c.get("t") == "Kill" and c["a"][0] <= 0:
            return True
    return False


def _any_cpus(ans):
    return [ans[0], [[T("Affinity", c["a"][0], "any") if isinstance(c, dict) and c.get("t") == "Affinity" else c, i]
                     for c, i in ans[1]]]


def judge_history(case, coq, impl, spec_kinds, what):
    """spec_kinds: event kinds whose demanded answer belongs to the property being checked."""
    from pv.core import Verdict
    if case.get("kind") == "live":
        return live_judge(case, coq, impl)
    if not coq["wf"]:
        return Verdict("corr", "generator emitted a history that is not well formed")
    if not isinstance(impl, list) or len(impl) != len(case["evs"]):
        return Verdict("corr", "implementation run did not complete: %r" % (impl,))
    said_false = set()
    for i, e in enumerate(case["evs"]):
        got = impl[i]
        if e[0] == "isrun" and "isrun" in spec_kinds:
            if got[0] == Val(False):
                said_false.add(e[1])
            elif got[0] == Val(True) and e[1] in said_false:
                return Verdict("violation", "step %d %r: is_running() True after it had answered False for this object" % (i, e))
        if isinstance(got[0], dict) and got[0].get("t") == "BindingChanged" and "bind" in spec_kinds:
            return Verdict("violation", "step %d %r: object %d, still held by the caller, was rebound: pid/identity changed"
                           % (i, e, got[0]["a"][0]))
        if isinstance(got[0], dict) and got[0].get("t") == "Val" and isinstance(got[0]["a"][0], dict) \
                and got[0]["a"][0].get("t") == "CopyIdentityDiffers":
            return Verdict("violation", "step %d %r: the copy does not carry the identity of its original: %r"
                           % (i, e, got[0]["a"][0]["a"]))
        if group_kill(got[1]):
            return Verdict("violation", "step %d %r: os.kill called with pid <= 0: %r" % (i, e, got[1]))
        allowed = coq["spec"][i]
        if allowed is not None and e[0] in spec_kinds:
            mine = [got[0], delivered(got[1])]
            if e[0] in ("set", "race") and e[2][0] == "affinity" and not e[2][1]:
                # which CPUs an empty list stands for is C18's subject: here only "an affinity request to this PID"
                mine, allowed = _any_cpus(mine), [_any_cpus(a) for a in allowed]
            if mine not in allowed:
                return Verdict("violation", "step %d %r: %s: got %r, demanded one of %r" % (i, e, what, got, allowed))
        if got != coq["model"][i]:
            return Verdict("corr", "step %d %r: implementation %r, model %r" % (i, e, got, coq["model"][i]))
    return Verdict("ok")


# ------------------------------------------------------------------ implementation side
def _centi(x):
    from fractions import Fraction
    f = Fraction(x)
    n = round(f * 100)
    if abs(f - Fraction(n, 100)) <= Fraction(1, 2 ** 48) * max(1, abs(f)):
        return T("Centi", n)
    return T("CentiInexact", repr(x))


class StubSubprocessPopen:
    """Stands for subprocess.Popen: a child with the given pid that nobody polls (returncode stays None)."""

    def __init__(self, pid):
        self.pid = pid
        self.returncode = None

    def poll(self):
        return None

    def wait(self, timeout=None):
        raise AssertionError("wait() is not part of these histories")


def impl_run(case, coq, env):
    import resource
    if _real_getpid and os.getpid is not _real_getpid[0]:
        os.getpid = _real_getpid[0]        # import is over: from now on the real PID (not in the fake table)
    if case.get("kind") == "live":
        return live_run(case, env)

    import psutil
    from psutil import _psutil_linux as cext
    from psutil import _psutil_posix as cext_posix
    from pv import fakeproc
    root = os.path.join(env["work"], "proc")
    fp = fakeproc.FakeProc(root, btime=BTIME0)
    fakeproc.attach(psutil, root)
    table = {}      # pid -> dict(inc, start, ppid, zomb)
    state = {"nextinc": 0, "btime": BTIME0}
    log = []

    denied = set()  # PIDs whose stat file cannot be read (EACCES)
    import psutil._common as _pcommon
    from psutil import _pslinux as _pl
    real_open_binary = _pcommon.open_binary

    def f_open_binary(fname, *a, **kw):
        for pid in denied:
            if fname == "%s/%d/stat" % (root, pid) and os.path.exists(fname):
                raise PermissionError(errno.EACCES, "Permission denied", fname)
        return real_open_binary(fname, *a, **kw)

    pending = []    # kernel events of the window of a "race" call, applied when psutil reaches its system call

    def flush_pending():
        while pending:
            apply_kev(pending.pop(0))

    def attempt(rec, pid):
        flush_pending()
        k = table.get(pid) if isinstance(pid, int) else None
        log.append([rec, k["inc"] if k else None])
        if k is None:
            raise ProcessLookupError(errno.ESRCH, "No such process")

    def f_kill(pid, sig):
        if waitmode["on"] and sig == 0:
            # pid_exists() inside wait_pid(): existence in the CALLER's PID namespace, not a signal
            if not (waitmode["vis"] and pid in table):
                raise ProcessLookupError(errno.ESRCH, "No such process")
            return
        attempt(T("Kill", int(pid), int(sig)), pid)

    def f_setprio(pid, value):
        attempt(T("Nice", int(pid), int(value)), pid)

    def f_ioprio(pid, ioclass, value):
        attempt(T("Ionice", int(pid), int(ioclass), int(value)), pid)

    def f_affinity(pid, cpus):
        attempt(T("Affinity", int(pid), sorted(set(int(c) for c in cpus))), pid)

    def f_prlimit(pid, res, limits=None):
        if limits is None:
            raise AssertionError("unexpected prlimit get")
        soft, hard = limits
        attempt(T("Rlimit", int(pid), int(res), int(soft), int(hard)), pid)
        return (0, 0)

    import psutil._psposix as _psposix

    waitmode = {"on": False, "vis": True}

    def f_waitpid(pid, flags):
        raise ChildProcessError(errno.ECHILD, "No child processes")      # no fake process is our child

    saved = [(_pcommon, "open_binary", _pcommon.open_binary), (_pl, "open_binary", _pl.open_binary),
             (os, "waitpid", os.waitpid), (os, "kill", os.kill), (cext_posix, "setpriority", cext_posix.setpriority),
             (cext, "proc_ioprio_set", cext.proc_ioprio_set), (cext, "proc_cpu_affinity_set", cext.proc_cpu_affinity_set),
             (resource, "prlimit", resource.prlimit)]
    saved.append((os, "getpid", os.getpid))
    own = case.get("ownpid")
    if own is not None:
        # own-PID aliasing: the observer's os.getpid() is the NUMBER of a PID of the table psutil reads (PROCFS_PATH points
        # at a foreign PID namespace / a fake procfs).  The unchanged code consults os.getpid() only to default pid=None.
        os.getpid = lambda: own
    os.waitpid = f_waitpid
    _pcommon.open_binary = _pl.open_binary = f_open_binary
    os.kill, cext_posix.setpriority = f_kill, f_setprio
    cext.proc_ioprio_set, cext.proc_cpu_affinity_set = f_ioprio, f_affinity
    resource.prlimit = f_prlimit
    objs, first_hash, blocks, gens, bound = [], {}, {}, [], {}

    def binding_changed():
        """every object still held must keep the pid and identity it was created with (C02_binding_stable)"""
        for i, p in enumerate(objs):
            now = (type(p).__name__, p.pid, p._ident)
            if bound.setdefault(i, now) != now:
                return i
        return None

    def wait_procs1(p):
        gone, alive = psutil.wait_procs([p], timeout=0)
        if len(gone) + len(alive) != 1 or (gone and gone[0] is not p) or (alive and alive[0] is not p):
            return T("BadWaitProcs", repr((gone, alive)))
        return bool(gone)

    pickled = {}

    def do_copy(o, how):
        import copy
        import pickle
        p = objs[o]
        if how == "copy":
            q = copy.copy(p)
        elif how == "deepcopy":
            q = copy.deepcopy(p)
        elif how == "pickle":
            q = pickle.loads(pickle.dumps(p))
        else:
            q = pickle.loads(pickled[o])
        if not isinstance(q, psutil.Process) or q is p:
            return T("NotACopy", repr(q))
        if (q.pid, q._ident) != (p.pid, p._ident):
            # a copy is another handle on the same process: it must carry the identity of its original
            return T("CopyIdentityDiffers", [p.pid, repr(p._ident)], [q.pid, repr(q._ident)])
        objs.append(q)
        return T("Obj", len(objs) - 1)

    def do_pdump(o):
        import pickle
        pickled[o] = pickle.dumps(objs[o])
        return None

    def it_next(g):
        try:
            p = next(gens[g])
        except StopIteration:
            return T("Stop")
        return T("Obj", idx_of(p))

    def write_proc(pid):
        k = table[pid]
        fp.add(pid, comm=k["comm"], starttime=k["start"], ppid=k["ppid"], state=b"Z" if k["zomb"] else b"S",
               num_threads=k["nthr"])

    def conv_none(x):
        if x is not None:
            return T("Unexpected", repr(x))
        return None

    def outcome(fn, conv):
        try:
            r = fn()
        except BaseException as e:  # noqa
            if isinstance(e, (KeyboardInterrupt, SystemExit)) or type(e).__name__ == "CaseTimeout":
                raise
            return Exc(exc_name(e))
        return Val(conv(r))

    def do_set(p, s):
        k = s[0]
        if k == "signal":
            return p.send_signal(s[1])
        if k in ("suspend", "resume", "terminate", "kill"):
            return getattr(p, k)()
        if k == "nice":
            return p.nice(s[1])
        if k == "ionice":
            return p.ionice(s[1], s[2])
        if k == "rlimit":
            return p.rlimit(s[1], tuple(s[2]))
        if k == "affinity":
            return p.cpu_affinity(list(s[1]))
        raise ValueError(k)

    def new_obj(pid, noarg=False):
        if noarg:
            # the call form Process(): "my own process"; only generated while os.getpid() answers this table PID
            if own is None or own != pid:
                raise AssertionError("harness: Process() call form without own-pid aliasing on this PID")
            p = psutil.Process()
        else:
            p = psutil.Process(pid)
        objs.append(p)
        return len(objs) - 1

    def new_popen(pid):
        real = psutil.subprocess.Popen
        psutil.subprocess.Popen = StubSubprocessPopen
        try:
            p = psutil.Popen(pid)
        finally:
            psutil.subprocess.Popen = real
        objs.append(p)
        return len(objs) - 1

    def idx_of(p):
        for i, q in enumerate(objs):
            if q is p:
                return i
        objs.append(p)
        return len(objs) - 1

    def hash_eq(a, b):
        ha, hb = hash(objs[a]), hash(objs[b])
        stable = first_hash.setdefault(a, ha) == ha and first_hash.setdefault(b, hb) == hb
        return T("Hash", ha == hb, stable)

    def eq(a, b):
        r = objs[a] == objs[b]
        if (objs[a] != objs[b]) == r or not isinstance(r, bool):
            return T("EqNeInconsistent", repr(r))
        if r and hash(objs[a]) != hash(objs[b]):
            return T("EqualButHashDiffers")      # equal objects must hash alike
        return r

    def apply_kev(e):
        k = e[0]
        if k == "spawn":
            table[e[1]] = {"inc": state["nextinc"], "start": e[2], "ppid": e[3], "zomb": False, "nthr": 1,
                           "comm": (e[4] if len(e) > 4 else "proc").encode()}
            state["nextinc"] += 1
            write_proc(e[1])
        elif k == "thread":
            if e[1] in table:
                table[e[1]]["nthr"] += 1
                write_proc(e[1])
        elif k == "exit":
            if e[1] in table:
                table[e[1]]["zomb"] = True
                write_proc(e[1])
        elif k == "reap":
            if e[1] in table:
                del table[e[1]]
                fp.remove(e[1])
        elif k == "clock":
            state["btime"] += e[1]
            fp.set_btime(state["btime"])
        elif k == "deny":
            denied.add(e[1])
        elif k == "allow":
            denied.discard(e[1])
        else:
            raise ValueError(k)

    OTHERS = {"int": lambda p: p.pid, "ident": lambda p: p._ident, "object": lambda p: object(), "none": lambda p: None,
              "str": lambda p: str(p.pid), "pidfloat": lambda p: float(p.pid)}

    def eq_other(o, kind):
        p = objs[o]
        x = OTHERS[kind](p)
        r = p == x
        if (p != x) is not True or p.__eq__(x) is not NotImplemented or (x == p) is not False:
            return T("EqOtherInconsistent", repr((r, p != x, p.__eq__(x))))
        return r if isinstance(r, bool) else T("NotBool", repr(r))

    out = []
    fork_at, in_child, wfd, child = case.get("fork_at"), False, None, None
    real_waitpid = saved[2][2]
    try:
        for e in case["evs"]:
            if fork_at is not None and len(out) == fork_at and not in_child:
                # a REAL os.fork(): every object, generator and module state built so far is inherited by the child, which
                # continues the history (its os.getpid() differs from the parent's) and reports through a pipe
                import json
                rfd, wfd = os.pipe()
                sys.stdout.flush()
                sys.stderr.flush()
                child = os.fork()
                if child == 0:
                    in_child = True
                    os.close(rfd)
                    cp = case.get("child_pid")
                    if cp is not None:
                        os.getpid = lambda: cp
                        own = cp
                    out = []
                else:
                    os.close(wfd)
                    wfd = None
                    buf = b""
                    while True:
                        chunk = os.read(rfd, 65536)
                        if not chunk:
                            break
                        buf += chunk
                    os.close(rfd)
                    real_waitpid(child, 0)
                    child = None
                    rep = json.loads(buf.decode()) if buf else {"error": "the forked child reported nothing"}
                    if "error" in rep:
                        raise RuntimeError("forked child: " + rep["error"])
                    out.extend(rep["out"])
                    break
            k = e[0]
            mark = len(log)
            if k in KERNEL_EVENTS:
                apply_kev(e)
                r = Val(None)
            elif coq["model"][len(out)][0] == T("OutOfModel"):
                r = T("OutOfModel")      # the model does not cover this call in this state: not issued
            elif k == "new":
                r = outcome(lambda: new_obj(e[1], len(e) > 2 and e[2] == "self"), lambda i: T("Obj", i))
            elif k == "popen":
                r = outcome(lambda: new_popen(e[1]), lambda i: T("Obj", i))
            elif k == "boot":
                r = outcome(psutil.boot_time, lambda x: int(x) if float(x).is_integer() else T("Float", repr(x)))
            elif k == "iter":
                r = outcome(lambda: list(psutil.process_iter()), lambda l: T("Objs", [idx_of(p) for p in l]))
            elif k == "iterstart":
                gens.append(psutil.process_iter())
                r = Val(T("Gen", len(gens) - 1))
            elif k == "iternext":
                r = outcome(lambda: it_next(e[1]), lambda x: x)
            elif any(o >= len(objs) for o in e[1:(3 if k in ("eq", "hasheq") else 2)]):
                r = T("OutOfModel")
            elif k == "os_enter":
                cm = objs[e[1]].oneshot()
                r = outcome(cm.__enter__, conv_none)
                blocks.setdefault(e[1], []).append(cm)
            elif k == "os_exit":
                r = outcome(lambda: blocks[e[1]].pop().__exit__(None, None, None), lambda x: None)
            elif k == "asdict":
                r = outcome(lambda: objs[e[1]].as_dict(attrs=["ppid"]),
                            lambda d: d["ppid"] if list(d) == ["ppid"] else T("BadDict", repr(d)))
            elif k == "isrun":
                r = outcome(objs[e[1]].is_running, lambda b: b if isinstance(b, bool) else T("NotBool", repr(b)))
            elif k == "eq":
                r = outcome(lambda: eq(e[1], e[2]), lambda b: b)
            elif k == "hasheq":
                r = outcome(lambda: hash_eq(e[1], e[2]), lambda b: b)
            elif k == "set":
                r = outcome(lambda: do_set(objs[e[1]], e[2]), conv_none)
            elif k == "race":
                # the kernel events of the window happen when psutil reaches its system call (or, if it never
                # does, right after the call)
                pending.extend(e[3])
                r = outcome(lambda: do_set(objs[e[1]], e[2]), conv_none)
                flush_pending()
            elif k == "eqother":
                r = outcome(lambda: eq_other(e[1], e[2]), lambda b: b)
            elif k == "copy":
                r = outcome(lambda: do_copy(e[1], e[2]), lambda x: x)
            elif k == "pdump":
                r = outcome(lambda: do_pdump(e[1]), lambda x: x)
            elif k == "pload":
                r = outcome(lambda: do_copy(e[1], "load"), lambda x: x) if e[1] in pickled else T("OutOfModel")
            elif k in ("wait", "waitprocs"):
                waitmode["on"], waitmode["vis"] = True, (e[2] if len(e) > 2 else True)
                try:
                    if k == "wait":
                        r = outcome(lambda: objs[e[1]].wait(timeout=0), conv_none)
                    else:
                        r = outcome(lambda: wait_procs1(objs[e[1]]), lambda b: b)
                finally:
                    waitmode["on"] = False

            elif k == "ppid":
                r = outcome(objs[e[1]].ppid, int)
            elif k == "ctime":
                r = outcome(objs[e[1]].create_time, _centi)
            else:
                raise ValueError(k)
            ch = binding_changed()
            if ch is not None:
                r = T("BindingChanged", ch, r)
            out.append([r, log[mark:]])
        if in_child:
            import json
            data = json.dumps({"out": out}).encode()
            while data:
                data = data[os.write(wfd, data):]
            os._exit(0)
    except BaseException as ex:  # noqa
        if in_child:
            import json
            import traceback
            try:
                os.write(wfd, json.dumps({"error": traceback.format_exc()[-1500:]}).encode())
            finally:
                os._exit(1)
        raise
    finally:
        if child:
            try:
                saved[3][2](child, 9)
                real_waitpid(child, 0)
            except Exception:
                pass
        for g in gens:
            try:
                g.close()
            except Exception:
                pass
        for cms in blocks.values():
            while cms:
                try:
                    cms.pop().__exit__(None, None, None)
                except Exception:
                    pass
        for mod, name, fn in saved:
            setattr(mod, name, fn)
    return out
