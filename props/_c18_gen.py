"""C18: fail-closed translator of the argument checks / dispatch of psutil's setters into the
statement language of coq/C18/PyGen.v.

Translated from the CURRENT source of the tree under check (Python's ast), on every run:
  psutil/__init__.py   Process.nice, Process.ionice, Process.rlimit, Process.cpu_affinity
  psutil/_pslinux.py   Process.ionice_set, Process.rlimit   (+ the IOPriority constants they name)
Every statement / expression shape not listed below raises TranslateError (pv/core.py then treats
the tie to the source as broken).  coq/C18/ProofsGen.v proves the emitted programs equal to the
hand-written model (coq/C18/Model.v, Handle.v `guarded`) for all arguments.
"""
import ast
import os


class TranslateError(RuntimeError):
    pass


NEXT_LAYER = ("self._proc.", "cext.", "cext_posix.", "resource.")
RAISABLE = ("ValueError", "TypeError")


def _s(x):
    return '"%s"%%string' % x


def _z(n):
    return "(%d)" % n


def _dotted(node):
    if isinstance(node, ast.Name):
        return node.id
    if isinstance(node, ast.Attribute):
        b = _dotted(node.value)
        return None if b is None else b + "." + node.attr
    return None


class FnTranslator:
    def __init__(self, fn, where, consts, flags):
        self.fn = fn
        self.where = where
        self.consts = consts      # dotted name -> int (IOPriority.IOPRIO_CLASS_*)
        self.flags = flags        # bare name -> bool (LINUX)
        a = fn.args
        if a.vararg or a.kwarg or a.kwonlyargs or a.posonlyargs or not a.args or a.args[0].arg != "self":
            self.err("unexpected signature")
        self.names = {x.arg for x in a.args[1:]}

    def err(self, msg, node=None):
        d = (": " + ast.dump(node)[:300]) if node is not None else ""
        raise TranslateError("%s: %s%s" % (self.where, msg, d))

    # ---- expressions
    def expr(self, e):
        if isinstance(e, ast.Constant):
            if e.value is None:
                return "ENoneC"
            if type(e.value) is int:
                return "(EIntC %s)" % _z(e.value)
            self.err("constant not understood", e)
        if isinstance(e, ast.UnaryOp) and isinstance(e.op, ast.USub) and isinstance(e.operand, ast.Constant) \
                and type(e.operand.value) is int:
            return "(EIntC %s)" % _z(-e.operand.value)
        if isinstance(e, ast.Name):
            if e.id in self.names and e.id != "msg":
                return "(EVar %s)" % _s(e.id)
            self.err("name is neither a parameter nor an assigned local", e)
        d = _dotted(e)
        if d == "self.pid":
            return "ESelfPid"
        if d is not None and d in self.consts:
            return "(EIntC %s)" % _z(self.consts[d])
        if isinstance(e, ast.Call) and not e.keywords and len(e.args) == 1 and isinstance(e.func, ast.Name):
            f, a = e.func.id, e.args[0]
            if f == "len":
                return "(ELen %s)" % self.expr(a)
            if (f == "tuple" and isinstance(a, ast.Call) and isinstance(a.func, ast.Name) and a.func.id == "range"
                    and not a.keywords and len(a.args) == 1 and isinstance(a.args[0], ast.Constant)
                    and type(a.args[0].value) is int):
                return "(ERangeTuple %s)" % _z(a.args[0].value)
            if (f == "list" and isinstance(a, ast.Call) and isinstance(a.func, ast.Name) and a.func.id == "set"
                    and not a.keywords and len(a.args) == 1):
                return "(EListSet %s)" % self.expr(a.args[0])
        if isinstance(e, ast.Call):
            return "EOpaque"      # evaluating it is stuck: provably not reached, or the proof breaks
        self.err("expression not understood", e)

    OPS = {ast.Lt: "OLt", ast.LtE: "OLe", ast.Gt: "OGt", ast.GtE: "OGe", ast.Eq: "OEq", ast.NotEq: "ONe"}

    def cond(self, t):
        if isinstance(t, ast.BoolOp):
            k = "CAnd" if isinstance(t.op, ast.And) else "COr"
            parts = [self.cond(v) for v in t.values]
            out = parts[-1]
            for p in reversed(parts[:-1]):
                out = "(%s %s %s)" % (k, p, out)
            return out
        if isinstance(t, ast.UnaryOp) and isinstance(t.op, ast.Not):
            return "(CNot %s)" % self.cond(t.operand)
        if isinstance(t, ast.Compare):
            ops, cs = t.ops, t.comparators
            if len(ops) == 1 and isinstance(ops[0], (ast.Is, ast.IsNot)):
                if isinstance(cs[0], ast.Constant) and cs[0].value is None:
                    return "(%s %s)" % ("CIsNone" if isinstance(ops[0], ast.Is) else "CIsNotNone", self.expr(t.left))
                self.err("'is' against something other than None", t)
            if len(ops) == 1 and isinstance(ops[0], ast.In):
                if isinstance(cs[0], (ast.Set, ast.Tuple, ast.List)) and cs[0].elts:
                    ks = []
                    for el in cs[0].elts:
                        d = _dotted(el)
                        if d is not None and d in self.consts:
                            ks.append(self.consts[d])
                        elif isinstance(el, ast.Constant) and type(el.value) is int:
                            ks.append(el.value)
                        else:
                            self.err("member of the display is not an int constant", el)
                    return "(CInSet %s [%s])" % (self.expr(t.left), "; ".join(_z(k) for k in ks))
                self.err("'in' against something other than a display of constants", t)
            if all(type(o) in self.OPS for o in ops):
                if len(ops) == 1:
                    return "(CCmp %s %s %s)" % (self.expr(t.left), self.OPS[type(ops[0])], self.expr(cs[0]))
                if len(ops) == 2:
                    return "(CChain %s %s %s %s %s)" % (self.expr(t.left), self.OPS[type(ops[0])], self.expr(cs[0]),
                                                         self.OPS[type(ops[1])], self.expr(cs[1]))
            self.err("comparison not understood", t)
        if isinstance(t, ast.Name) and t.id in self.flags:
            return "(CConstB %s)" % ("true" if self.flags[t.id] else "false")
        if isinstance(t, ast.Call) and isinstance(t.func, ast.Name) and t.func.id == "hasattr":
            return "COpaque"
        return "(CTruth %s)" % self.expr(t)

    # ---- statements
    def call(self, e, ret):
        post = False
        if (isinstance(e, ast.Call) and isinstance(e.func, ast.Name) and e.func.id == "sorted" and len(e.args) == 1
                and not e.keywords and isinstance(e.args[0], ast.Call) and isinstance(e.args[0].func, ast.Name)
                and e.args[0].func.id == "set" and len(e.args[0].args) == 1 and not e.args[0].keywords):
            post, e = True, e.args[0].args[0]
        if not isinstance(e, ast.Call) or e.keywords:
            self.err("not a plain call", e)
        d = _dotted(e.func)
        if d is None or not d.startswith(NEXT_LAYER):
            self.err("call of something other than the next layer", e)
        if any(isinstance(a, ast.Starred) for a in e.args):
            self.err("starred argument", e)
        return "(SCall %s %s %s [%s])" % ("true" if ret else "false", "true" if post else "false", _s(d),
                                          "; ".join(self.expr(a) for a in e.args))

    def is_msg(self, v):
        return (isinstance(v, ast.Constant) and isinstance(v.value, str)) or isinstance(v, ast.JoinedStr)

    def stmt(self, st):
        if isinstance(st, ast.If):
            return "(SIf %s %s %s)" % (self.cond(st.test), self.block(st.body), self.block(st.orelse))
        if isinstance(st, ast.Assign) and len(st.targets) == 1 and isinstance(st.targets[0], ast.Name):
            x = st.targets[0].id
            if x == "msg":
                if self.is_msg(st.value):
                    return "SSkip"
                self.err("msg assigned something other than a string", st)
            self.names.add(x)
            return "(SAssign %s %s)" % (_s(x), self.expr(st.value))
        if isinstance(st, ast.Raise):
            if (st.cause is None and isinstance(st.exc, ast.Call) and isinstance(st.exc.func, ast.Name)
                    and st.exc.func.id in RAISABLE and len(st.exc.args) == 1 and not st.exc.keywords
                    and ((isinstance(st.exc.args[0], ast.Name) and st.exc.args[0].id == "msg") or self.is_msg(st.exc.args[0]))):
                return "(SRaise %s)" % st.exc.func.id
            self.err("raise not understood", st)
        if isinstance(st, ast.Expr) and isinstance(st.value, ast.Call):
            if _dotted(st.value.func) == "self._raise_if_pid_reused" and not st.value.args and not st.value.keywords:
                return "SGuard"
            return self.call(st.value, False)
        if isinstance(st, ast.Return) and st.value is not None:
            return self.call(st.value, True)
        if isinstance(st, ast.Try):
            if st.orelse or st.finalbody or len(st.handlers) != 1:
                self.err("try statement with else/finally or several handlers", st)
            h = st.handlers[0]
            ok = (isinstance(h.type, ast.Name) and h.type.id == "OSError" and h.name == "err" and len(h.body) == 2
                  and isinstance(h.body[1], ast.Raise) and h.body[1].exc is None and h.body[1].cause is None)
            if ok:
                i = h.body[0]
                ok = (isinstance(i, ast.If) and not i.orelse and len(i.body) == 1
                      and isinstance(i.test, ast.Compare) and len(i.test.ops) == 1 and isinstance(i.test.ops[0], ast.Eq)
                      and _dotted(i.test.left) == "err.errno" and _dotted(i.test.comparators[0]) == "errno.ENOSYS"
                      and isinstance(i.body[0], ast.Expr) and isinstance(i.body[0].value, ast.Call)
                      and _dotted(i.body[0].value.func) == "self._raise_if_zombie"
                      and not i.body[0].value.args and not i.body[0].value.keywords)
            if not ok:
                self.err("exception handler is not the ENOSYS/_raise_if_zombie/re-raise one", h)
            return "(STryReraise %s)" % self.block(st.body)
        self.err("statement not understood", st)

    def block(self, stmts):
        out = "SSkip"
        for s in reversed([self.stmt(s) for s in stmts]):
            out = s if out == "SSkip" else "(SSeq %s %s)" % (s, out)
        return out

    def translate(self):
        body = list(self.fn.body)
        if body and isinstance(body[0], ast.Expr) and isinstance(body[0].value, ast.Constant) and isinstance(body[0].value.value, str):
            body = body[1:]
        return self.block(body)


def _methods(cls, name):
    """the defs called [name] in the class body, also inside `if ...:` blocks of the class body"""
    out = []

    def walk(stmts):
        for s in stmts:
            if isinstance(s, ast.FunctionDef) and s.name == name:
                out.append(s)
            elif isinstance(s, ast.If):
                walk(s.body)
                walk(s.orelse)
    walk(cls.body)
    return out


def _one_method(tree, fname, name, params, decorators):
    cs = [n for n in tree.body if isinstance(n, ast.ClassDef) and n.name == "Process"]
    if len(cs) != 1:
        raise TranslateError("%s: %d classes called Process" % (fname, len(cs)))
    ms = _methods(cs[0], name)
    if len(ms) != 1:
        raise TranslateError("%s: %d definitions of Process.%s" % (fname, len(ms), name))
    m = ms[0]
    if [a.arg for a in m.args.args] != params:
        raise TranslateError("%s: Process.%s has parameters %r, expected %r" % (fname, name, [a.arg for a in m.args.args], params))
    defaults = [ast.dump(d) for d in m.args.defaults]
    if any(d != ast.dump(ast.Constant(value=None)) for d in defaults):
        raise TranslateError("%s: Process.%s has a default other than None" % (fname, name))
    decs = [_dotted(d) for d in m.decorator_list]
    if decs != decorators:
        raise TranslateError("%s: Process.%s is decorated with %r, expected %r" % (fname, name, decs, decorators))
    return m, len(defaults)


def _iopriority(tree):
    cs = [n for n in tree.body if isinstance(n, ast.ClassDef) and n.name == "IOPriority"]
    if len(cs) != 1:
        raise TranslateError("_pslinux.py: %d classes called IOPriority" % len(cs))
    out = {}
    for s in cs[0].body:
        if (isinstance(s, ast.Assign) and len(s.targets) == 1 and isinstance(s.targets[0], ast.Name)
                and isinstance(s.value, ast.Constant) and type(s.value.value) is int):
            out["IOPriority." + s.targets[0].id] = s.value.value
            out[s.targets[0].id] = s.value.value          # globals().update(IOPriority.__members__)
        elif isinstance(s, ast.Expr) and isinstance(s.value, ast.Constant):
            continue
        else:
            raise TranslateError("IOPriority: member not understood: " + ast.dump(s)[:200])
    return out


FRONT = [("nice", ["self", "value"], 1), ("ionice", ["self", "ioclass", "value"], 2),
         ("rlimit", ["self", "resource", "limits"], 1), ("cpu_affinity", ["self", "cpus"], 1)]
PLAT = [("ionice_set", ["self", "ioclass", "value"], 0), ("rlimit", ["self", "resource_", "limits"], 1)]


def translate(impl_dir):
    """-> text of coq/Gen/C18_Tables.v"""
    init = ast.parse(open(os.path.join(impl_dir, "psutil", "__init__.py")).read())
    lin = ast.parse(open(os.path.join(impl_dir, "psutil", "_pslinux.py")).read())
    consts = _iopriority(lin)
    defs = []
    for name, params, ndef in FRONT:
        m, nd = _one_method(init, "__init__.py", name, params, [])
        if nd != ndef:
            raise TranslateError("__init__.py: Process.%s: %d defaulted parameters, expected %d" % (name, nd, ndef))
        prog = FnTranslator(m, "__init__.py Process." + name, {}, {"LINUX": True}).translate()
        defs.append("Definition gen_front_%s : stmt :=\n  %s." % (name, prog))
    for name, params, ndef in PLAT:
        m, nd = _one_method(lin, "_pslinux.py", name, params, ["wrap_exceptions"])
        if nd != ndef:
            raise TranslateError("_pslinux.py: Process.%s: %d defaulted parameters, expected %d" % (name, nd, ndef))
        prog = FnTranslator(m, "_pslinux.py Process." + name, consts, {}).translate()
        defs.append("Definition gen_linux_%s : stmt :=\n  %s." % (name, prog))
    members = sorted((k, v) for k, v in consts.items() if k.startswith("IOPriority."))
    defs.append("Definition gen_iopriority : list (string * Z) :=\n  [%s]." %
                "; ".join("(%s, %s)" % (_s(k.split(".", 1)[1]), _z(v)) for k, v in members))
    return "\n".join([
        "(* GENERATED by props/_c18_gen.py (props/C18.py gen_tables) from psutil/__init__.py and psutil/_pslinux.py",
        "   of the tree under check -- do not edit. *)",
        "From PV Require Import C18.PyGen.", ""] + ["%s\n" % d for d in defs])


def write_tables(impl_dir, out_dir):
    txt = translate(impl_dir)
    path = os.path.join(out_dir, "C18_Tables.v")
    os.makedirs(out_dir, exist_ok=True)
    if not os.path.exists(path) or open(path).read() != txt:
        with open(path, "w") as f:
            f.write(txt)
