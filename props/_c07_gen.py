"""C07 -- FAIL-CLOSED translator of the CPU-percent arithmetic of psutil/__init__.py (ast of the source under test)
into the statement language of coq/C07/PyGen.v.

Translated: _cpu_tot_time, _cpu_busy_time, the loop body of _cpu_times_deltas (its skeleton is checked
structurally), cpu_percent.calculate, cpu_times_percent.calculate, and the arithmetic tail of Process.cpu_percent
(num_cpus = cpu_count() or 1; delta_proc; delta_time; try/except ZeroDivisionError/else).
Any statement or expression shape not listed here raises TranslateError (pv/core.py: broken tie)."""
import ast
import os
from fractions import Fraction


class TranslateError(RuntimeError):
    pass


def _bad(what, node=None):
    raise TranslateError(what + ((": " + ast.dump(node)[:300]) if node is not None else ""))


HELPERS = ("_cpu_tot_time", "_cpu_busy_time")
BINOPS = {ast.Add: "OAdd", ast.Sub: "OSub", ast.Mult: "OMul", ast.Div: "ODiv"}


def _s(x):
    return '"%s"' % x


def _q(v):
    if isinstance(v, bool) or not isinstance(v, (int, float)):
        _bad("numeric literal expected, got %r" % (v,))
    fr = Fraction(str(v)) if isinstance(v, float) else Fraction(v)
    return "(%s # %d)%%Q" % (("(%d)" % fr.numerator) if fr.numerator < 0 else str(fr.numerator), fr.denominator)


class Ctx:
    def __init__(self, tuples, loopfield=None):
        self.tuples = set(tuples)      # names bound to named tuples
        self.scalars = set()
        self.lists = set()             # names bound to [] and only appended to
        self.loopfield = loopfield     # name of the loop variable ranging over field NAMES (_cpu_times_deltas)


def _name(node, what):
    if not isinstance(node, ast.Name):
        _bad(what + ": a plain name expected", node)
    return node.id


def tr_expr(n, c):
    if isinstance(n, ast.Constant):
        return "EConst %s" % _q(n.value)
    if isinstance(n, ast.Name):
        if n.id in c.tuples or n.id in c.lists:
            _bad("tuple %s used as a number" % n.id)
        return "EVar %s" % _s(n.id)
    if isinstance(n, ast.Attribute):
        t = _name(n.value, "attribute base")
        if t not in c.tuples:
            _bad("attribute of something that is not a known tuple", n)
        return "EAttr %s %s" % (_s(t), _s(n.attr))
    if isinstance(n, ast.BinOp):
        if type(n.op) not in BINOPS:
            _bad("operator not understood", n)
        return "EBin %s (%s) (%s)" % (BINOPS[type(n.op)], tr_expr(n.left, c), tr_expr(n.right, c))
    if isinstance(n, ast.BoolOp):
        if not isinstance(n.op, ast.Or) or len(n.values) != 2:
            _bad("only 'a or b' is understood", n)
        return "EOr (%s) (%s)" % (tr_expr(n.values[0], c), tr_expr(n.values[1], c))
    if isinstance(n, ast.Call) and isinstance(n.func, ast.Name) and not n.keywords:
        f, a = n.func.id, n.args
        if f == "getattr" and len(a) == 3:
            t = _name(a[0], "getattr object")
            if t not in c.tuples or not (isinstance(a[1], ast.Constant) and isinstance(a[1].value, str)) \
                    or not isinstance(a[2], ast.Constant):
                _bad("getattr(tuple, 'name', literal) expected", n)
            return "EGetattr %s %s %s" % (_s(t), _s(a[1].value), _q(a[2].value))
        if f == "getattr" and len(a) == 2 and c.loopfield:
            t = _name(a[0], "getattr object")
            if t not in c.tuples or _name(a[1], "getattr name") != c.loopfield:
                _bad("getattr(tuple, <loop field>) expected", n)
            return "EVar %s" % _s(t + "@field")
        if f == "sum" and len(a) == 1:
            t = _name(a[0], "sum argument")
            if t not in c.tuples:
                _bad("sum of something that is not a known tuple", n)
            return "ESum %s" % _s(t)
        if f in HELPERS and len(a) == 1:
            t = _name(a[0], "helper argument")
            if t not in c.tuples:
                _bad("helper called on something that is not a known tuple", n)
            return "ECall %s %s" % (_s(f), _s(t))
        if f in ("max", "min") and len(a) == 2:
            return "%s (%s) (%s)" % ("EMax" if f == "max" else "EMin", tr_expr(a[0], c), tr_expr(a[1], c))
        if f == "round" and len(a) == 2 and isinstance(a[1], ast.Constant) and a[1].value == 1 \
                and not isinstance(a[1].value, bool):
            return "ERound1 (%s)" % tr_expr(a[0], c)
        if f == "cpu_count" and not a:
            return "EVar %s" % _s("cpu_count()")
    _bad("expression not understood", n)


def _is_append(st):
    """out.append(app) -> (out, app) or None"""
    if isinstance(st, ast.Expr) and isinstance(st.value, ast.Call) and isinstance(st.value.func, ast.Attribute) \
            and st.value.func.attr == "append" and isinstance(st.value.func.value, ast.Name) \
            and len(st.value.args) == 1 and not st.value.keywords and isinstance(st.value.args[0], ast.Name):
        return st.value.func.value.id, st.value.args[0].id
    return None


def _is_scputimes_splat(n):
    """_psplatform.scputimes(*x) -> x or None"""
    if isinstance(n, ast.Call) and isinstance(n.func, ast.Attribute) and n.func.attr == "scputimes" \
            and isinstance(n.func.value, ast.Name) and n.func.value.id == "_psplatform" and not n.keywords \
            and len(n.args) == 1 and isinstance(n.args[0], ast.Starred) and isinstance(n.args[0].value, ast.Name):
        return n.args[0].value.id
    return None


def tr_assign(st, c):
    """Assign / AugAssign of a number to a plain name -> (name, expr)"""
    if isinstance(st, ast.Assign):
        if len(st.targets) != 1:
            _bad("chained assignment", st)
        x = _name(st.targets[0], "assignment target")
        e = tr_expr(st.value, c)
    elif isinstance(st, ast.AugAssign):
        x = _name(st.target, "assignment target")
        if type(st.op) not in BINOPS:
            _bad("augmented operator not understood", st)
        if x not in c.scalars:
            _bad("augmented assignment to an unbound name", st)
        e = "EBin %s (EVar %s) (%s)" % (BINOPS[type(st.op)], _s(x), tr_expr(st.value, c))
    else:
        _bad("assignment expected", st)
    if x in c.tuples or x in c.lists:
        _bad("a tuple name is rebound to a number", st)
    c.scalars.add(x)
    return x, e


def tr_block(stmts, c, out):
    """statements of a function body -> appended to out (flat list of Gallina stmt terms).
    Returns True when the block ends in a return on every path."""
    i = 0
    while i < len(stmts):
        st = stmts[i]
        last = i == len(stmts) - 1
        i += 1
        if isinstance(st, ast.Expr) and isinstance(st.value, ast.Constant) and isinstance(st.value.value, str):
            continue                                              # docstring
        if isinstance(st, ast.Assign) and len(st.targets) == 1 and isinstance(st.targets[0], ast.Name):
            x = st.targets[0].id
            v = st.value
            if isinstance(v, ast.List) and not v.elts:
                if x in c.tuples or x in c.scalars or x in c.lists:
                    _bad("list name already bound", st)
                c.lists.add(x)
                continue
            if isinstance(v, ast.Call) and isinstance(v.func, ast.Name) and v.func.id == "_cpu_times_deltas":
                if len(v.args) != 2 or v.keywords:
                    _bad("_cpu_times_deltas(a, b) expected", st)
                a, b = _name(v.args[0], "deltas arg"), _name(v.args[1], "deltas arg")
                if a not in c.tuples or b not in c.tuples or x in c.scalars or x in c.lists:
                    _bad("_cpu_times_deltas on unknown tuples", st)
                c.tuples.add(x)
                out.append("SDeltas %s %s %s" % (_s(x), _s(a), _s(b)))
                continue
        if isinstance(st, (ast.Assign, ast.AugAssign)):
            x, e = tr_assign(st, c)
            out.append("SAssign %s (%s)" % (_s(x), e))
            continue
        if isinstance(st, ast.If):
            # `if LINUX:` -- constant True on the platform under check; the body is inlined
            if not (isinstance(st.test, ast.Name) and st.test.id == "LINUX") or st.orelse:
                _bad("only 'if LINUX:' without else is understood", st)
            if tr_block(st.body, c, out):
                _bad("return inside 'if LINUX:'", st)
            continue
        if isinstance(st, ast.For):
            if st.orelse or not st.body:
                _bad("for/else", st)
            it, src = _name(st.target, "loop variable"), _name(st.iter, "loop source")
            ap = _is_append(st.body[-1])
            if src not in c.tuples or ap is None or ap[0] not in c.lists or it in c.tuples or it in c.lists:
                _bad("for x in <tuple>: ...; <list>.append(y) expected", st)
            c.scalars.add(it)
            body = []
            for b in st.body[:-1]:
                x, e = tr_assign(b, c)
                body.append("(%s, %s)" % (_s(x), e))
            if ap[1] not in c.scalars:
                _bad("appended name is not a number", st)
            c.lists.discard(ap[0])
            c.tuples.add(ap[0])
            out.append("SMapFor %s %s %s [%s] %s" % (_s(ap[0]), _s(it), _s(src), "; ".join(body), _s(ap[1])))
            continue
        if isinstance(st, ast.Try):
            if not last or st.finalbody or len(st.handlers) != 1 or len(st.body) != 1:
                _bad("try shape not understood (must be the last statement, one handler, one assignment)", st)
            h = st.handlers[0]
            if not (isinstance(h.type, ast.Name) and h.type.id == "ZeroDivisionError") or h.name \
                    or len(h.body) != 1 or not isinstance(h.body[0], ast.Return) or h.body[0].value is None:
                _bad("handler must be 'except ZeroDivisionError: return <expr>'", st)
            hexpr = tr_expr(h.body[0].value, c)
            x, e = tr_assign(st.body[0], c)
            out.append("STryAssign %s (%s) (%s)" % (_s(x), e, hexpr))
            if not tr_block(st.orelse, c, out):
                _bad("the else: branch of the try must end in a return", st)
            return True
        if isinstance(st, ast.Return):
            if not last or st.value is None:
                _bad("return must be the last statement and return a value", st)
            sp = _is_scputimes_splat(st.value)
            if sp is not None:
                if sp not in c.tuples:
                    _bad("scputimes(*x) of an unknown list", st)
                out.append("SReturnTuple %s" % _s(sp))
            else:
                out.append("SReturn (%s)" % tr_expr(st.value, c))
            return True
        _bad("statement not understood", st)
    return False


def _args(fn, names):
    a = fn.args
    if [x.arg for x in a.args] != list(names) or a.vararg or a.kwarg or a.kwonlyargs or a.posonlyargs or a.defaults:
        _bad("%s: unexpected signature" % fn.name)


def tr_function(fn, argnames):
    _args(fn, argnames)
    c = Ctx(argnames)
    out = []
    if not tr_block(fn.body, c, out):
        _bad("%s: does not end in a return" % fn.name)
    return out


def tr_deltas(fn):
    """_cpu_times_deltas: skeleton checked structurally, loop body translated over the numbers
    "t1@field" = getattr(t1, field), "t2@field" = getattr(t2, field)"""
    _args(fn, ("t1", "t2"))
    body = [s for s in fn.body if not (isinstance(s, ast.Expr) and isinstance(s.value, ast.Constant))]
    if len(body) == 4 and isinstance(body[0], ast.Assert):
        body = body[1:]
    if len(body) != 3:
        _bad("_cpu_times_deltas: expected [assert;] init; for; return")
    init, loop, ret = body
    if not (isinstance(init, ast.Assign) and len(init.targets) == 1 and isinstance(init.targets[0], ast.Name)
            and isinstance(init.value, ast.List) and not init.value.elts):
        _bad("_cpu_times_deltas: list initialisation expected", init)
    lst = init.targets[0].id
    if not isinstance(loop, ast.For) or loop.orelse or not loop.body:
        _bad("_cpu_times_deltas: for loop expected", loop)
    if ast.dump(loop.iter) != ast.dump(ast.parse("_psplatform.scputimes._fields", mode="eval").body):
        _bad("_cpu_times_deltas: loop must range over _psplatform.scputimes._fields", loop.iter)
    field = _name(loop.target, "loop variable")
    ap = _is_append(loop.body[-1])
    if ap is None or ap[0] != lst:
        _bad("_cpu_times_deltas: loop must end in %s.append(x)" % lst, loop.body[-1])
    if not (isinstance(ret, ast.Return) and ret.value is not None and _is_scputimes_splat(ret.value) == lst):
        _bad("_cpu_times_deltas: must return _psplatform.scputimes(*%s)" % lst, ret)
    c = Ctx(("t1", "t2"), loopfield=field)
    out = []
    for b in loop.body[:-1]:
        x, e = tr_assign(b, c)
        out.append("SAssign %s (%s)" % (_s(x), e))
    if ap[1] not in c.scalars:
        _bad("_cpu_times_deltas: appended name is not a number")
    out.append("SReturn (EVar %s)" % _s(ap[1]))
    return out


def _inner(fn, name):
    d = [s for s in fn.body if isinstance(s, ast.FunctionDef) and s.name == name]
    if len(d) != 1:
        _bad("%s: inner function %s not found exactly once" % (fn.name, name))
    return d[0]


def _stores(fn, name):
    return sum(1 for n in ast.walk(fn) if isinstance(n, ast.Name) and n.id == name and isinstance(n.ctx, ast.Store))


def tr_proc_percent(fn):
    """Process.cpu_percent: `num_cpus = cpu_count() or 1` and everything from `delta_proc = ...` to the end.
    The two stores self._last_sys_cpu_times = st2 / self._last_proc_cpu_times = pt2 inside the tail are checked
    and dropped (state is the model's business, not the arithmetic's)."""
    top = fn.body
    def is_assign_to(s, name):
        return isinstance(s, ast.Assign) and len(s.targets) == 1 and isinstance(s.targets[0], ast.Name) \
            and s.targets[0].id == name
    ncs = [i for i, s in enumerate(top) if is_assign_to(s, "num_cpus")]
    dps = [i for i, s in enumerate(top) if is_assign_to(s, "delta_proc")]
    if len(ncs) != 1 or len(dps) != 1 or ncs[0] > dps[0]:
        _bad("Process.cpu_percent: num_cpus / delta_proc assignments not found at top level exactly once, in this order")
    for nm in ("num_cpus", "delta_proc", "delta_time"):
        if _stores(fn, nm) != 1:
            _bad("Process.cpu_percent: %s is assigned more than once" % nm)
    for nm in ("st1", "st2", "pt1", "pt2"):
        for s in top[dps[0]:]:
            if _stores(s, nm):
                _bad("Process.cpu_percent: %s is rebound inside the arithmetic tail" % nm)
    tail = []
    stores = []
    for s in top[dps[0]:]:
        if isinstance(s, ast.Assign) and len(s.targets) == 1 and isinstance(s.targets[0], ast.Attribute):
            t = s.targets[0]
            if not (isinstance(t.value, ast.Name) and t.value.id == "self" and isinstance(s.value, ast.Name)):
                _bad("Process.cpu_percent: store not understood", s)
            stores.append((t.attr, s.value.id))
            continue
        tail.append(s)
    if sorted(stores) != [("_last_proc_cpu_times", "pt2"), ("_last_sys_cpu_times", "st2")]:
        _bad("Process.cpu_percent: the tail must store exactly _last_sys_cpu_times = st2 and _last_proc_cpu_times = pt2, got %r" % (stores,))
    c = Ctx(("pt1", "pt2"))
    c.scalars.update(("st1", "st2"))
    out = []
    if not tr_block([top[ncs[0]]] + tail, c, out):
        _bad("Process.cpu_percent: the tail does not end in a return")
    return out


def programs(impl_dir):
    src = open(os.path.join(impl_dir, "psutil", "__init__.py")).read()
    tree = ast.parse(src)
    tops = {}
    for n in tree.body:
        if isinstance(n, ast.FunctionDef):
            if n.name in tops:
                _bad("function %s defined twice" % n.name)
            tops[n.name] = n
    for nm in ("_cpu_tot_time", "_cpu_busy_time", "_cpu_times_deltas", "cpu_percent", "cpu_times_percent"):
        if nm not in tops:
            _bad("function %s not found at module level" % nm)
    cls = [n for n in tree.body if isinstance(n, ast.ClassDef) and n.name == "Process"]
    if len(cls) != 1:
        _bad("class Process not found")
    meth = [n for n in cls[0].body if isinstance(n, ast.FunctionDef) and n.name == "cpu_percent"]
    if len(meth) != 1:
        _bad("Process.cpu_percent not found")
    # the two calculate() closures must be what the enclosing functions apply to the samples
    for outer in ("cpu_percent", "cpu_times_percent"):
        calls = [n for n in ast.walk(tops[outer]) if isinstance(n, ast.Call) and isinstance(n.func, ast.Name)
                 and n.func.id == "calculate"]
        if len(calls) != 2 or _stores(tops[outer], "calculate"):
            _bad("%s: calculate(t1, t2) expected exactly twice" % outer)
        for cl in calls:
            if [ast.dump(a) for a in cl.args] != [ast.dump(ast.Name("t1", ast.Load())), ast.dump(ast.Name("t2", ast.Load()))] \
                    or cl.keywords:
                _bad("%s: calculate must be applied to (t1, t2)" % outer, cl)
    return [
        ("c07_tot_prog", tr_function(tops["_cpu_tot_time"], ("times",))),
        ("c07_busy_prog", tr_function(tops["_cpu_busy_time"], ("times",))),
        ("c07_delta_body_prog", tr_deltas(tops["_cpu_times_deltas"])),
        ("c07_percent_calc_prog", tr_function(_inner(tops["cpu_percent"], "calculate"), ("t1", "t2"))),
        ("c07_times_percent_calc_prog", tr_function(_inner(tops["cpu_times_percent"], "calculate"), ("t1", "t2"))),
        ("c07_proc_percent_prog", tr_proc_percent(meth[0])),
    ]


FOOTER = """
(* the helpers a translated function may call, in definition order *)
Definition c07_call1 (fn : string) (t : tup) : outcome Q :=
  if String.eqb fn "_cpu_tot_time" then run_fn no_calls c07_tot_prog "times" t else OutOfModel.
Definition c07_call2 (fn : string) (t : tup) : outcome Q :=
  if String.eqb fn "_cpu_tot_time" then run_fn no_calls c07_tot_prog "times" t
  else if String.eqb fn "_cpu_busy_time" then run_fn c07_call1 c07_busy_prog "times" t else OutOfModel.
"""


def gen_text(impl_dir):
    ps = programs(impl_dir)
    lines = ["", "(* GENERATED by props/_c07_gen.py from the ast of psutil/__init__.py of the source under test:",
             "   the arithmetic of _cpu_tot_time, _cpu_busy_time, _cpu_times_deltas (loop body), cpu_percent.calculate,",
             "   cpu_times_percent.calculate and the tail of Process.cpu_percent, in the language of C07/PyGen.v. *)"]
    for name, prog in ps:
        lines.append("Definition %s : list stmt :=\n  [ %s ]." % (name, ";\n    ".join(prog)))
    return "\n".join(lines) + "\n" + FOOTER
