"""C07 -- CPU times and CPU percentages are exact shares of elapsed time."""
import os
from fractions import Fraction

from pv import gallina as G
from pv.canon import T, Exc, Val, outcome, unB

ID = "C07"
COQ_REQUIRE = "C07.Run"
SHARD = 50
RULE = ("(0) systematic block, never sampled: machines whose per-CPU block of /proc/stat exceeds the 32 KiB read buffer (400/768/2048 CPUs, 10 fields, 5- and 20-digit counters; thorough: 2048/4096 wide, 4096 x 7 fields), the first 32768-byte boundary placed between two cpuN lines / inside a field / inside the cpuN label by padding the aggregate line; record generated from (n, base, step) on both sides, Coq ships size + checksum of the printed bytes, row count, the rows around every boundary, and the len/all-zero of cpu_percent(percpu)/cpu_times_percent(percpu) against the import-time sample; " 
        "(1) /proc/stat records printed by the spec's kernel printer (read through cpu_times(), cpu_times(percpu=True)): 7-12 counters per line, 0-16 CPUs (ids with gaps), counters from "
        "{0,1,99,2^31,2^32,2^53+1,2^63,2^64-1,10^25,random}, CLOCK_TICKS from {100,250,1000,1,1024}, shuffled/duplicated/missing tail lines; "
        "plus a malformed byte stream. (2) scripts of 2-7 calls of cpu_times/cpu_percent/cpu_times_percent (percpu or not; interval None, 0, >0 "
        "with the kernel moving during the sleep, <0) issued by 1-3 real threads in a scripted order, every script after a real re-import of psutil "
        "(40% by the script's main thread over an earlier snapshot = import-time priming; the rest by a parked foreign thread, so that no script thread has a sample), over successive snapshots whose "
        "per-field deltas are drawn from {0, 1 tick, <1 s, >=1 s, backwards, huge}; (2a) scripts in which blocking calls have calls of the same thread nested in their sleep "
        "(made from the patched time.sleep, or from a real SIGALRM handler interrupting a real sleep of the main thread), the sleep optionally left by an "
        "exception, /proc/stat rewritten before and after every nested call; (2b) object-lifetime histories with real threads: thread A samples and exits while its "
        "threading.Thread object is kept, dropped before the successor starts, dropped (+gc.collect()) between two calls of the successor, or never; thread B "
        "starts after A (and is handed A's ident) or before A exits; optional third thread and main-thread calls; B's first samples in other series / by "
        "blocking calls or in A's own series (where the ident-keyed code before d2712e2 inherited A's sample); (3) scripts of Process.cpu_percent calls on two "
        "Process objects of one pid with scripted monotonic clock, cpu_count() and all five counters of the process tuple (also inside and across oneshot() blocks, nested blocks, as_dict(attrs) and "
        "process_iter(attrs=...), with /proc/<pid>/stat standing still or moving while a block is open, always ending with a plain call after the block; and the same histories run on psutil.Process, on a subclass overriding name()/create_time()/"
        "is_running()/__init__, on a TreeProcess whose cpu_times() adds the children and on a JsonProcess whose cpu_times() returns a dict): utime/stime and, "
        "independently, cutime/cstime/delayacct_blkio_ticks (mixed, moving alone, or standing still). Non-trivial = at least one counter "
        "or one call; distinct = distinct canonical case hash.")
TRUSTED = ["correspondence harness props/C07.py + pv/ (every case starts from a real re-import of psutil -- importlib.reload of the platform "
           "module and the package -- executed by the script's main thread or by a parked foreign thread, over a fake /proc/stat reached through "
           "pv.shim; only public hooks are patched: builtins.open (shim), os.sysconf (SC_CLK_TCK, SC_NPROCESSORS_ONLN), time.monotonic, time.sleep, "
           "psutil.PROCFS_PATH; no private psutil attribute is read or written; real threads run one call at a time in scripted order; float results are snapped to the model's/spec's exact rational when "
           "within the rounding tolerance)",
           "/proc/stat format transcribed from proc(5) / fs/proc/stat.c in coq/C07/Spec.v",
           "props/_c07_gen.py (ast -> coq/C07/PyGen.v programs, fail closed) and the PyGen interpreter: Python's semantics of the translated "
           "statements over exact rationals (round(x, 1) is the identity, sum() the exact sum, `if LINUX:` is taken, a or b on numbers, "
           "max/min return the first extremal argument); field order of scputimes/pcputimes written by hand in PyGen.v"]
ASSUMPTIONS = ["IEEE double arithmetic and round(x, 1) are not modelled: exact rationals are compared with the returned floats within "
               "0.05 (one rounding step) + 1e-9 + a float-noise term 200*2^-46*max_counter/granularity",
               "a psutil call reads /proc/stat atomically with respect to kernel updates and to other threads' calls (calls are run one "
               "at a time; the per-thread maps are only touched by single dict get/set operations)",
               "in lifetime histories the idents written into the Coq terms are predictions (a new thread is handed the most recently freed ident); they only "
               "matter to the legacy ident-keyed answer kept for diagnosis, never to the verdict",
               "re-executing psutil/_pslinux.py and psutil/__init__.py with importlib.reload is taken to behave like the first import",
               "the kernel keeps the number of counters per line and the set of online CPUs constant within a script (theorem hypotheses)"]
EXHAUSTIVE = {"thorough": "all 4 field counts 7-10 x all (function, percpu, interval form) = 2*2*4 call shapes x {first call, second call} "
                          "x {maps emptied, fresh import} on a fixed triple of snapshots (256 scripts)"}

FIELD_NAMES = ["user", "nice", "system", "idle", "iowait", "irq", "softirq", "steal", "guest", "guest_nice"]
TAIL_NAMES = ["intr", "ctxt", "btime", "processes", "procs_running", "procs_blocked", "softirq"]
CLKS = [100, 100, 100, 100, 250, 1000, 1, 1024]
VALS = [0, 1, 99, 2 ** 31, 2 ** 32, 2 ** 53 + 1, 2 ** 63, 2 ** 64 - 1, 10 ** 25]
KEY_SUBSEC = "cpu_times_percent-subsecond"
SUB_OVERRIDES = ("Tree", "Json")       # subclasses that override the public cpu_times()


# ------------------------------------------------------------------ generators
def _counter(rng):
    k = rng.random()
    if k < 0.35:
        return rng.choice(VALS)
    if k < 0.7:
        return rng.randint(0, 10 ** 6)
    return rng.randint(0, 2 ** 40)


def _tail(rng):
    t = [["intr", [rng.randint(0, 10 ** 9) for _ in range(rng.choice([1, 3, 20]))]], ["ctxt", [rng.randint(0, 2 ** 40)]],
         ["btime", [1500000000]], ["processes", [rng.randint(1, 10 ** 6)]], ["procs_running", [rng.randint(1, 9)]],
         ["procs_blocked", [0]], ["softirq", [rng.randint(0, 10 ** 9) for _ in range(rng.choice([1, 11]))]]]
    k = rng.random()
    if k < 0.15:
        rng.shuffle(t)
    elif k < 0.25:
        t = rng.sample(t, rng.randint(0, 6))
    elif k < 0.32:
        t.insert(rng.randint(0, len(t)), [rng.choice(["ctxt", "intr", "softirq"]), [rng.randint(0, 99)]])
    elif k < 0.36:
        t[rng.randrange(len(t))][1] = []
    return t


def _ids(rng, n):
    if n and rng.random() < 0.2:
        return sorted(rng.sample(range(0, 2 * n + 2), n))
    return list(range(n))


def gen_times(rng):
    nf = rng.choice([7, 8, 9, 10, 10, 10, 10, 11, 12])
    n = rng.choice([0, 1, 1, 2, 4, 8, 16])
    line = lambda: [_counter(rng) for _ in range(nf)]  # noqa: E731
    return {"kind": "times", "cls": "times-nf%d" % nf, "clk": rng.choice(CLKS), "nf": nf, "total": line(),
            "cpus": [[i, line()] for i in _ids(rng, n)], "tail": _tail(rng)}


def pstat(total, cpus, tail, label=b"cpu "):
    out = label + b" " + b" ".join(b"%d" % v for v in total) + b"\n"
    for i, vs in cpus:
        out += b"cpu%d " % i + b" ".join(b"%d" % v for v in vs) + b"\n"
    for nm, vs in tail:
        out += nm.encode() + b" " + b" ".join(b"%d" % v for v in vs) + b"\n"
    return out


RAW_FIXED = [b"", b"\n", b"cpu\n", b"cpu  1 2 3\n", b"cpu  1 2 3 4 5 6\ncpu0 1 2 3 4 5 6\n", b"cpu  1 2 3 4 5 6 7",
             b"cpu  1 2 3 4 5 6 7\ncpu0 1 2 3 4 5 6\n", b"cpu  1 2 3 4 5 6 7 8\ncpu0 1 2 3 4 5 6 7 8 9 10\ncpu1 1 2 3 4 5 6 7\n",
             b"cpu  1 2 3 4 5 6 x\n", b"cpu  1 2 3 4 5 6 7 8 9 10\ncpu0 1 2 3 4 5 6 7 8 9 zz\n", b"cpu  -1 +2 1_0 4 5 6 7\n",
             b"cpu  1 2 3 4 5 6 7 0x10\n", b"cpu  1 2 3 4 5 6 7 8 9 10\ncpufreq 1 2 3 4 5 6 7 8 9 10\nintr 4\n",
             b"cpu  1 2 3 4 5 6 7 8 9 10\n\ncpu0 1 2 3 4 5 6 7 8 9 10\nxcpu1 1 2 3 4 5 6 7 8 9 10\n",
             b"cpu\t1\t2\t3\t4\t5\t6\t7\ncpu0\t1 2 3  4 5 6 7\nctxt\t9\nintr 1\nsoftirq 2\nctxt 5\n",
             b"  cpu  1 2 3 4 5 6 7 8\n cpu0 1 2 3 4 5 6 7 8\n", b"cpu  1 2 3 4 5 6 7 8 9 10 11 12\ncpu0 1 2 3 4 5 6 7 8 9 10 11 12\n",
             b"cpu  1 2 3 4 5 6 7\nctxt\nintr 5\n", b"cpu  1 2 3 4 5 6 7\nctxt x\n", b"cpu  1 2 3 4 5 6 7\nintr 5\nsoftirq 6\n",
             b"cpu  1 2 3 4 5 6 7\nsoftirq 6\nintr 5\nctxt 4\nctxt 9\n", b"cpu  1 2 3 4 5 6 7\r\ncpu0 1 2 3 4 5 6 7\r\n",
             b"cpu  1e2 2 3 4 5 6 7\n", b"cpu  1.5 2 3 4 5 6 7\n", b"cpu  nan 2 3 4 5 6 7\n"]


def gen_times_raw(rng):
    if rng.random() < 0.6:
        c = rng.choice(RAW_FIXED)
    else:
        t = gen_times(rng)
        c = bytearray(pstat(t["total"], t["cpus"][:3], [[n, v[:3]] for n, v in t["tail"]]))
        for _ in range(rng.choice([1, 1, 2])):
            k = rng.random()
            if not c:
                break
            p = rng.randrange(len(c))
            if k < 0.3:
                c[p:p + 1] = rng.choice([b" ", b"\n", b"x", b"", b"-", b"_", b"9", b"\t"])
            elif k < 0.6:
                del c[p:p + rng.randint(1, 12)]
            elif k < 0.8:
                c = c[:p]
            else:
                c[p:p] = rng.choice([b" 7", b"\ncpu9 1 2 3\n", b" x ", b"\n\n"])
        c = bytes(c)
    return {"kind": "times_raw", "cls": "times-raw", "clk": rng.choice(CLKS), "content": c.hex()}


def _delta(rng, clk, g, cur, allow_back):
    k = rng.random()
    if k < 0.3:
        return 0
    if k < 0.45:
        return g
    if k < 0.6:
        return g * rng.randint(1, max(1, clk - 1))
    if k < 0.85:
        return g * rng.randint(clk, 50 * clk)
    if k < 0.93 and allow_back and cur > 0:
        return -rng.randint(1, cur)
    return g * rng.randint(10 ** 6, 10 ** 9)


def _evolve(rng, snap, clk, g, mode, nf, anchor, back=True):
    """next kernel state; mode: any | safe (elapsed total 0 or >= 1 s on every line) | sub (small totals) | same"""
    if mode == "same" or (mode == "safe" and rng.random() < 0.15):
        return {"total": list(snap["total"]), "cpus": [list(c) for c in snap["cpus"]]}

    def line(vs):
        out = list(vs)
        if mode == "sub":
            for _ in range(rng.choice([1, 1, 2, 3])):
                f = rng.randrange(nf)
                out[f] += rng.choice([1, 1, 2, 5, max(1, clk // 5), max(1, clk - 1)])
            if back and rng.random() < 0.2 and out[1] > 0:
                out[1] -= 1
            return out
        for f in range(nf):
            out[f] += _delta(rng, clk, g, out[f], allow_back=back and not (mode == "safe" and f == anchor))
        if mode == "safe":
            out[anchor] = max(out[anchor], vs[anchor]) + g * clk
        return out
    return {"total": line(snap["total"]), "cpus": [line(c) for c in snap["cpus"]]}


def gen_script(rng, flavour, big=False):
    clk = rng.choice(CLKS)
    nf = rng.choice([7, 8, 9, 10, 10, 10])
    ncpu = rng.choice([1, 1, 2, 3, 4] + ([8] if big else []))
    ids = _ids(rng, ncpu)
    huge = flavour != "tp-sub" and rng.random() < 0.12
    g = 2 ** 40 if huge else 1
    base = (lambda: 2 ** 63 + rng.randint(0, 2 ** 40)) if huge else (lambda: rng.choice([0, 0, 5, rng.randint(0, 10 ** 5), rng.randint(0, 2 ** 31)]))
    snaps = [{"total": [base() for _ in range(nf)], "cpus": [[base() for _ in range(nf)] for _ in ids]}]
    anchor = rng.choice([0, 1, 2, 3, 4, 5, 6] + ([7] if nf >= 8 else []))
    nthreads = rng.choice([1, 1, 2, 3])
    back = rng.random() < 0.6      # may counters go backwards in this script?
    mode = {"p": "any", "tp-safe": "safe", "tp-sub": "sub", "mixed": "safe", "mixed-any": "any"}[flavour]
    events = []
    for _ in range(rng.randint(2, 7 if big else 6)):
        fn = {"p": "p", "tp-safe": "tp", "tp-sub": "tp"}.get(flavour) or rng.choice(["p", "tp"])
        if rng.random() < 0.12:
            fn = "t"           # a plain cpu_times() call in between: must not disturb any series
        iv = rng.choice(["none", "none", "none", "zero", "pos", "pos", "neg"] if rng.random() < 0.5 else ["none", "zero", "pos"])
        if fn == "t":
            iv = "none"
        m = mode if rng.random() < 0.9 else "same"
        snaps.append(_evolve(rng, snaps[-1], clk, g, m, nf, anchor, back))
        k1 = len(snaps) - 1
        k2 = k1
        if iv == "pos":
            snaps.append(_evolve(rng, snaps[-1], clk, g, mode, nf, anchor, back))
            k2 = len(snaps) - 1
        events.append({"tid": rng.randrange(nthreads), "fn": fn, "percpu": rng.random() < 0.45, "iv": iv, "k1": k1, "k2": k2,
                       "zero": rng.choice([0, 0.0])})
    went_back = any(b < a for s, t in zip(snaps, snaps[1:]) for a, b in zip(s["total"] + sum(s["cpus"], []), t["total"] + sum(t["cpus"], [])))
    # imp = index of the kernel state psutil is imported over (by thread 0 = the main thread); None = maps emptied
    imp = 0 if rng.random() < 0.4 else None
    cls = "script-%s%s%s%s%s" % (flavour, "-huge" if huge else "", "-back" if went_back else "", "-mt" if nthreads > 1 else "",
                                 "-imp" if imp is not None else "")
    return {"kind": "script", "cls": cls, "clk": clk, "nf": nf, "ids": ids, "gran": g, "snaps": snaps, "events": events, "imp": imp}


SERIES = [("p", False), ("p", True), ("tp", False), ("tp", True)]


def gen_life(rng, inherit=None):
    """Object-lifetime histories: thread A samples and exits (its Thread object kept, dropped before B starts, dropped between two calls
    of B, or never); thread B is started afterwards (it is given A's ident) or before A exits (it is not); optionally a third thread
    and calls of the main thread in between.  inherit=False: B's first sample in every series A used is a blocking call or B uses other
    series (nothing to inherit); True: B's first non-blocking call is in a series A sampled (finding class); None: free."""
    clk = rng.choice(CLKS)
    nf = rng.choice([7, 8, 9, 10, 10])
    ids = _ids(rng, rng.choice([1, 1, 2]))
    snaps = [{"total": [rng.randint(0, 10 ** 5) for _ in range(nf)], "cpus": [[rng.randint(0, 10 ** 5) for _ in range(nf)] for _ in ids]}]
    anchor = rng.choice([0, 2, 3])
    imp_th = rng.choice([0, 99])
    alive0 = [0] + ([99] if imp_th == 99 else [])
    idents = {"0": 100, "99": 199}
    free, fresh = [], [200]
    ops = []
    own = {}          # (th, fn, percpu) -> has a sample
    left = {}         # (ident, fn, percpu) -> thread that left the latest sample there
    for sr in SERIES:
        left[(idents[str(imp_th)],) + sr] = imp_th
    inherits = [False]

    def start(th):
        if free:
            i = free.pop()
        else:
            i = fresh[0]
            fresh[0] += 1
        idents[str(th)] = i
        ops.append({"op": "start", "th": th})

    def exit_(th):
        ops.append({"op": "exit", "th": th})
        free.append(idents[str(th)])

    def call(th, series=None, iv=None, fn_t=False):
        fn, percpu = series if series else rng.choice(SERIES)
        iv = iv or rng.choice(["none", "none", "zero", "pos", "neg"] if rng.random() < 0.3 else ["none", "none", "zero"])
        if fn_t:
            fn, iv = "t", "none"
        mode = "safe" if rng.random() < 0.9 else "same"
        snaps.append(_evolve(rng, snaps[-1], clk, 1, mode, nf, anchor, rng.random() < 0.3))
        k1 = k2 = len(snaps) - 1
        if iv == "pos":
            snaps.append(_evolve(rng, snaps[-1], clk, 1, "safe", nf, anchor, False))
            k2 = len(snaps) - 1
        if fn != "t" and iv != "neg":
            key = (idents[str(th)], fn, percpu)
            if iv != "pos" and not own.get((th, fn, percpu)) and left.get(key, th) != th:
                inherits[0] = True
            own[(th, fn, percpu)] = True
            left[key] = th
        ops.append({"op": "call", "th": th, "fn": fn, "percpu": percpu, "iv": iv, "k1": k1, "k2": k2, "zero": rng.choice([0, 0.0])})

    def maybe_main():
        if rng.random() < 0.3:
            call(0, fn_t=rng.random() < 0.3)

    collect_when = rng.choice(["before-start", "between", "between", "between", "never", "after"])
    overlap = rng.random() < 0.15            # B starts while A is still running: no hand-over of the ident
    a_series = rng.sample(SERIES, rng.choice([1, 1, 2]))
    start(1)
    for sr in a_series:
        call(1, sr, iv=rng.choice(["none", "zero", "pos"]))
    maybe_main()
    if overlap:
        start(2)
    exit_(1)
    if collect_when == "before-start":
        ops.append({"op": "collect", "th": 1})
    if not overlap:
        start(2)
    other = [sr for sr in SERIES if sr not in a_series]
    want_inherit = inherit if inherit is not None else rng.random() < 0.3
    # B's first samples
    if want_inherit and not overlap:
        call(2, rng.choice(a_series), iv=rng.choice(["none", "zero"]))
    else:
        if other and rng.random() < 0.6:
            call(2, rng.choice(other), iv=rng.choice(["none", "zero"]))
        for sr in a_series:
            if rng.random() < 0.7:
                call(2, sr, iv="pos")          # blocking: takes B's own sample without looking at what lies under the ident
    b_series = [sr for sr in SERIES if own.get((2,) + sr)]
    maybe_main()
    if collect_when == "between":
        ops.append({"op": "collect", "th": 1})
    for _ in range(rng.randint(1, 3)):
        call(2, rng.choice(b_series) if b_series and rng.random() < 0.85 else None, iv=rng.choice(["none", "none", "zero"]))
        b_series = [sr for sr in SERIES if own.get((2,) + sr)]
        if rng.random() < 0.2:
            maybe_main()
    if rng.random() < 0.3:                    # a third thread after B is gone too
        exit_(2)
        if rng.random() < 0.5:
            ops.append({"op": "collect", "th": 2})
        start(3)
        call(3, iv="pos")
        call(3, iv=rng.choice(["none", "zero"]))
    if collect_when == "after":
        ops.append({"op": "collect", "th": 1})
    cls = "life-%s%s%s" % ("overlap" if overlap else "reuse", "-inherit" if inherits[0] else "", "-collect-" + collect_when)
    return {"kind": "life", "cls": cls, "clk": clk, "nf": nf, "ids": ids, "gran": 1, "snaps": snaps, "ops": ops,
            "imp": {"th": imp_th, "snap": 0}, "alive0": alive0, "idents": idents}


def gen_nest(rng, flavour="p"):
    """scripts in which blocking calls have calls of the SAME thread nested in their sleep (a signal handler, a gc callback ...
    calling psutil again), optionally leaving the sleep by an exception; flavour p: cpu_percent only (any deltas), safe: both
    functions with >= 1 s between snapshots."""
    clk = rng.choice(CLKS)
    nf = rng.choice([7, 8, 9, 10, 10])
    ids = _ids(rng, rng.choice([1, 1, 2, 3]))
    mode = "any" if flavour == "p" else "safe"
    back = rng.random() < 0.4
    snaps = [{"total": [rng.choice([0, 5, rng.randint(0, 10 ** 5)]) for _ in range(nf)], "cpus": [[rng.randint(0, 10 ** 5) for _ in range(nf)] for _ in ids]}]
    anchor = rng.choice([0, 2, 3])
    nthreads = rng.choice([1, 1, 2])

    def snap(m=None):
        snaps.append(_evolve(rng, snaps[-1], clk, 1, m or (mode if rng.random() < 0.9 else "same"), nf, anchor, back))
        return len(snaps) - 1

    def ev(tid, blocking=None, allow_neg=True):
        fn = "p" if flavour == "p" else rng.choice(["p", "tp"])
        iv = "pos" if blocking else rng.choice(["none", "none", "zero"] + (["neg"] if allow_neg else [])) if blocking is False else \
            rng.choice(["none", "zero", "pos", "pos"])
        if rng.random() < 0.08 and not blocking:
            fn, iv = "t", "none"
        return {"tid": tid, "fn": fn, "percpu": rng.random() < 0.45, "iv": iv, "zero": rng.choice([0, 0.0])}

    events = []
    n_nested = 0
    for _ in range(rng.randint(2, 5)):
        tid = rng.randrange(nthreads)
        e = ev(tid, blocking=True if rng.random() < 0.6 else None)
        e["k1"] = snap()
        e["k2"] = e["k1"]
        if e["iv"] == "pos" and e["fn"] != "t":
            nested = []
            for _ in range(rng.choice([0, 1, 1, 2, 3])):
                n = ev(tid, blocking=True if rng.random() < 0.2 else False)
                n["k1"] = snap()
                n["k2"] = snap(mode) if n["iv"] == "pos" and n["fn"] != "t" else n["k1"]
                nested.append(n)
            e["nested"] = nested
            n_nested += len(nested)
            e["raise"] = rng.random() < 0.2
            e["trigger"] = "sigalrm" if tid == 0 and rng.random() < 0.25 else "sleep"
            e["k2"] = snap(mode)
        events.append(e)
    imp = 0 if rng.random() < 0.4 else None
    cls = "nest-%s%s%s%s%s" % (flavour, "-nested" if n_nested else "", "-raise" if any(e.get("raise") for e in events) else "",
                               "-sigalrm" if any(e.get("trigger") == "sigalrm" for e in events) else "", "-imp" if imp is not None else "")
    return {"kind": "nest", "cls": cls, "clk": clk, "nf": nf, "ids": ids, "gran": 1, "snaps": snaps, "events": events, "imp": imp}


def gen_script_raw(rng):
    clk = 100
    a = pstat([10, 0, 5, 100, 1, 0, 0, 0, 0, 0], [[0, [10, 0, 5, 100, 1, 0, 0, 0, 0, 0]], [1, [1, 2, 3, 4, 5, 6, 7, 8, 9, 10]]], [["ctxt", [4]]])
    b = pstat([130, 0, 55, 300, 1, 0, 0, 0, 0, 0], [[0, [130, 0, 55, 300, 1, 0, 0, 0, 0, 0]], [1, [201, 2, 3, 204, 5, 6, 7, 8, 9, 10]]], [["ctxt", [4]]])
    pool = [a, b, pstat([10, 0, 5, 100, 1, 0, 0], [[0, [10, 0, 5, 100, 1, 0, 0]]], []),     # fewer counters than memoised
            pstat([130, 0, 55, 300, 1, 0, 0, 0, 0, 0], [], []),                                 # no cpuN lines
            pstat([130, 0, 55, 300, 1, 0, 0, 0, 0, 0], [[1, [201, 2, 3, 204, 5, 6, 7, 8, 9, 10]]], []),   # cpu0 went offline
            b"cpu  1 2 3 4 5 6 x 8 9 10\ncpu0 1 2 3\n", b"", pstat([500, 0, 55, 900, 1, 0, 0, 0, 0, 0, 11, 12], [[0, [500, 0, 55, 900, 1, 0, 0, 0, 0, 0, 11, 12]]], [])]
    evs = []
    for _ in range(rng.randint(2, 6)):
        iv = rng.choice(["none", "none", "zero", "pos", "neg"])
        fn = rng.choice(["p", "tp", "p", "tp", "t"])
        if fn == "t":
            iv = "none"
        evs.append({"tid": rng.randrange(2), "fn": fn, "percpu": rng.random() < 0.5, "iv": iv,
                    "k1": rng.choice(pool).hex(), "k2": rng.choice(pool).hex(), "zero": 0})
    # import over a well-formed, a 7-counter (layout then stays 7), a malformed (maps stay empty) or an empty file
    imp = rng.choice([None, None, a, pool[2], pool[5], b""])
    return {"kind": "script_raw", "cls": "script-raw" + ("-imp" if imp is not None else ""), "clk": clk, "events": evs,
            "imp": None if imp is None else imp.hex()}


def gen_proc(rng, change_ncpu=False, decoy="mixed"):
    """decoy: how children_user (cutime), children_system (cstime), iowait (delayacct_blkio_ticks) move,
    independently of utime/stime: 'mixed' (random), 'only' (ONLY the decoys move: the demanded value is 0),
    'still' (they never move)"""
    clk = rng.choice(CLKS)
    n0 = rng.choice([1, 1, 2, 4, 8, 64, 0, -1])
    t = Fraction(rng.randint(0, 2 ** 20), 8)
    u, s = rng.randint(0, 10 ** 5), rng.randint(0, 10 ** 5)
    d = [rng.randint(0, 10 ** 5), rng.randint(0, 10 ** 5), rng.randint(0, 10 ** 4)]
    evs = []

    def adv():
        nonlocal t, u, s
        t += Fraction(rng.choice([0, 1, 1, 8, 84, 8000, rng.randint(1, 10 ** 4)]), 8)
        if decoy != "only":
            u += rng.choice([0, 1, 5, clk, rng.randint(0, 10 ** 4)])
            s += rng.choice([0, 0, 1, 7, rng.randint(0, 10 ** 3)])
        if decoy != "still":
            for i in range(3):
                d[i] += rng.choice([0, 0, 1, 3, clk, 17 * clk, rng.randint(0, 10 ** 5)])
        return [[t.numerator, t.denominator], u, s] + list(d)
    for _ in range(rng.randint(2, 7)):
        iv = rng.choice(["none", "none", "none", "zero", "pos", "neg"])
        n = rng.choice([1, 2, 3, 4, 16, 0]) if change_ncpu and rng.random() < 0.6 else n0
        r1 = adv()
        r2 = adv() if iv == "pos" else list(r1)
        evs.append({"obj": rng.randrange(2), "iv": iv, "ncpu": n, "r1": r1, "r2": r2, "zero": rng.choice([0, 0.0])})
    return {"kind": "proc", "cls": "proc" + ("-ncpu-change" if change_ncpu else "") + {"mixed": "", "only": "-decoys-only", "still": "-decoys-still"}[decoy],
            "clk": clk, "events": evs}


def gen_pblock(rng, const=True):
    """Process-level histories mixing calls inside and outside oneshot() blocks (nested too), as_dict(...) and
    process_iter(attrs=...): cpu_times() / cpu_percent() in every order, two cpu_percent() in one block, a plain call after
    the block.  const: /proc/<pid>/stat stands still while any block is open (block transparency applies); otherwise it
    may move inside a block (the block keeps its first read)."""
    clk = rng.choice(CLKS)
    ncpu = rng.choice([1, 2, 4, 0])
    t = Fraction(rng.randint(0, 2 ** 16), 8)
    tk = [rng.randint(0, 10 ** 5), rng.randint(0, 10 ** 5), rng.randint(0, 10 ** 4), rng.randint(0, 10 ** 4), rng.randint(0, 10 ** 3)]
    depth = {0: 0, 1: 0}
    ops = []

    def adv():
        nonlocal t
        t += Fraction(rng.choice([1, 4, 8, 84, rng.randint(1, 4000)]), 8)
        if not (const and any(depth.values())):
            tk[0] += rng.choice([0, 1, 5, clk, rng.randint(0, 10 ** 4)])
            tk[1] += rng.choice([0, 1, 7, rng.randint(0, 10 ** 3)])
            for i in (2, 3, 4):
                tk[i] += rng.choice([0, 0, 3, rng.randint(0, 10 ** 4)])
        return [[t.numerator, t.denominator]] + list(tk)

    def percent(o, iv=None):
        iv = iv or rng.choice(["none", "none", "none", "zero", "pos", "neg"])
        r1 = adv()
        r2 = adv() if iv == "pos" else list(r1)
        ops.append({"op": "percent", "obj": o, "iv": iv, "r1": r1, "r2": r2, "zero": rng.choice([0, 0.0])})

    used = set()
    for _ in range(rng.randint(4, 10)):
        o = rng.choice([0, 0, 1])
        k = rng.random()
        if k < 0.16 and depth[o] < 2:
            ops.append({"op": "enter", "obj": o})
            depth[o] += 1
        elif k < 0.30 and depth[o] > 0:
            ops.append({"op": "exit", "obj": o})
            depth[o] -= 1
        elif k < 0.50:
            ops.append({"op": "times", "obj": o, "r": adv()})
        elif k < 0.80:
            percent(o)
        elif k < 0.92:
            ops.append({"op": "as_dict", "obj": o, "attrs": rng.choice([["cpu_times", "cpu_percent"], ["cpu_times", "cpu_percent"], ["cpu_percent"], ["cpu_times"]]),
                        "r": adv()})
        else:
            ops.append({"op": "iter", "obj": 9, "attrs": rng.choice([["cpu_times", "cpu_percent"], ["cpu_percent"]]), "r": adv()})
            used.add(9)
        used.add(o)
    for o in (0, 1):                      # leave every block, then a plain call: a bogus stored sample shows only now
        while depth[o] > 0:
            ops.append({"op": "exit", "obj": o})
            depth[o] -= 1
    for o in sorted(used):
        if o == 9:
            ops.append({"op": "iter", "obj": 9, "attrs": ["cpu_times", "cpu_percent"], "r": adv()})
        else:
            percent(o, iv=rng.choice(["none", "zero"]))
    inblock = any(x["op"] in ("enter", "as_dict", "iter") for x in ops)
    return {"kind": "pblock", "cls": "pblock-%s%s" % ("const" if const else "moving", "" if inblock else "-noblock"), "clk": clk, "ncpu": ncpu, "ops": ops}


def gen_subclass(rng, blocks=True):
    """one history of cpu_percent()/cpu_times() calls (blocking and not, inside/outside oneshot(), as_dict) to be run on
    psutil.Process and on three user subclasses: the cpu_percent() answers must be identical and nothing may raise"""
    clk = rng.choice(CLKS)
    ncpu = rng.choice([1, 2, 4])
    t = Fraction(rng.randint(0, 2 ** 12), 8)
    tk = [rng.randint(0, 10 ** 5), rng.randint(0, 10 ** 5), rng.randint(1, 10 ** 4), rng.randint(1, 10 ** 4), rng.randint(0, 10 ** 3)]
    depth = 0
    ops = []

    def adv():
        nonlocal t
        t += Fraction(rng.choice([1, 8, 84, rng.randint(1, 4000)]), 8)
        if depth == 0:
            tk[0] += rng.choice([0, 1, 5, clk, rng.randint(0, 10 ** 4)])
            tk[1] += rng.choice([0, 1, 7, rng.randint(0, 10 ** 3)])
            for i in (2, 3, 4):
                tk[i] += rng.choice([0, 3, rng.randint(1, 10 ** 4)])      # the children's time and iowait move a lot
        return [[t.numerator, t.denominator]] + list(tk)

    def percent(iv=None):
        iv = iv or rng.choice(["none", "none", "zero", "pos", "neg"])
        r1 = adv()
        ops.append({"op": "percent", "obj": 0, "iv": iv, "r1": r1, "r2": adv() if iv == "pos" else list(r1), "zero": rng.choice([0, 0.0])})

    percent("none")
    for _ in range(rng.randint(3, 7)):
        k = rng.random()
        if blocks and k < 0.15 and depth < 2:
            ops.append({"op": "enter", "obj": 0})
            depth += 1
        elif blocks and k < 0.28 and depth > 0:
            ops.append({"op": "exit", "obj": 0})
            depth -= 1
        elif k < 0.45:
            ops.append({"op": "times", "obj": 0, "r": adv()})
        elif blocks and k < 0.58:
            ops.append({"op": "as_dict", "obj": 0, "attrs": rng.choice([["cpu_times", "cpu_percent"], ["cpu_percent"]]), "r": adv()})
        else:
            percent()
    while depth > 0:
        ops.append({"op": "exit", "obj": 0})
        depth -= 1
    percent(rng.choice(["none", "zero"]))
    plain = [dict(o) for o in ops if o["op"] not in ("enter", "exit", "as_dict")]
    out = []
    for kl in ("Process", "Plain", "Tree", "Json"):
        # overriding subclasses: outside blocks only (nothing is demanded of them inside oneshot()/as_dict())
        mine = plain if kl in SUB_OVERRIDES else [dict(o) for o in ops]
        nb = not any(o["op"] in ("enter", "as_dict") for o in mine)
        out.append({"kind": "subclass", "cls": "subclass-%s%s" % (kl, "-noblock" if nb else ""), "clk": clk, "ncpu": ncpu, "klass": kl, "ops": mine})
    return out


def _exhaustive_shapes():
    out = []
    for nf in (7, 8, 9, 10):
        s0 = {"total": [100, 3, 50, 1000, 10, 2, 3, 4, 7, 1][:nf], "cpus": [[60, 3, 20, 500, 5, 2, 1, 2, 7, 1][:nf], [40, 0, 30, 500, 5, 0, 2, 2, 0, 0][:nf]]}
        s1 = {"total": [400, 2, 150, 1700, 60, 2, 13, 40, 57, 1][:nf], "cpus": [[160, 2, 120, 800, 55, 2, 1, 22, 57, 1][:nf], [240, 0, 30, 900, 5, 0, 12, 18, 0, 0][:nf]]}
        s2 = {"total": [900, 2, 150, 2700, 60, 9, 13, 40, 57, 9][:nf], "cpus": [[460, 2, 120, 1800, 55, 9, 1, 22, 57, 9][:nf], [440, 0, 30, 900, 5, 0, 12, 18, 0, 0][:nf]]}
        for fn in ("p", "tp"):
            for percpu in (False, True):
                for iv in ("none", "zero", "pos", "neg"):
                    for first in ("none", "pos"):
                        evs = [{"tid": 0, "fn": fn, "percpu": percpu, "iv": first, "k1": 0, "k2": 1, "zero": 0},
                               {"tid": 0, "fn": fn, "percpu": percpu, "iv": iv, "k1": 1 if first == "none" else 2, "k2": 2, "zero": 0.0}]
                        for imp in (None, 0):
                            out.append({"kind": "script", "cls": "script-shape" + ("-imp" if imp is not None else ""), "clk": 100, "nf": nf,
                                        "ids": [0, 1], "gran": 1, "snaps": [s0, s1, s2], "events": [dict(x) for x in evs], "imp": imp})
    return out


# ---- wave 8: machines larger than psutil's 32 KiB read buffer (FILE_READ_BUFFER_SIZE): the per-CPU block of /proc/stat is
# 40-900 KB.  The record is generated from a few numbers (CPU i has counters base_j + i * step_j) on both sides; Coq ships the
# size and a checksum of the printed bytes, the number of rows and the rows at the sampled indices (around every 32768-byte
# boundary), never the whole answer.
BIG_BUF = 32768
BIG_TAIL = [("intr", [5, 1]), ("ctxt", [7])]


def _big_cpus(n, base, step):
    return [(i, [b + i * st for b, st in zip(base, step)]) for i in range(n)]


def _big_content(case):
    return pstat(case["total"], _big_cpus(case["n"], case["base"], case["step"]), BIG_TAIL)


def _big_cksum(c):
    a = b = 0
    for x in c:
        a += x
        b += a
    return a + 1099511627776 * b


def _big_lines(case):
    """[(start offset, length)] of the cpuN lines"""
    off = len(pstat(case["total"], [], []))
    out = []
    for i, vs in _big_cpus(case["n"], case["base"], case["step"]):
        ln = len(b"cpu%d " % i + b" ".join(b"%d" % v for v in vs) + b"\n")
        out.append((off, ln))
        off += ln
    return out


def _big_case(n, nf, width, place, clk=100):
    """place: where the FIRST buffer boundary falls: 'between' two cpuN lines, inside a 'field', inside the 'label', or 'any'"""
    base = [10 ** (width - 1) + 7 * j + 1 for j in range(nf)]
    step = [j + 1 for j in range(nf)]
    case = None
    for digits in range(1, 21):
        for extra in range(nf):
            # the aggregate line is padded (longer counters) until the boundary falls where it is wanted
            total = [10 ** (digits - 1 + (1 if j < extra else 0)) - 1 if digits + (1 if j < extra else 0) > 1 else 1 for j in range(nf)]
            total = [max(t, 1) for t in total]
            case = {"kind": "big", "cls": "big-n%d-nf%d-w%d-%s" % (n, nf, width, place), "clk": clk, "nf": nf, "total": total, "n": n,
                    "base": base, "step": step}
            lines = _big_lines(case)
            hit = [(o, ln) for o, ln in lines if o <= BIG_BUF < o + ln]
            if place == "any" or not hit:
                break
            rel = BIG_BUF - hit[0][0]
            lab = len(b"cpu%d" % lines.index(hit[0]))
            if (place == "between" and rel == 0) or (place == "label" and 0 < rel < lab) or (place == "field" and lab + 3 < rel < hit[0][1] - 3 and
                                                                                             _big_content(case)[BIG_BUF:BIG_BUF + 1].isdigit()
                                                                                             and _big_content(case)[BIG_BUF - 1:BIG_BUF].isdigit()):
                break
        else:
            continue
        break
    lines = _big_lines(case)
    size = lines[-1][0] + lines[-1][1]
    idx = {0, n - 1}
    for bnd in range(BIG_BUF, size + BIG_BUF, BIG_BUF):
        js = [j for j, (o, ln) in enumerate(lines) if o <= bnd < o + ln] or [n - 1]
        for j in js:
            idx.update(x for x in (j - 1, j, j + 1) if 0 <= x < n)
    case["idx"] = sorted(idx)
    return case


def gen_big(tier):
    cases = [_big_case(400, 10, 20, "between"), _big_case(400, 10, 20, "field"), _big_case(400, 10, 20, "label"),
             _big_case(768, 10, 20, "any"), _big_case(2048, 10, 5, "any", clk=250)]
    if tier == "thorough":
        cases += [_big_case(2048, 10, 20, "any"), _big_case(4096, 10, 20, "any"), _big_case(4096, 7, 9, "any", clk=1000)]
    return cases


def gen_cases(rng, tier):
    n = {"quick": 1, "thorough": 10, "search": 2}[tier]
    big = tier == "thorough"
    cases = []
    if tier != "search":
        cases += _exhaustive_shapes() if tier == "thorough" else _exhaustive_shapes()[::7]
        cases += gen_big(tier)          # systematic, never sampled
    cases += [gen_times(rng) for _ in range(50 * n)]
    cases += [gen_times_raw(rng) for _ in range(40 * n)]
    for flavour, k in (("p", 45), ("tp-safe", 45), ("mixed", 40), ("mixed-any", 18), ("tp-sub", 18)):
        cases += [gen_script(rng, flavour, big) for _ in range(k * n)]
    cases += [gen_script_raw(rng) for _ in range(40 * n)]
    cases += [gen_nest(rng, "p") for _ in range(30 * n)]
    cases += [gen_nest(rng, "safe") for _ in range(20 * n)]
    cases += [gen_life(rng, inherit=False) for _ in range(22 * n)]
    cases += [gen_life(rng, inherit=True) for _ in range(10 * n)]
    cases += [gen_life(rng) for _ in range(10 * n)]
    cases += [gen_proc(rng) for _ in range(30 * n)]
    cases += [gen_proc(rng, decoy="only") for _ in range(12 * n)]
    cases += [gen_proc(rng, decoy="still") for _ in range(4 * n)]
    cases += [gen_proc(rng, True) for _ in range(10 * n)]
    for _ in range(5 * n):
        cases += gen_subclass(rng, True)
    for _ in range(4 * n):
        cases += gen_subclass(rng, False)
    cases += [gen_pblock(rng, True) for _ in range(30 * n)]
    cases += [gen_pblock(rng, False) for _ in range(15 * n)]
    return cases


# ------------------------------------------------------------------ Coq terms
def _q(nd):
    return "(%s # %d)%%Q" % (G.z(nd[0]), nd[1])


def _stat(total, cpus, tail):
    return "(mk_stat %s %s %s)" % (G.zs(total), G.lst(["(%d, %s)" % (i, G.zs(v)) for i, v in cpus]),
                                   G.lst(["(%d, %s)" % (TAIL_NAMES.index(nm), G.zs(v)) for nm, v in tail]))


IV = {"none": "INone", "zero": "IZero", "pos": "IPos", "neg": "INeg"}
FN = {"t": "FTimes", "p": "FPercent", "tp": "FTimesPercent"}
SCRIPT_TAIL = [["intr", [5, 1]], ["ctxt", [7]]]


def coq_term(case):
    k = case["kind"]
    clk = "%d%%positive" % case["clk"]
    if k == "times":
        return "run_times %s %s %s" % (clk, G.nat(case["nf"]), _stat(case["total"], case["cpus"], case["tail"]))
    if k == "times_raw":
        return "run_times_raw %s %s" % (clk, G.by(bytes.fromhex(case["content"])))
    if k == "big":
        return "run_big %s %s %s %s %s %s %s" % (clk, G.nat(case["nf"]), G.zs(case["total"]), G.nat(case["n"]), G.zs(case["base"]),
                                                G.zs(case["step"]), G.lst([G.nat(i) for i in case["idx"]]))
    if k == "script":
        lets = "".join("let s%d := %s in " % (i, _stat(s["total"], list(zip(case["ids"], s["cpus"])), SCRIPT_TAIL))
                       for i, s in enumerate(case["snaps"]))
        evs = ["(mk_ev %d %s %s %s s%d s%d)" % (e["tid"], FN[e["fn"]], G.bo(e["percpu"]), IV[e["iv"]], e["k1"], e["k2"]) for e in case["events"]]
        imp = "(Some (%d, s%d))" % _imp_of(case)
        return "%srun_script %s %s %s %s" % (lets, clk, G.nat(case["nf"]), imp, G.lst(evs))
    if k == "nest":
        lets = "".join("let s%d := %s in " % (i, _stat(sn["total"], list(zip(case["ids"], sn["cpus"])), SCRIPT_TAIL))
                       for i, sn in enumerate(case["snaps"]))
        kev = lambda e: "(mk_ev %d %s %s %s s%d s%d)" % (e["tid"], FN[e["fn"]], G.bo(e["percpu"]), IV[e["iv"]], e["k1"], e["k2"])  # noqa: E731
        bevs = ["(mk_bev %s %s %s)" % (kev(e), G.lst([kev(n) for n in e.get("nested", [])]), G.bo(e.get("raise", False))) for e in case["events"]]
        return "%srun_bscript %s %s (Some (%d, s%d)) %s" % ((lets, clk, G.nat(case["nf"])) + _imp_of(case) + (G.lst(bevs),))
    if k == "life":
        lets = "".join("let s%d := %s in " % (i, _stat(sn["total"], list(zip(case["ids"], sn["cpus"])), SCRIPT_TAIL))
                       for i, sn in enumerate(case["snaps"]))
        idents = case["idents"]
        levs = []
        for o in case["ops"]:
            if o["op"] == "start":
                levs.append("LStart %d %d" % (o["th"], idents[str(o["th"])]))
            elif o["op"] == "exit":
                levs.append("LExit %d" % o["th"])
            elif o["op"] == "collect":
                levs.append("LCollect %d" % o["th"])
            else:
                levs.append("LCall %d (mk_ev %d %s %s %s s%d s%d)" % (o["th"], idents[str(o["th"])], FN[o["fn"]], G.bo(o["percpu"]),
                                                                     IV[o["iv"]], o["k1"], o["k2"]))
        imp = case["imp"]
        al0 = ["(%d, %d)" % (t, idents[str(t)]) for t in case["alive0"]]
        return "%srun_life %s %s (mk_limp %d %d s%d) %s %s" % (lets, clk, G.nat(case["nf"]), idents[str(imp["th"])], imp["th"], imp["snap"],
                                                             G.lst(al0), G.lst(levs))
    if k == "script_raw":
        evs = ["(Build_event %d %s %s %s %s %s)" % (e["tid"], FN[e["fn"]], G.bo(e["percpu"]), IV[e["iv"]],
                                                    G.by(bytes.fromhex(e["k1"])), G.by(bytes.fromhex(e["k2"]))) for e in case["events"]]
        imp_tid, imp_hex = _imp_of(case)
        imp = "(Some (%d, %s))" % (imp_tid, G.by(bytes.fromhex(imp_hex)))
        return "run_script_raw %s %s %s" % (clk, imp, G.lst(evs))
    if k in ("pblock", "subclass"):
        ovr = k == "subclass" and case["klass"] in SUB_OVERRIDES
        rd = lambda r: "(mk_rd %s %d %d %d %d %d)" % (_q(r[0]), r[1], r[2], r[3], r[4], r[5])  # noqa: E731
        sr = lambda r: "(mk_sr %d %d %d %d %d)" % tuple(r[1:6])  # noqa: E731
        evs = []
        cut = set()       # positions the faithful model of an overriding subclass never reaches
        for o in case["ops"]:
            ob = o["obj"]
            if o["op"] == "enter":
                evs.append("(%d, BEnter)" % ob)
            elif o["op"] == "exit":
                evs.append("(%d, BExit)" % ob)
            elif o["op"] == "times":
                evs.append("(%d, BTimes %s)" % (ob, sr(o["r"])))
            elif o["op"] == "percent":
                evs.append("(mk_bp %d %s %s %s %s)" % (ob, IV[o["iv"]], G.z(case["ncpu"]), rd(o["r1"]), rd(o["r2"])))
            else:       # as_dict / process_iter(attrs): a block around the getters (file constant during the call)
                full = ["(%d, BEnter)" % ob]
                if "cpu_times" in o["attrs"]:
                    full.append("(%d, BTimes %s)" % (ob, sr(o["r"])))
                if "cpu_percent" in o["attrs"]:
                    full.append("(mk_bp %d INone %s %s %s)" % (ob, G.z(case["ncpu"]), rd(o["r"]), rd(o["r"])))
                full.append("(%d, BExit)" % ob)
                evs.extend(full)
                # with an overriding subclass the block entry of as_dict() fails in the code as it is: nothing else is executed
                cut.update(range(len(evs) - len(full) + 1, len(evs)) if ovr else [])
        if k == "subclass":
            return "run_sub %s %s (map snd %s) (map snd %s)" % (clk, G.bo(ovr), G.lst([x for i, x in enumerate(evs) if i not in cut]), G.lst(evs))
        return "run_pb %s [0; 1; 9] %s" % (clk, G.lst(evs))
    if k == "proc":
        rd = lambda r: "(mk_rd %s %d %d %d %d %d)" % (_q(r[0]), r[1], r[2], r[3], r[4], r[5])  # noqa: E731
        evs = ["(mk_pev %d %s %s %s %s)" % (e["obj"], IV[e["iv"]], G.z(e["ncpu"]), rd(e["r1"]), rd(e["r2"])) for e in case["events"]]
        return "run_proc %s %s" % (clk, G.lst(evs))
    raise ValueError(k)


def coq_struct(case, raw):
    k = case["kind"]
    if k == "times":
        model = [raw[1], raw[2]]
        spec = None
        if raw[3] is not None:
            spec = [Val(raw[3][0]), Val(raw[3][1])]
        return {"printed": raw[0], "model": model, "spec": spec}
    if k == "times_raw":
        return {"model": [raw[0], raw[1]], "spec": None}
    if k == "big":
        return {"len": raw[0], "cksum": raw[1], "model": raw[2], "spec": Val(raw[3]) if raw[3] is not None else None}
    if k == "script":
        if raw[5] is True and raw[2] is not None and raw[1] != raw[2]:
            # hypotheses of C07_script_all_threads hold, so model = spec is a theorem (both are Qred-normal)
            raise RuntimeError("model and spec differ on a script satisfying script_ok: %r" % (case,))
        return {"printed": raw[0], "model": raw[1], "spec": raw[2], "totals": raw[3], "imp_printed": raw[4], "hyp_ok": raw[5]}
    if k == "nest":
        if raw[5] is True and raw[2] is not None and raw[1] != raw[2]:
            raise RuntimeError("model and spec differ on a script satisfying bscript_ok (C07_script_with_nested_calls): %r" % (case,))
        return {"printed": raw[0], "model": raw[1], "spec": raw[2], "totals": raw[3], "imp_printed": raw[4], "hyp_ok": raw[5]}
    if k == "life":
        if raw[5] is not True:
            raise RuntimeError("generated lifetime history breaks the OS rules (life_wf): %r" % (case,))
        if raw[7] is True and raw[2] is not None and raw[1] != raw[2]:
            raise RuntimeError("model and spec differ on a history satisfying the hypotheses of C07_script_with_thread_lifetimes: %r" % (case,))
        return {"printed": raw[0], "model": raw[1], "spec": raw[2], "totals": raw[3], "imp_printed": raw[4], "hyp_ok": raw[7],
                "legacy_inherit_class": raw[6] is False, "legacy_ident_keyed_answer": raw[8]}
    if k == "script_raw":
        return {"model": raw[0], "spec": None}
    if k == "subclass":
        return {"model": raw[0], "spec": raw[1]}
    if k == "pblock":
        if raw[0] != raw[1]:
            raise RuntimeError("model and spec differ on a block history (C07_block_values_exact): %r" % (case,))
        if raw[2] is True and raw[0] != raw[3]:
            raise RuntimeError("blocks are not transparent in the model although const_blocks holds (C07_oneshot_block_transparent): %r" % (case,))
        return {"model": raw[0], "spec": raw[1], "const_blocks": raw[2]}
    if k == "proc":
        return {"model": raw[0], "spec": raw[1]}
    raise ValueError(k)


def _has_oom(x):
    if isinstance(x, dict):
        return x.get("t") == "OutOfModel" or any(_has_oom(a) for a in x.get("a", []))
    if isinstance(x, list):
        return any(_has_oom(a) for a in x)
    return False


def _within(a, b, tol):
    """canonical result trees equal up to tol on every rational leaf [num, den]"""
    if isinstance(a, dict) and isinstance(b, dict):
        return a.get("t") == b.get("t") and _within(a.get("a", []), b.get("a", []), tol)
    if isinstance(a, list) and isinstance(b, list):
        if len(a) == 2 and len(b) == 2 and all(isinstance(x, int) and not isinstance(x, bool) for x in a + b) and a[1] > 0 and b[1] > 0:
            return abs(Fraction(a[0], a[1]) - Fraction(b[0], b[1])) <= tol
        return len(a) == len(b) and all(_within(x, y, tol) for x, y in zip(a, b))
    return a == b


def finding_key(case, coq):
    k = case["kind"]
    if k in ("script", "life", "nest") and coq.get("spec") is not None:
        for e, tots in zip(case["events"] if k == "script" else _flat_events(case) if k == "nest" else _life_calls(case), coq["totals"]):
            if e["fn"] == "tp" and any(0 < t < case["clk"] for t in tots):
                return KEY_SUBSEC
    return None


def judge(case, coq, impl):
    from pv.core import Verdict, default_judge
    if _has_oom(coq.get("model")):
        return Verdict("skip", "model: OutOfModel")
    if case["kind"] == "subclass" and case["klass"] in SUB_OVERRIDES and any(o["op"] in ("enter", "exit", "as_dict") for o in case["ops"]):
        # observation, not part of the property: a subclass overriding a memoised public method cannot enter oneshot()
        # (memoize_when_activated design); nothing is demanded of overriding subclasses inside blocks
        return Verdict("skip", "overriding subclass inside a block: nothing demanded")
    v = default_judge(None, case, coq, impl)
    if v.kind == "violation" and impl == coq.get("model") and _within(coq["model"], coq["spec"], Fraction(1, 20) + Fraction(1, 10 ** 9)):
        # the demanded and the modelled values differ by less than one rounding step of round(x, 1): the returned float is
        # compatible with both, nothing can be concluded from this input
        return Verdict("ok", "spec and model indistinguishable after rounding")
    if v.kind == "violation" and case["kind"] == "life" and impl == coq.get("legacy_ident_keyed_answer"):
        v.detail = ("thread lifetimes: the answers are those of samples keyed by thread IDENT (a thread handed a dead thread's ident "
                    "inherits its sample) -- finding thread-ident-reuse-inherits-sample, fixed by d2712e2, is back")
    if v.kind == "violation":
        k = finding_key(case, coq)
        if k == KEY_SUBSEC:
            v.detail = "cpu_times_percent over less than one elapsed CPU-second: shares do not add up to 100"
    return v


# ------------------------------------------------------------------ implementation side
def _frac(x):
    if isinstance(x, bool) or not isinstance(x, float):
        raise _BadShape("not a float: %r" % (x,))
    if x != x or x in (float("inf"), float("-inf")):
        raise _BadShape("non-finite float %r" % (x,))
    return Fraction(x)


def _nd(f):
    return [f.numerator, f.denominator]


def _close(f, nd, tol):
    c = Fraction(nd[0], nd[1])
    return abs(f - c) <= tol(c)


def _snap(tree, cand, tol):
    """tree of Fractions vs candidate tree of [num, den]: the candidate when every leaf is within tolerance, else None"""
    def ok(t, c):
        if isinstance(t, Fraction):
            return isinstance(c, list) and len(c) == 2 and all(isinstance(x, int) for x in c) and _close(t, c, tol)
        return isinstance(c, list) and len(c) == len(t) and all(ok(a, b) for a, b in zip(t, c))
    return cand if ok(tree, cand) else None


def _raw(tree):
    return _nd(tree) if isinstance(tree, Fraction) else [_raw(t) for t in tree]


def _snap_outcome(impl, cands, tol):
    """impl = Val(tagged tree of Fractions) or Exc; cands = [model outcome, spec outcome]"""
    if impl.get("t") != "Val":
        return impl
    tag, tree = impl["a"][0]
    for c in cands:
        if isinstance(c, dict) and c.get("t") == "Val":
            cv = c["a"][0]
            if tag is None:
                s = _snap(tree, cv, tol)
                if s is not None:
                    return Val(s)
            elif isinstance(cv, dict) and cv.get("t") == tag:
                s = _snap(tree, cv["a"][0], tol)
                if s is not None:
                    return Val(T(tag, s))
    return Val(_raw(tree) if tag is None else T(tag, _raw(tree)))


def _row(nt, nf):
    if type(nt).__name__ != "scputimes" or list(nt._fields) != FIELD_NAMES[:nf] or len(tuple(nt)) != nf:
        raise _BadShape("fields %r" % (getattr(nt, "_fields", None),))
    return [_frac(x) for x in nt]


class _BadShape(Exception):
    pass


def _shape_outcome(fn, conv):
    try:
        return outcome(fn, conv)
    except _BadShape as e:
        return T("BadShape", str(e))


IMPORTER_ELSEWHERE = 99     # thread id (of the model) of a parked helper thread that imports psutil but never calls it


class _ImportFailed(Exception):
    pass


class _Interrupt(RuntimeError):
    """raised by the code that runs during a sleep (signal handler ...) to leave the sleep"""


class _Fresh:
    """One freshly imported psutil per case.  The ONLY way state is reset is by re-executing psutil's import
    (importlib.reload of the platform module, if there is one, and of the package) while
      * /proc/stat is redirected to a fake file by pv.shim (builtins.open),
      * os.sysconf answers the case's SC_CLK_TCK (and, for Process cases, SC_NPROCESSORS_ONLN),
      * time.monotonic is the scripted clock (Process cases).
    Nothing private of psutil is read or written: a refactoring of its internals cannot crash the harness, it can only
    change the answers of the public functions, which is what is judged."""

    def __init__(self, env, clk, content, importer=None, clock=None, ncpu=None):
        import importlib
        import sys
        import time
        from pv import fakeproc
        from pv.shim import Shim
        self.root = os.path.join(env["work"], "proc")
        self.fp = fakeproc.FakeProc(self.root)
        _write_stat(self.root, content if content is not None else open(os.path.join(self.root, "stat"), "rb").read())
        self.shim = Shim({"/proc/stat": os.path.join(self.root, "stat")})
        self.real_sysconf, self.real_monotonic, self.time = os.sysconf, time.monotonic, time

        def sysconf(name):
            if name == "SC_CLK_TCK":
                return clk
            if name == "SC_NPROCESSORS_ONLN" and ncpu is not None:
                return ncpu["n"]
            return self.real_sysconf(name)
        os.sysconf = sysconf
        if clock is not None:
            time.monotonic = lambda: clock["t"]
        self.shim.install()
        try:
            import psutil

            def do_import():
                plat = sys.modules.get("psutil._pslinux")
                if plat is not None:
                    importlib.reload(plat)
                importlib.reload(psutil)
            try:
                if importer is None:
                    do_import()
                else:
                    importer.call(do_import)      # import executed by another (parked, never calling) thread
            except BaseException as e:  # noqa
                if isinstance(e, (KeyboardInterrupt, SystemExit)):
                    raise
                raise _ImportFailed("%s: %s" % (type(e).__name__, e))
            self.psutil = psutil
        except BaseException:
            self.close()
            raise

    def use_fake_tree(self):
        """per-process files come from the fake tree (documented public switch)"""
        self.psutil.PROCFS_PATH = self.root

    def close(self):
        self.shim.uninstall()
        os.sysconf = self.real_sysconf
        self.time.monotonic = self.real_monotonic


def _write_stat(root, content):
    with open(os.path.join(root, "stat"), "wb") as f:
        f.write(content)


class _Thread:
    def __init__(self):
        import queue
        import threading
        self.q, self.r = queue.Queue(), queue.Queue()
        self.t = threading.Thread(target=self._loop, daemon=True)
        self.t.start()

    def _loop(self):
        while True:
            fn = self.q.get()
            if fn is None:
                return
            try:
                self.r.put(("ok", fn()))
            except BaseException as e:  # noqa
                self.r.put(("err", e))

    def call(self, fn):
        self.q.put(fn)
        k, v = self.r.get(timeout=15)
        if k == "err":
            raise v
        return v

    def stop(self):
        self.q.put(None)
        self.t.join(5)


def _times_results(psutil):
    def conv_t(nt):
        return (None, _row(nt, len(nt._fields)))

    def conv_p(l):
        if not isinstance(l, list):
            raise _BadShape("percpu result is %r" % type(l))
        return (None, [_row(nt, len(nt._fields)) for nt in l])

    return [_shape_outcome(psutil.cpu_times, conv_t), _shape_outcome(lambda: psutil.cpu_times(percpu=True), conv_p)]


def _run_big(case, coq, env):
    content = _big_content(case)
    if len(content) != coq["len"] or _big_cksum(content) != coq["cksum"]:
        raise RuntimeError("big: the harness's file differs from the bytes printed by the spec's kernel printer")
    clk, nf, n = case["clk"], case["nf"], case["n"]
    rel = lambda c: Fraction(1, 2 ** 48) * max(1, abs(c))  # noqa: E731
    expect = _big_cpus(n, case["base"], case["step"])
    cands = [c["a"][0] for c in (coq.get("model"), coq.get("spec")) if isinstance(c, dict) and c.get("t") == "Val"]
    fr = _Fresh(env, clk, content)
    try:
        psutil = fr.psutil

        def call():
            return (psutil.cpu_times(percpu=True), psutil.cpu_percent(percpu=True), psutil.cpu_times_percent(percpu=True))

        def conv(res):
            l, p, tp = res
            if not isinstance(l, list) or not isinstance(p, list) or not isinstance(tp, list):
                raise _BadShape("percpu results are %r %r %r" % (type(l), type(p), type(tp)))
            rows = [_row(nt, len(nt._fields)) for nt in l]
            # every row against the generated record (the same formula as big_stat in coq/C07/Run.v)
            allok = len(rows) == n and all(len(r) == min(nf, 10) and all(abs(x - Fraction(v, clk)) <= rel(Fraction(v, clk)) for x, v in zip(r, vs))
                                           for r, (_, vs) in zip(rows, expect))
            sample = [rows[i] if i < len(rows) else [] for i in case["idx"]]
            snapped = None
            for c in cands:
                snapped = _snap(sample, c[1], rel)
                if snapped is not None:
                    break
            tprows = [_row(nt, len(nt._fields)) for nt in tp]
            return [len(rows), snapped if snapped is not None else _raw(sample), bool(allok),
                    len(p), all(_frac(x) == 0 for x in p), len(tprows), all(x == 0 for r in tprows for x in r)]
        return _shape_outcome(call, conv)
    finally:
        fr.close()


def impl_run(case, coq, env):
    import time
    k = case["kind"]
    try:
        if k in ("times", "times_raw"):
            content = unB(coq["printed"]) if k == "times" else bytes.fromhex(case["content"])
            fr = _Fresh(env, case["clk"], content)
            try:
                res = _times_results(fr.psutil)
            finally:
                fr.close()
            rel = lambda c: Fraction(1, 2 ** 48) * max(1, abs(c))  # noqa: E731
            out = []
            for i in (0, 1):
                cands = [coq["model"][i]] + ([coq["spec"][i]] if coq.get("spec") else [])
                r = res[i]
                # (field names are checked in _row; the number of fields by the comparison with the model/spec row)
                out.append(_snap_outcome(r, cands, rel) if isinstance(r, dict) and r.get("t") == "Val" else r)
            return out
        if k == "big":
            return _run_big(case, coq, env)
        if k in ("script", "script_raw", "life", "nest"):
            return _run_script(case, coq, env, time)
        if k == "proc":
            return _run_proc(case, coq, env, time)
        if k in ("pblock", "subclass"):
            return _run_pblock(case, coq, env, time)
        raise ValueError(k)
    except _ImportFailed as e:
        # the implementation cannot even be imported over this /proc/stat: an answer, judged like any other
        return T("ImportFailed", str(e)[:300])


def _tolerance(case):
    if case["kind"] in ("script", "life", "nest"):
        m = max(max(s["total"] + sum(s["cpus"], [0])) for s in case["snaps"])   # snaps[0] = import-time state included
        noise = Fraction(200 * m, 2 ** 46 * case["gran"])
    else:
        noise = Fraction(1, 10 ** 6)
    t = Fraction(1, 20) + Fraction(1, 10 ** 9) + noise
    return lambda c: t


def _imp_of(case):
    """(model thread id of the importer, what the import reads): an explicit 'imp' = imported by the script's main thread 0;
    otherwise psutil is imported by a parked foreign thread over the first call's kernel state, i.e. no script thread has a sample."""
    k = case["kind"]
    if case.get("imp") is not None:
        return 0, case["imp"]
    return IMPORTER_ELSEWHERE, case["events"][0]["k1"]


def _flat_events(case):
    """the calls of a nest script in the order they return: nested ones, then the blocking one"""
    out = []
    for e in case["events"]:
        if e["iv"] == "pos" and e["fn"] != "t":
            out.extend(e.get("nested", []))
        out.append(e)
    return out


def _life_calls(case):
    return [o for o in case["ops"] if o["op"] == "call"]


def _run_script(case, coq, env, time):
    """script / script_raw: a list of calls (threads created on first use, all alive to the end).
    life: explicit thread lifetimes -- 'start' (new real thread), 'exit' (the thread returns and is joined while we keep its
    threading.Thread object), 'collect' (the last reference to that object is dropped and gc.collect() is run), 'call'."""
    import gc
    import threading
    k = case["kind"]
    tol = _tolerance(case)
    rel = lambda c: Fraction(1, 2 ** 48) * max(1, abs(c))  # noqa: E731
    threads = {}          # logical thread -> _Thread (holds the threading.Thread object)
    observed = {0: threading.get_ident()}
    real_sleep = time.sleep
    if k == "life":
        imp_tid = case["imp"]["th"]
        ops = case["ops"]
    else:
        imp_tid, imp_what = _imp_of(case)
        ops = [dict(e, op="call", th=e["tid"]) for e in case["events"]]
    content = bytes.fromhex(imp_what) if k == "script_raw" else unB(coq["imp_printed"])
    if imp_tid != 0:
        threads[imp_tid] = _Thread()       # parked importer: stays alive to the end, its ident cannot be recycled
        observed[imp_tid] = threads[imp_tid].call(threading.get_ident)
    try:
        fr = _Fresh(env, case["clk"], content, importer=threads.get(imp_tid))
    except BaseException:
        for t in threads.values():
            t.stop()
        raise
    psutil, root = fr.psutil, fr.root

    frames = []           # one frame per call in progress (a nested call runs inside the sleep of the frame below it)
    out = []

    def contents(e, i):
        if k == "script_raw":
            return bytes.fromhex(e["k1"]), bytes.fromhex(e["k2"])
        return unB(coq["printed"][i][0]), (unB(coq["printed"][i][1]) if e["iv"] == "pos" else None)

    def in_sleep(fr_):
        """what happens while the call of frame fr_ sleeps: the same thread calls again, then the kernel moves on"""
        for n, ni in fr_["nested"]:
            out.append(do_call(n, ni, [], False))
        if fr_["k2"] is not None:
            _write_stat(root, fr_["k2"])
        if fr_["raise"]:
            raise _Interrupt("the sleep is interrupted")

    def fake_sleep(x):
        fr_ = frames[-1]
        fr_["slept"] += 1
        if fr_["slept"] > 1:
            return
        if fr_["trigger"] == "sigalrm":
            # a real signal handler running in the middle of a real sleep of the main thread
            import signal
            left = signal.alarm(0)
            state = {"done": False}

            def handler(signum, frame):
                if not state["done"]:
                    state["done"] = True
                    in_sleep(fr_)
            old = signal.signal(signal.SIGALRM, handler)
            try:
                signal.setitimer(signal.ITIMER_REAL, 0.002)
                real_sleep(0.05)
                if not state["done"]:
                    state["done"] = True
                    in_sleep(fr_)
            finally:
                signal.setitimer(signal.ITIMER_REAL, 0)
                signal.signal(signal.SIGALRM, old)
                if left:
                    signal.alarm(left)
        else:
            in_sleep(fr_)
    time.sleep = fake_sleep

    def conv_for(fn, percpu):
        def conv(r):
            if fn == "t":
                if percpu:
                    if not isinstance(r, list):
                        raise _BadShape("cpu_times(percpu=True) -> %r" % type(r))
                    return ("TimesP", [_row(nt, len(nt._fields)) for nt in r])
                return ("Times", _row(r, len(r._fields)))
            if fn == "p":
                if percpu:
                    if not isinstance(r, list):
                        raise _BadShape("cpu_percent(percpu=True) -> %r" % type(r))
                    return ("Nums", [_frac(x) for x in r])
                return ("Num", _frac(r))
            if percpu:
                if not isinstance(r, list):
                    raise _BadShape("cpu_times_percent(percpu=True) -> %r" % type(r))
                return ("Rows", [_row(nt, len(nt._fields)) for nt in r])
            return ("Row", _row(r, len(r._fields)))
        return conv

    def do_call(e, i, nested, raise_, trigger="sleep"):
        """one call of the public API in the CURRENT thread; nested = [(event, flat index)] to be made during its sleep"""
        k1, k2 = contents(e, i)
        _write_stat(root, k1)
        fr_ = {"k2": k2 if e["iv"] == "pos" else None, "slept": 0, "nested": nested, "raise": raise_, "trigger": trigger}
        iv = {"none": None, "zero": e.get("zero", 0), "pos": 0.25, "neg": -1}[e["iv"]]
        f = {"p": psutil.cpu_percent, "tp": psutil.cpu_times_percent, "t": psutil.cpu_times}[e["fn"]]
        percpu = e["percpu"]
        frames.append(fr_)
        try:
            if e["fn"] == "t":
                r = _shape_outcome(lambda: f(percpu=percpu), conv_for(e["fn"], percpu))
            else:
                r = _shape_outcome(lambda: f(interval=iv, percpu=percpu), conv_for(e["fn"], percpu))
        finally:
            frames.pop()
        is_val = isinstance(r, dict) and r.get("t") == "Val"
        want_sleep = 1 if (e["iv"] == "pos" and e["fn"] != "t") else 0
        if (fr_["slept"] != want_sleep) if is_val else (fr_["slept"] > want_sleep):
            return T("SleepCalls", fr_["slept"])     # time.sleep(interval) exactly once in the blocking form, never otherwise
        if is_val:
            cands = [coq["model"][i]] + ([coq["spec"][i]] if coq.get("spec") else [])
            r = _snap_outcome(r, cands, rel if e["fn"] == "t" else tol)
        return r

    idx = 0
    try:
        for e in ops:
            if e["op"] == "start":
                threads[e["th"]] = _Thread()
                observed[e["th"]] = threads[e["th"]].call(threading.get_ident)
                continue
            if e["op"] == "exit":
                threads[e["th"]].stop()           # the thread function returns; joined; the Thread object is still referenced
                real_sleep(0.003)                 # let the OS thread finish dying so that its ident is free
                continue
            if e["op"] == "collect":
                del threads[e["th"]]              # last reference to the (finished) thread's Thread object
                gc.collect()
                continue
            blocking = e["iv"] == "pos" and e["fn"] != "t"
            nested = [(n, idx + j) for j, n in enumerate(e.get("nested", []))] if blocking else []
            oi = idx + len(nested)
            idx = oi + 1
            job = (lambda e=e, oi=oi, nested=nested: do_call(e, oi, nested, bool(e.get("raise")) and blocking, e.get("trigger", "sleep")))
            if e["th"] == 0:
                r = job()
            else:
                if e["th"] not in threads:
                    threads[e["th"]] = _Thread()
                    observed[e["th"]] = threads[e["th"]].call(threading.get_ident)
                r = threads[e["th"]].call(job)
            out.append(r)
    finally:
        time.sleep = real_sleep
        fr.close()
        for t in threads.values():
            t.stop()
    return out


def _set_proc_stat(fp, pid, r):
    """/proc/<pid>/stat with utime (14), stime (15), cutime (16), cstime (17), delayacct_blkio_ticks (42)"""
    fp.add(pid, utime=r[1], stime=r[2], cutime=r[3], cstime=r[4], blkio=r[5], nfields=52)


def _run_proc(case, coq, env, time):
    pid = 4242
    objs = {}
    now = {"t": 0.0}
    pending = {"then": None, "slept": 0}
    real_sleep = time.sleep
    ncpu = {"n": 1}
    # scripted clock = time.monotonic, scripted CPU count = os.sysconf("SC_NPROCESSORS_ONLN"), for the whole case
    fr = _Fresh(env, case["clk"], None, clock=now, ncpu=ncpu)
    psutil, fp = fr.psutil, fr.fp
    fr.use_fake_tree()
    _set_proc_stat(fp, pid, case["events"][0]["r1"])

    def fake_sleep(x):
        pending["slept"] += 1
        if pending["then"]:
            r2 = pending["then"]
            now["t"] = float(Fraction(*r2[0]))
            _set_proc_stat(fp, pid, r2)
    time.sleep = fake_sleep
    out = []
    try:
        for idx, e in enumerate(case["events"]):
            if e["obj"] not in objs:
                objs[e["obj"]] = psutil.Process(pid)
            p = objs[e["obj"]]
            t1 = Fraction(*e["r1"][0])
            t2 = Fraction(*e["r2"][0])
            assert Fraction(float(t1)) == t1 and Fraction(float(t2)) == t2
            now["t"] = float(t1)
            ncpu["n"] = e["ncpu"]
            _set_proc_stat(fp, pid, e["r1"])
            if idx == 0:
                # the fake file really carries the five counters where psutil reads them
                ct = p.cpu_times()
                want = [Fraction(v, case["clk"]) for v in e["r1"][1:]]
                got = [Fraction(x) for x in (ct.user, ct.system, ct.children_user, ct.children_system, ct.iowait)]
                if not all(abs(a - b) <= Fraction(1, 10 ** 6) * max(1, b) for a, b in zip(got, want)):
                    # Process.cpu_times() does not report the five counters of the stat record in their places:
                    # an answer of the implementation (judged against the spec), not a harness failure
                    out.append(T("ProcTimesMismatch", [str(x) for x in got], [str(x) for x in want]))
                    continue
            pending["then"], pending["slept"] = (e["r2"] if e["iv"] == "pos" else None), 0
            iv = {"none": None, "zero": e.get("zero", 0), "pos": 0.5, "neg": -0.5}[e["iv"]]
            r = _shape_outcome(lambda: p.cpu_percent(interval=iv), lambda x: (None, _frac(x)))
            is_val = r.get("t") == "Val"
            if (pending["slept"] != (1 if e["iv"] == "pos" else 0)) if is_val else (pending["slept"] > (1 if e["iv"] == "pos" else 0)):
                r = T("SleepCalls", pending["slept"])
            elif is_val:
                tol = lambda c: Fraction(1, 20) + Fraction(1, 10 ** 9) * max(1, abs(c))  # noqa: E731
                r = _snap_outcome(r, [coq["model"][idx], coq["spec"][idx]], tol)
            out.append(r)
    finally:
        time.sleep = real_sleep
        fr.close()
    return out


def _run_pblock(case, coq, env, time):
    """Process-level history with real oneshot() contexts (entered/left by hand so that calls of several objects interleave),
    as_dict(attrs) and process_iter(attrs=...)."""
    pid = 4242
    objs, stacks = {}, {}
    now = {"t": 0.0}
    pending = {"then": None, "slept": 0}
    real_sleep = time.sleep
    ncpu = {"n": case["ncpu"]}
    fr = _Fresh(env, case["clk"], None, clock=now, ncpu=ncpu)
    psutil, fp = fr.psutil, fr.fp
    fr.use_fake_tree()
    first = next(o for o in case["ops"] if o["op"] not in ("enter", "exit"))
    _set_proc_stat(fp, pid, first.get("r") or first["r1"])
    tol_p = lambda c: Fraction(1, 20) + Fraction(1, 10 ** 9) * max(1, abs(c))  # noqa: E731
    rel = lambda c: Fraction(1, 2 ** 48) * max(1, abs(c))  # noqa: E731

    def fake_sleep(x):
        pending["slept"] += 1
        if pending["then"]:
            r2 = pending["then"]
            now["t"] = float(Fraction(*r2[0]))
            _set_proc_stat(fp, pid, r2)
    time.sleep = fake_sleep
    out = []

    def conv_times(ct):
        if type(ct).__name__ != "pcputimes" or tuple(ct._fields) != ("user", "system", "children_user", "children_system", "iowait"):
            raise _BadShape("cpu_times() -> %r" % (ct,))
        return ("PTimes", [_frac(x) for x in ct])

    def push(r, kind):
        idx = len(out)
        if isinstance(r, dict) and r.get("t") == "Val":
            cands = [lst[idx] for lst in (coq["model"], coq["spec"]) if lst is not None and idx < len(lst)]
            r = _snap_outcome(r, cands, rel if kind == "times" else tol_p)
        out.append(r)

    klass = case.get("klass", "Process")

    class TreeProcess(psutil.Process):
        """cpu_times() includes the waited-for children"""
        def __init__(self, pid=None, label="tree", *extra):
            super().__init__(pid)
            self.label = label

        def cpu_times(self):
            b = super().cpu_times()
            self.pv_base = b
            return b._replace(user=b.user + b.children_user, system=b.system + b.children_system)

    class JsonProcess(psutil.Process):
        """cpu_times() returns a dict"""
        def cpu_times(self):
            b = super().cpu_times()
            self.pv_base = b
            return dict(b._asdict())

    class PlainProcess(psutil.Process):
        """overrides other public methods and the constructor signature, not cpu_times()"""
        def __init__(self, pid, tag, *, flavour="x"):
            super().__init__(pid)
            self.tag = tag

        def name(self):
            return "overridden"

        def create_time(self):
            return 0.0

        def is_running(self):
            return True

    def make():
        if klass == "Tree":
            return TreeProcess(pid, "t", 1, 2)
        if klass == "Json":
            return JsonProcess(pid)
        if klass == "Plain":
            return PlainProcess(pid, "tag", flavour="y")
        return psutil.Process(pid)

    def public_times(p):
        r = p.cpu_times()
        if klass == "Tree":
            b = p.pv_base
            if type(r).__name__ != "pcputimes" or r.user != b.user + b.children_user or r.system != b.system + b.children_system:
                raise _BadShape("TreeProcess.cpu_times() -> %r from %r" % (r, b))
            return b
        if klass == "Json":
            b = p.pv_base
            if r != dict(b._asdict()):
                raise _BadShape("JsonProcess.cpu_times() -> %r from %r" % (r, b))
            return b
        return r

    def getp(o):
        if o not in objs:
            objs[o] = make()
            stacks[o] = []
        return objs[o]
    try:
        for e in case["ops"]:
            op = e["op"]
            if op == "enter":
                cm = getp(e["obj"]).oneshot()
                r = outcome(cm.__enter__, lambda x: None)
                if r.get("t") == "Val":
                    stacks[e["obj"]].append(cm)
                else:
                    out.append(r)             # entering the block failed: an answer of the implementation
                continue
            if op == "exit":
                getp(e["obj"])
                if stacks[e["obj"]]:
                    stacks[e["obj"]].pop().__exit__(None, None, None)
                continue
            r1 = e.get("r") or e["r1"]
            t1 = Fraction(*r1[0])
            assert Fraction(float(t1)) == t1
            now["t"] = float(t1)
            _set_proc_stat(fp, pid, r1)
            pending["then"], pending["slept"] = None, 0
            if op == "times":
                push(_shape_outcome(lambda: public_times(getp(e["obj"])), conv_times), "times")
            elif op == "percent":
                p = getp(e["obj"])
                pending["then"] = e["r2"] if e["iv"] == "pos" else None
                iv = {"none": None, "zero": e.get("zero", 0), "pos": 0.5, "neg": -0.5}[e["iv"]]
                r = _shape_outcome(lambda: p.cpu_percent(interval=iv), lambda x: ("Pct", _frac(x)))
                is_val = r.get("t") == "Val"
                want = 1 if e["iv"] == "pos" else 0
                if (pending["slept"] != want) if is_val else (pending["slept"] > want):
                    r = T("SleepCalls", pending["slept"])
                push(r, "pct")
            else:
                if op == "as_dict":
                    d = _shape_outcome(lambda: getp(e["obj"]).as_dict(attrs=list(e["attrs"])), lambda x: x)
                else:
                    def it():
                        ps = [q for q in psutil.process_iter(attrs=list(e["attrs"])) if q.pid == pid]
                        if len(ps) != 1:
                            raise _BadShape("process_iter() yielded %d objects for the pid" % len(ps))
                        return ps[0].info
                    d = _shape_outcome(it, lambda x: x)
                if d.get("t") != "Val":
                    out.append(d)             # the whole call failed: one answer
                    continue
                if not isinstance(d["a"][0], dict) or set(d["a"][0]) != set(e["attrs"]):
                    bad = T("BadShape", "keys %r" % (sorted(d["a"][0]) if isinstance(d["a"][0], dict) else d["a"][0],))
                    for _ in e["attrs"]:
                        out.append(bad)
                    continue
                info = d["a"][0]
                if "cpu_times" in e["attrs"]:
                    # (for an overriding subclass the dict carries what ITS cpu_times() returned; compare the library's figures)
                    push(_shape_outcome(lambda: getp(e["obj"]).pv_base if klass in SUB_OVERRIDES else info["cpu_times"], conv_times), "times")
                if "cpu_percent" in e["attrs"]:
                    push(_shape_outcome(lambda: info["cpu_percent"], lambda x: ("Pct", _frac(x))), "pct")
    finally:
        time.sleep = real_sleep
        for st in stacks.values():
            while st:
                try:
                    st.pop().__exit__(None, None, None)
                except Exception:  # noqa: BLE001
                    pass
        fr.close()
    return out


def gen_tables(impl_dir, out_dir):
    """coq/Gen/C07_Tables.v: what Process.cpu_percent / cpu_times / oneshot / ... reach through `self` (ast of the source under test)"""
    from props import _c07_tables
    return _c07_tables.gen_tables(impl_dir, out_dir)


MANIFEST = {
    "text": "Theorems (Coq, 47, all closed under the global context): (parse) for every /proc/stat the kernel can print (any number of CPUs, >= 7 "
            "decimal counters per line) the model of cpu_times()/cpu_times(percpu=True) returns every named counter / CLOCK_TICKS per CPU in kernel "
            "order; (arithmetic) cpu_percent between two samples = 100*busy/total over clipped deltas (busy = user+nice+system+irq+softirq+steal, "
            "guest not double counted, idle/iowait not busy), in [0,100], a counter that went backwards contributes zero; cpu_times_percent values "
            "are in [0,100] always and the non-guest shares add up to exactly 100 once one CPU-second elapsed (refuted with a witness below one "
            "second: known finding); (re-entrancy) the answer of a blocking call is independent of any calls the "
            "same thread makes during its sleep (C07_blocking_answer_independent_of_nested_calls), a sleep left by an exception stores nothing, and the script "
            "theorem holds with nested calls (C07_script_with_nested_calls); (lifetimes) thread exits, ident hand-overs and threading.Thread "
            "object collections leave the baseline of a running thread untouched (C07_own_baseline_kept) and the script theorem holds thread by thread over "
            "lifetime histories (C07_script_with_thread_lifetimes), at full strength since /repo d2712e2 (thread-local storage); the ident-keyed dicts "
            "of the code before are kept as a legacy variant with its invariant C07_own_baseline_kept and the refutation C07_ident_reuse_refuted; (script theorem C07_script_all_threads) starting from the state the import leaves (the importing thread primed "
            "with the import-time sample in all four series), for every sequence of cpu_times / cpu_percent / cpu_times_percent calls by any number "
            "of threads (percpu or not, interval None / 0 / > 0 with the kernel moving during the sleep / < 0 -> ValueError) the results are those "
            "of a history-based specification: each thread against its own previous sample of the same series, the importing thread's first call "
            "against the import-time sample, a thread without a sample against 'now' (0.0) -- under decidable hypotheses (constant field count "
            "and CPU set; for cpu_times_percent no pair with 0 < elapsed < 1 s = the known finding); frame theorems (other threads' calls change "
            "nothing for a thread); Process.cpu_percent = 100*delta(user+system)/CLK/delta(wall) since the object's previous call for every "
            "sequence of calls on any objects with any cpu_count() answers and arbitrary children_user/children_system/iowait (which do not count), "
            "0 on the first call, ValueError for negative intervals; inside oneshot()/as_dict()/process_iter(attrs) blocks "
            "(nested too) the cached /proc/<pid>/stat record is never modified by a reader (C07_stat_cache_never_modified_by_reader), every "
            "cpu_times()/cpu_percent() value is the demanded one -- counters of the block's first read divided by CLOCK_TICKS once -- and the stored sample "
            "is the true one (C07_block_values_exact), and blocks are transparent when the file stands still while they are open "
            "(C07_oneshot_block_transparent); object protocols: a table generated from the ast of the source under test shows that everything "
            "Process.cpu_percent reaches through self is private or the platform layer (C07_cpu_percent_samples_are_private, re-checked every run), the "
            "cpu_percent() answers do not depend on what a user subclass's public cpu_times() returns, a subclass not overriding cpu_times() is Process, and "
            "(observation only, not part of the property: a subclass overriding a memoised public method cannot enter oneshot()). (translation, round 2) the arithmetic of _cpu_tot_time, _cpu_busy_time, the loop body of _cpu_times_deltas, cpu_percent.calculate, "
            "cpu_times_percent.calculate and the tail of Process.cpu_percent (num_cpus, delta_proc, delta_time, ZeroDivisionError handler) is translated on every run "
            "from the ast of the source under test by the fail-closed props/_c07_gen.py into programs of coq/C07/PyGen.v (coq/Gen/C07_Tables.v); "
            "C07_gen_tot_time, C07_gen_busy_time, C07_gen_delta_body, C07_gen_deltas_fieldwise, C07_gen_calc_percent, C07_gen_calc_times_percent, "
            "C07_gen_proc_percent prove the interpreter on the generated programs equal to the model's tot_time, busy_time, deltas, calc_percent, "
            "calc_times_percent, proc_finish for all inputs. The rest of the model is tied to the code by running the real psutil over fake /proc/stat "
            "files (including a real re-import of psutil over a redirected /proc/stat), a scripted clock and real threads on generated cases.",
    "note": "Trusted: Coq kernel + vm_compute; hand-written model coq/C07/Model.v (its arithmetic functions tot_time, busy_time, deltas (per field), calc_percent, calc_times_percent, proc_finish are tied to the source by translation + proof; the parsing, the per-thread sample maps, blocking/non-blocking control flow, first-call handling and oneshot blocks by the correspondence run only); translator props/_c07_gen.py and interpreter coq/C07/PyGen.v (round(x,1) = identity, sum() = exact sum, `if LINUX:` taken, field-name tables scputimes_names/pcputimes_names hand-written, _cpu_times_deltas loop skeleton checked structurally, its call a primitive of the language); /proc/stat format in "
            "coq/C07/Spec.v; harness (fake files, importlib.reload under the path shim, public hooks only: os.sysconf, time.monotonic, "
            "time.sleep, PROCFS_PATH; snapping tolerance); CPython floats and round() (compared within one rounding step). cpu_stats() is left to C19.",
}
