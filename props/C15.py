"""C15 -- wait() and wait_procs(): right exit status, never early, timeouts honoured.

The real psutil (scratch build) runs over a virtual kernel with a virtual clock:
os.waitpid, psutil._psposix.pid_exists, the clock and sleep() are replaced, /proc is a
fake tree that follows the virtual process table.  Every case runs twice: with an exact
clock (fractions.Fraction; outcome, sleep() arguments, return instant and waitpid-call
count must equal the Coq model's) and with a float clock (the types the real clock has;
only the property oracle with a 1e-9 tolerance is checked there)."""
import os
from fractions import Fraction as F

from pv import gallina as G
from pv.canon import T
from props import _c15_vk as VK
from props import _c15_live as LIVE
from props import _c15_gen as GEN
from props._c15_gen import TranslateError  # noqa: F401  (pv/core.py recognises the class by name)

ID = "C15"
COQ_REQUIRE = "C15.Run"
SHARD = 120
CASE_TIMEOUT = 600
RULE = ("26 LIVE cases first (real forked children / real sh children of psutil.Popen under the running kernel: exit 0/1/255, SIGTERM, SIGKILL, "
        "SIGSEGV with core flag, SIGUSR1, stopped+continued, zombie, reaped behind psutil's back, a non-child reaped by its own parent, a PID "
        "that never existed, wait_procs with a survivor): kernel answers vs Spec.v, real-time outcomes vs model and oracle. Then virtual cases: one virtual process (child / non-child / gone-before-the-call) or 1-6 of them; the exit instant is placed before the "
        "call, exactly on / 10 us before / 10 us after a polling instant (instants 0, 1, 3, 7, ..., 511, 911, 1311... x 0.1 ms) "
        "and on / around the deadline, or never; timeouts None, 0, negative, on/around polling instants, 5 ms - 2 s; exit codes "
        "{0,1,2,127,255}, signals {1,6+core,9,15,34,64}; EINTR at waitpid calls {0}, {1}, {0,1}, {k}, {2,3}, 3 random calls, a blocking "
        "call being interrupted 0 / 10 us / 1 ms / 0.1 s / 3 s after it was entered or on / 10 us around the exit instant; sequences of "
        "wait() calls on one object (cache) with other public calls (is_running, kill, terminate, send_signal, suspend, resume, children, name, "
        "status, ppid, parent, cpu_times, as_dict) interposed, direct wait_pid() calls; wait_procs over 1-6 processes, some already waited for "
        "and touched through those calls; psutil.Popen objects (wrapping a faked subprocess.Popen over the same virtual kernel): histories "
        "{poll, communicate, leaving `with`, wait(None/0/0.01)} collecting first x status {0,1,255,-9,-15} x child ended / ending in 3 ms x "
        "PID recycled or not, then repeated waits; Popen objects inside wait_procs, with a chosen set-iteration "
        "priority (all permutations for <=3 in quick, <=4 in thorough), callback function / lambda / bound method / "
        "functools.partial / FALSY callables (empty list subclass with __call__, __len__()==0, __bool__ False) / None / not callable (int, str); "
        "procs given as list / tuple / generator / set, with ALIASES (the same object twice, equal pair, triple, all doubled, Popen + Process "
        "of one pid) on gone and alive processes; timeout as int / float / bool / Fraction. Non-trivial = at "
        "least one poll or a returned status; distinct = distinct canonical case hash.")
TRUSTED = ["translator props/_c15_gen.py (Python ast of _psposix.wait_pid -> coq/C15/PyGen.v program, fail-closed) and the interpreter coq/C15/PyGen.v (semantics of the 14 statement forms, the fixed while/try skeleton)",
           "correspondence harness props/C15.py + props/_c15_vk.py (virtual kernel, virtual clock, fake /proc, set-order control by PID choice)",
           "the Python transcription of the property oracle (_spec_wait/_spec_procs in props/_c15_vk.py), used on the implementation's observations",
           "waitpid(2) status word layout and kill(pid,0) semantics transcribed in coq/C15/Spec.v -- compared on every run with the running "
           "kernel by the live cases (props/_c15_live.py); EINTR answers cannot be produced by the real os.waitpid (PEP 475) and stay trusted"]
ASSUMPTIONS = ["virtual time: a call costs nothing, only sleep() and a blocking waitpid() advance the clock; wall-clock and scheduler latency are not modelled",
               "a blocking waitpid returns at whichever comes first, the exit or the scheduled signal (tie: EINTR); a non-blocking call is interrupted at once",
               "no PID reuse during a wait; is_running() is answered from the same virtual process table",
               "IEEE double arithmetic of the clock is not modelled: exact run uses Fraction clock values, float run checks the oracle with 1e-9 tolerance",
               "CPython small-set iteration order (ascending hash & mask without collisions) is used to steer wait_procs' iteration order; verified per case, else the case is skipped"]
EXHAUSTIVE = {"quick": "status decoding: all 256 exit codes and signals 1-64 with/without core flag; wait_procs: all iteration priorities for every generated scenario with <= 3 processes",
              "thorough": "status decoding: all 256 exit codes and signals 1-64 with/without core flag; wait_procs: all iteration priorities for every generated scenario with <= 4 processes"}



def gen_tables(impl_dir, out_dir):
    """Translate psutil/_psposix.py: wait_pid (+ the shape of negsig_to_enum / Negsignal) of the tree under check into
    coq/Gen/C15_Tables.v (gen_wait_pid : PyGen.wprog).  coq/C15/ProofsGen.v proves the interpreter on that program equal
    to Model.wait_pid for all inputs, so a semantic edit of wait_pid breaks a proof; an edit the translator does not
    understand raises TranslateError (fail-closed)."""
    GEN.gen_tables(impl_dir, out_dir)


FUEL = 160
ROUNDS = 60
EPS = F(1, 100000)
CUM = [0, 1, 3, 7, 15, 31, 63, 127, 255, 511, 911, 1311, 1711, 2111, 2511]   # polling instants, units of 0.1 ms
CODES = [["code", c] for c in (0, 1, 2, 127, 255)]
SIGS = [["sig", 1, False], ["sig", 9, False], ["sig", 15, False], ["sig", 6, True], ["sig", 34, False], ["sig", 64, False], ["sig", 11, True]]


def q(x):
    x = F(x)
    return [x.numerator, x.denominator]


def unq(v):
    return None if v is None else F(v[0], v[1])


def _instants(rng):
    k = rng.randrange(len(CUM))
    base = F(CUM[k], 10000)
    return base


def _tm_choices(rng):
    r = rng.random()
    if r < 0.12:
        return None
    if r < 0.24:
        return F(0)
    if r < 0.29:
        return rng.choice([F(-1), F(-1, 1000), F(-5, 2)])
    if r < 0.65:
        return max(F(0), _instants(rng) + rng.choice([0, 0, EPS, -EPS, F(1, 20000)]))
    return rng.choice([F(1, 200), F(1, 100), F(1, 20), F(1, 10), F(3, 10), F(1, 2), F(1), F(2), F(1, 3), F(7, 1000)])


def _exit_choices(rng, tm, allow_none=True):
    r = rng.random()
    if r < 0.12 and allow_none:
        return None
    if r < 0.24:
        return rng.choice([F(-1), F(-1, 100000), F(0)])
    if r < 0.6:
        return _instants(rng) + rng.choice([0, 0, EPS, -EPS, F(1, 20000)])
    if tm is not None and tm >= 0 and r < 0.85:
        return tm + rng.choice([0, 0, EPS, -EPS, F(1, 25), F(1, 25) - EPS, F(1, 25) + EPS, F(1, 50)])
    return rng.choice([F(1, 200), F(1, 10), F(1, 3), F(1, 2), F(1), F(3, 2), F(2)])


def _proc(rng, tm, need_end=False, pid=4242, eintr_ok=True):
    kind = rng.choice(["child"] * 5 + ["nonchild"] * 3 + ["never"])
    ex = _exit_choices(rng, tm, allow_none=not need_end)
    if kind == "never":
        ex = None
    st = rng.choice(CODES + SIGS)
    e = []
    if eintr_ok and rng.random() < 0.3:
        e = rng.choice([[0], [1], [0, 1], [rng.randrange(0, 14)], [2, 3], sorted(rng.sample(range(0, 16), 3))])
        if rng.random() < (0.7 if tm is None else 0.35):
            # a blocking waitpid is interrupted some time after it was entered: before / at / after the exit
            dl = [F(0), EPS, F(1, 1000), F(1, 10), F(3)]
            if ex is not None:
                dl += [max(F(0), ex), max(F(0), ex - EPS), max(F(0), ex + EPS)]
            e = [[i, q(rng.choice(dl))] for i in e]
    return {"pid": pid, "kind": kind, "exit": None if ex is None else q(ex), "status": st, "eintr": e}


def _wait_cls(p, ops):
    c = "wait-" + p["kind"]
    if p["eintr"]:
        c += "-eintr"
    tms = [o[1] for o in ops if o[0] in ("wait", "raw")]
    if any(t is None for t in tms):
        c += "-block"
    if len(ops) > 1:
        c += "-seq"
    return c


def gen_cases(rng, tier):
    n_wait = {"quick": 400, "thorough": 8000, "search": 1200}[tier]
    n_procs = {"quick": 90, "thorough": 1500, "search": 250}[tier]
    perm_max = {"quick": 3, "thorough": 4, "search": 3}[tier]
    cases = []
    # live: real children under the running kernel (validates the virtual kernel of Spec.v; see props/_c15_live.py)
    if tier != "search":
        for name in LIVE.SCEN:
            cases.append({"kind": "live", "cls": "live-" + LIVE.SCEN[name][0], "scenario": name})
    # exhaustive status decoding
    for c in range(256):
        cases.append({"kind": "decode", "cls": "decode", "status": ["code", c]})
    for s in range(1, 65):
        for core in (False, True):
            cases.append({"kind": "decode", "cls": "decode", "status": ["sig", s, core]})
    # systematic placements: exit instant x deadline on/around every polling instant (child, no EINTR)
    if tier != "search":
        for ki in range(0, 13):
            for d_off in (0, EPS, -EPS):
                tm = F(CUM[ki], 10000) + d_off
                if tm < 0:
                    continue
                for kj in (ki - 1, ki, ki + 1):
                    if kj < 0 or kj >= len(CUM):
                        continue
                    for e_off in (0, EPS, -EPS):
                        ex = F(CUM[kj], 10000) + e_off
                        for kind in ("child", "nonchild"):
                            p = {"pid": 4242, "kind": kind, "exit": q(ex), "status": ["code", 3], "eintr": []}
                            cases.append({"kind": "wait", "cls": "grid-" + kind, "proc": p, "start": q(0),
                                          "ops": [["wait", q(tm)]]})
    # a blocking wait() interrupted before / exactly at / after the exit instant
    if tier != "search":
        for T in (F(1, 1000), F(1, 10), F(1)):
            for idxs in ([0], [0, 1], [1], [0, 1, 2]):
                for dly in (F(0), EPS, T - EPS, T, T + EPS, T / 2, F(3)):
                    for kind in ("child", "nonchild"):
                        if kind == "nonchild" and dly not in (F(0), T):
                            continue
                        p = {"pid": 4242, "kind": kind, "exit": q(T), "status": ["sig", 15, False],
                             "eintr": [[i, q(dly)] for i in idxs]}
                        cases.append({"kind": "wait", "cls": "block-eintr-" + kind, "proc": p, "start": q(0),
                                      "ops": [["wait", None], ["wait", q(0)]]})
    # NaN fails `timeout >= 0` (ValueError, like a negative number); -0.0 is a valid zero timeout
    if tier != "search":
        for kind in ("child", "nonchild"):
            for ex in (F(-1), F(1, 100), None):
                p = {"pid": 4242, "kind": kind, "exit": None if ex is None else q(ex), "status": ["code", 0], "eintr": []}
                cases.append({"kind": "wait", "cls": "wait-nan-" + kind, "proc": p, "start": q(0),
                              "ops": [["wait", "nan"], ["wait", "-0.0"], ["advance", q(F(1, 50))], ["wait", "-0.0"], ["wait", "nan"]]})
    # the cache across other public calls: wait -> value, <call>, wait again (same value, no kernel call)
    if tier != "search":
        for kind, st in (("child", ["code", 7]), ("child", ["sig", 9, False]), ("nonchild", ["code", 0]), ("never", ["code", 0])):
            for nm in VK.OTHER_CALLS:
                p = {"pid": 4242, "kind": kind, "exit": None if kind == "never" else q(F(3, 1000)), "status": st, "eintr": []}
                cases.append({"kind": "wait", "cls": "cache-call-" + kind, "proc": p, "start": q(0),
                              "ops": [["call", nm], ["wait", None], ["call", nm], ["wait", None], ["call", "is_running"],
                                      ["wait", q(0)], ["advance", q(F(1, 10))], ["call", nm], ["wait", q(F(1, 100))]]})
    for _ in range(n_wait):
        shape = rng.random()
        start = rng.choice([F(0)] * 3 + [F(5, 7), F(10001, 10), F(123456789, 1000)])
        if shape < 0.55:
            tm = _tm_choices(rng)
            p = _proc(rng, tm, need_end=(tm is None))
            if tm is None and p["kind"] == "nonchild" and p["exit"] is None:
                p["exit"] = q(F(1, 3))
            ops = [["wait", None if tm is None else q(tm)]]
        elif shape < 0.9:
            # sequences on one object: timeouts first, then the value, then cached calls
            ops = []
            tm = None
            for _ in range(rng.choice([2, 3, 4, 5])):
                tm = _tm_choices(rng)
                if tm is None and rng.random() < 0.5:
                    tm = F(1, 100)
                ops.append(["wait", None if tm is None else q(tm)])
                if rng.random() < 0.3:
                    ops.append(["advance", q(rng.choice([EPS, F(1, 1000), F(1, 10), F(1)]))])
                # other public calls on the same object between two waits (they must leave the cache alone)
                for _ in range(rng.choice([0, 0, 1, 1, 2])):
                    ops.append(["call", rng.choice(VK.OTHER_CALLS)])
            p = _proc(rng, tm if tm is not None else F(1, 10), need_end=True)
            if p["kind"] == "never":
                p["exit"] = None
            elif p["exit"] is None:
                p["exit"] = q(F(1, 3))
        else:
            tm = _tm_choices(rng)
            p = _proc(rng, tm, need_end=(tm is None), pid=rng.choice([4242, 4242, 4242, 0, -1]))
            if tm is None and p["kind"] == "nonchild" and p["exit"] is None:
                p["exit"] = q(F(1, 3))
            ops = [["raw", None if tm is None else q(tm)]]
        # exits are relative to start
        if p["exit"] is not None:
            p["exit"] = q(unq(p["exit"]) + start)
        cases.append({"kind": "wait", "cls": _wait_cls(p, ops), "proc": p, "start": q(start), "ops": ops})
    # psutil.Popen histories: who collects the status first (the wrapped subprocess object via poll / communicate /
    # leaving `with`, or psutil's wait), then repeated waits, the PID possibly recycled meanwhile; status 0 prominent
    PST = [["code", 0], ["code", 0], ["code", 1], ["code", 255], ["sig", 9, False], ["sig", 15, False]]
    if tier != "search":
        for st in PST[1:]:
            for first in (["poll"], ["communicate"], ["exit"], ["wait", None], ["wait", q(0)], ["wait", q(F(1, 100))]):
                for T in (F(-1), F(3, 1000)):
                    for reuse in (False, True):
                        neg = [q(F(-1)), q(F(-1, 1000)), "nan"][len(cases) % 3]
                        ops = [["wait", neg], first]
                        if T > 0 and first[0] in ("poll", "wait") and first != ["wait", None]:
                            # still running: nothing collected yet; let it end, then collect the same way
                            ops += [["advance", q(F(1, 100))], first]
                        ops += [["wait", neg], ["wait", "-0.0"], ["wait", q(0)]]
                        if reuse:
                            ops += [["reuse"]]
                        ops += [["call", "is_running"], ["wait", q(F(1, 20))], ["wait", q(F(-1))], ["poll"], ["wait", None],
                                ["wait", "nan"], ["wait", q(0)], ["wait", q(F(-1, 1000))]]
                        p = {"pid": 4242, "kind": "child", "exit": q(T), "status": st, "eintr": []}
                        cases.append({"kind": "popen", "cls": "popen-%s%s" % (first[0], "-reuse" if reuse else ""),
                                      "proc": p, "start": q(0), "ops": ops})
    for _ in range({"quick": 70, "thorough": 1500, "search": 150}[tier]):
        T = rng.choice([F(-1), F(0), F(3, 1000), F(1, 20), F(1, 2)])
        ops, collected_possible = [], False
        for _ in range(rng.choice([3, 4, 5, 6, 8])):
            r = rng.random()
            if r < 0.4:
                ops.append(["wait", rng.choice([None, q(0), q(F(1, 1000)), q(F(1, 100)), q(F(1, 20)), q(F(1)),
                                                q(F(-1)), q(F(-1, 1000)), "nan", "-0.0"])])
            elif r < 0.55:
                ops.append(["poll"])
            elif r < 0.65:
                ops.append([rng.choice(["communicate", "exit"])])
            elif r < 0.8:
                ops.append(["advance", q(rng.choice([EPS, F(1, 1000), F(1, 20), F(1)]))])
            elif r < 0.9:
                ops.append(["call", rng.choice(VK.OTHER_CALLS)])
            else:
                ops.append(["reuse"])
        p = {"pid": 4242, "kind": "child", "exit": q(T), "status": rng.choice(PST), "eintr": []}
        cases.append({"kind": "popen", "cls": "popen-random", "proc": p, "start": q(0), "ops": ops})
    # wait_procs
    import itertools
    for _ in range(n_procs):
        n = rng.choice([1, 2, 2, 3, 3, 3, 4, 4, 5, 6])
        r = rng.random()
        if r < 0.15:
            tm = None
        elif r < 0.25:
            tm = F(0)
        elif r < 0.3:
            tm = rng.choice([F(-1), F(-1, 1000)])
        else:
            tm = rng.choice([F(1, 100), F(1, 20), F(1, 10), F(3, 10), F(1, 2), F(1), F(3, 2), F(511, 10000), F(127, 10000) + EPS,
                             F(1311, 10000), F(1, 3)])
        ps = []
        for i in range(n):
            p = _proc(rng, tm, need_end=(tm is None), pid=i + 1, eintr_ok=rng.random() < 0.4)
            if tm is None and p["exit"] is None and p["kind"] != "never":
                p["exit"] = q(rng.choice([F(1, 3), F(1, 2), F(1), F(1, 200)]))
            ps.append(p)
        cb = rng.choice(["ok"] * 3 + list(VK.CB_TRUTHY[1:]) + list(VK.CB_FALSY) * 2 + ["none"] * 3 + ["bad", "bad_str"])
        procs_as = rng.choice(["list"] * 3 + ["tuple", "generator", "set"])
        tm_type = rng.choice(["auto", "auto", "int", "float", "bool", "fraction"])
        start = rng.choice([F(0), F(0), F(5, 7), F(10001, 10)])
        for p in ps:
            if p["exit"] is not None:
                p["exit"] = q(unq(p["exit"]) + start)
        prios = [list(x) for x in itertools.permutations(range(n))] if n <= perm_max and tier != "search" else None
        if prios is None:
            pr = list(range(n))
            rng.shuffle(pr)
            prios = [pr]
        # already-waited objects: processes that ended before the call (no EINTR), waited for, then used through
        # other public calls; wait_procs must report them gone with the very status wait() returned
        pre, inter = [], []
        if rng.random() < 0.35:
            pre = [i for i, p in enumerate(ps) if not p["eintr"] and (p["kind"] == "never" or (p["exit"] is not None and unq(p["exit"]) <= start))]
            inter = [rng.choice(VK.OTHER_CALLS) for _ in range(rng.choice([0, 1, 2]))]
        # psutil.Popen objects among them: children that had ended, status collected beforehand by one of the routes
        pop = {}
        if rng.random() < 0.3:
            for i, p in enumerate(ps):
                if p["kind"] == "child" and not p["eintr"] and p["exit"] is not None and unq(p["exit"]) <= start and i not in pre:
                    pop[str(i)] = {"reap": rng.choice(["poll", "communicate", "exit", "pswait"]), "reuse": rng.random() < 0.4}
                    if rng.random() < 0.5:
                        p["status"] = ["code", 0]
        for pr in prios:
            c = {"kind": "procs", "cls": "procs-%d%s%s%s%s" % (n, "-notimeout" if tm is None else "", "-cb" if cb in VK.CB_TRUTHY else "-falsycb" if cb in VK.CB_FALSY else "",
                                                                "-prewaited" if pre else "", "-popen" if pop else ""),
                 "procs": ps, "prio": pr, "timeout": None if tm is None else q(tm), "cb": cb, "start": q(start),
                 "procs_as": procs_as, "tm_type": tm_type}
            if pop:
                c["popen"] = pop
            elif not pre and rng.random() < 0.25:
                # aliased input: an object listed twice / another equal Process object of the same process
                hs = [[i, 0] for i in range(n)]
                for _ in range(rng.choice([1, 1, 2, 3])):
                    i = rng.randrange(n)
                    hs.insert(rng.randrange(len(hs) + 1), [i, rng.choice([0, 0, 1, 2])])
                c["handles"] = hs
                c["cls"] += "-alias"
            if pre:
                c["prewait"], c["inter"] = pre, inter
            cases.append(c)
    # systematic: every callback kind x container x timeout type; one process gone at once, one gone during the wait
    # (so the callback object is called twice: a Collector(list) is falsy at the first call only), one alive
    if tier != "search":
        k = 0
        for cbk in VK.CB_CALLABLE + ("none",) + VK.CB_BAD:
            for tmv, tmt in ((F(1), "bool"), (F(1), "int"), (F(1, 2), "float"), (F(1, 20), "fraction"), (F(0), "bool"), (None, "auto")):
                ps = [{"pid": 1, "kind": "child", "exit": q(F(-1)), "status": ["code", 0], "eintr": []},
                      {"pid": 2, "kind": "child", "exit": q(F(3, 1000)), "status": ["sig", 9, False], "eintr": []},
                      {"pid": 3, "kind": "nonchild", "exit": q(F(1, 100)) if tmv is None else None, "status": ["code", 0], "eintr": []}]
                cases.append({"kind": "procs", "cls": "procs-3-args-" + ("falsycb" if cbk in VK.CB_FALSY else "cb" if cbk in VK.CB_TRUTHY else cbk),
                              "procs": ps, "prio": [[0, 1, 2], [2, 1, 0], [1, 0, 2]][k % 3],
                              "timeout": None if tmv is None else q(tmv), "cb": cbk, "start": q(0),
                              "procs_as": ["list", "tuple", "generator", "set"][k % 4], "tm_type": tmt})
                k += 1
    # systematic: ALIASED input.  P0 has ended, P1 ends 3 ms into the wait, P2 survives (or ends later when there is no
    # timeout).  Shapes: the same object twice, an equal pair, a triple, everything doubled, an un-collected Popen
    # and a Process of its pid in both orders -- for the gone and for the alive processes, with callbacks
    if tier != "search":
        shapes = {
            "same-P0": [[0, 0], [1, 0], [0, 0], [2, 0]], "same-P1": [[1, 0], [0, 0], [1, 0], [2, 0]], "same-P2": [[2, 0], [0, 0], [1, 0], [2, 0]],
            "pair-P0": [[0, 0], [1, 0], [2, 0], [0, 1]], "pair-P1": [[1, 1], [0, 0], [1, 0], [2, 0]], "pair-P2": [[0, 0], [2, 0], [1, 0], [2, 1]],
            "triple-P0": [[0, 0], [0, 1], [1, 0], [0, 0], [2, 0]], "triple-P2": [[2, 1], [0, 0], [2, 0], [1, 0], [2, 2]],
            "all-doubled": [[0, 0], [1, 0], [2, 0], [0, 1], [1, 0], [2, 1]],
            "popen-then-process": [[0, 0], [0, 1], [1, 0], [2, 0]], "process-then-popen": [[0, 1], [1, 0], [0, 0], [2, 0]],
            "only-aliases-of-one": [[1, 0], [1, 1], [1, 0]],
        }
        k = 0
        for name, hs in shapes.items():
            for cbk in ("ok", "falsy_list", "none"):
                for tmv in (F(1, 20), F(0), None):
                    if (k + len(name)) % 2 and tmv == F(0):
                        k += 1
                        continue
                    ps = [{"pid": 1, "kind": "child", "exit": q(F(-1)), "status": ["code", 0], "eintr": []},
                          {"pid": 2, "kind": "child", "exit": q(F(3, 1000)), "status": ["sig", 9, False], "eintr": []},
                          {"pid": 3, "kind": "child", "exit": q(F(1, 100)) if tmv is None else None, "status": ["code", 4], "eintr": []}]
                    c = {"kind": "procs", "cls": "procs-3-alias-" + ("falsycb" if cbk in VK.CB_FALSY else "cb" if cbk == "ok" else "nocb"),
                         "procs": ps, "prio": [[0, 1, 2], [2, 0, 1], [1, 2, 0]][k % 3], "timeout": None if tmv is None else q(tmv),
                         "cb": cbk, "start": q(0), "handles": hs, "procs_as": ["list", "tuple", "generator"][k % 3]}
                    if "popen" in name:
                        c["popen"] = {"0": {"reap": "none", "reuse": False}}
                    cases.append(c)
                    k += 1
    # systematic: wait_procs([Popen]) after the wrapped object collected status 0 / 3 / -9
    if tier != "search":
        for st in (["code", 0], ["code", 3], ["sig", 9, False]):
            for how in ("poll", "communicate", "exit", "pswait"):
                for reuse in (False, True):
                    for tm in (None, F(0), F(1, 20)):
                        ps = [{"pid": 1, "kind": "child", "exit": q(F(-1)), "status": st, "eintr": []},
                              {"pid": 2, "kind": "child", "exit": q(F(1, 100)) if tm is None else None, "status": ["code", 0], "eintr": []}]
                        cases.append({"kind": "procs", "cls": "procs-2-popen-cb", "procs": ps, "prio": [0, 1],
                                      "timeout": None if tm is None else q(tm), "cb": "ok", "start": q(0),
                                      "popen": {"0": {"reap": how, "reuse": reuse}}})
    # systematic: one ended child + one running child, the ended one waited for and touched before wait_procs
    if tier != "search":
        for nm in VK.OTHER_CALLS:
            for tm in (None, F(0), F(1, 20)):
                ps = [{"pid": 1, "kind": "child", "exit": q(F(-1)), "status": ["code", 5], "eintr": []},
                      {"pid": 2, "kind": "child", "exit": q(F(1, 100)) if tm is None else None, "status": ["sig", 15, False], "eintr": []},
                      {"pid": 3, "kind": "nonchild", "exit": q(F(-1, 2)), "status": ["code", 0], "eintr": []}]
                cases.append({"kind": "procs", "cls": "procs-3-prewaited-cb", "procs": ps, "prio": [0, 1, 2],
                              "timeout": None if tm is None else q(tm), "cb": "ok", "start": q(0),
                              "prewait": [0, 2], "inter": [nm]})
    return cases


# ------------------------------------------------------------------ Coq terms
def gq(v):
    return "(%s # %d)%%Q" % (G.z(v[0]), v[1])


def gopt(v):
    if v in ("nan", "-0.0"):
        v = q(VK.tmq(v))     # NaN fails `timeout >= 0` like a negative number; -0.0 is zero
    return "None" if v is None else "(Some %s)" % gq(v)


def gstatus(s):
    if s[0] == "code":
        return "(ExitCode %s)" % G.z(s[1])
    return "(Killed %s %s)" % (G.z(s[1]), G.bo(s[2]))


def gproc(p):
    kind = {"child": "Child", "nonchild": "NonChild", "never": "NeverExisted"}[p["kind"]]
    ei = []
    for e in p["eintr"]:
        ei.append("(%d%%nat, %s)" % ((e, "0%Q") if isinstance(e, int) else (e[0], gq(e[1]))))
    return "(mk_proc %s %s %s %s [%s])" % (G.z(p["pid"]), kind, gopt(p["exit"]), gstatus(p["status"]), "; ".join(ei))


def _live_virtual(case):
    """the virtual scenario (an ordinary wait / popen / procs case) that mirrors a live scenario"""
    group, virt = LIVE.SCEN[case["scenario"]]
    if group in ("wait", "popen"):
        return {"kind": group, "proc": virt["proc"], "start": q(0), "ops": virt["ops"]}
    if group == "procs":
        return dict(virt, kind="procs", start=q(0))
    return None


def coq_term(case):
    k = case["kind"]
    if k == "live":
        group, virt = LIVE.SCEN[case["scenario"]]
        if group != "probe":
            return coq_term(_live_virtual(case))
        p = virt["proc"]
        st = p["status"]
        alt = [gstatus(st[:2] + [False]), gstatus(st[:2] + [True])] if st[0] == "sig" else [gstatus(st)] * 2
        return "JL [run_kprobe %s (0 # 1)%%Q false; run_kprobe %s (2 # 1)%%Q false; run_kprobe %s (2 # 1)%%Q true; JL [JZ (k_status %s); JZ (k_status %s)]]" % (
            gproc(p), gproc(p), gproc(p), alt[0], alt[1])
    if k == "decode":
        s = case["status"]
        st = s[1] * 256 if s[0] == "code" else s[1] + (128 if s[2] else 0)
        return "JL [run_decode %s; JZ (k_status %s); JZ (spec_code %s)]" % (G.z(st), gstatus(s), gstatus(s))
    if k == "wait":
        ops = []
        for o in case["ops"]:
            if o[0] == "wait":
                ops.append("OpWait %s" % gopt(o[1]))
            elif o[0] == "raw":
                ops.append("OpRaw %s" % gopt(o[1]))
            elif o[0] == "call":
                ops.append("OpOther")
            else:
                ops.append("OpAdvance %s" % gq(o[1]))
        return "run_wait %s %s %s %d%%nat" % (gproc(case["proc"]), gq(case["start"]), G.lst(ops), FUEL)
    if k == "popen":
        ops = []
        for o in case["ops"]:
            if o[0] == "wait":
                ops.append("PoWait %s" % gopt(o[1]))
            elif o[0] == "poll":
                ops.append("PoPoll")
            elif o[0] in ("communicate", "exit"):
                ops.append("PoBlock")
            elif o[0] == "advance":
                ops.append("PoAdvance %s" % gq(o[1]))
            elif o[0] == "reuse":
                ops.append("PoReuse")
            else:
                ops.append("PoOther")
        return "run_popen %s %s %s %d%%nat" % (gproc(case["proc"]), gq(case["start"]), G.lst(ops), FUEL)
    if k == "procs":
        cb = ("CbNone" if case["cb"] == "none" else "CbBad" if case["cb"] in VK.CB_BAD
              else "(CbOk true)" if case["cb"] in VK.CB_TRUTHY else "(CbOk false)")
        if case.get("handles"):
            return "run_procs_in %s [%s] [%s] %s %s %d%%nat %d%%nat %s" % (
                G.lst([gproc(p) for p in case["procs"]]), "; ".join("%d%%nat" % h[0] for h in case["handles"]),
                "; ".join("%d%%nat" % i for i in case["prio"]), gopt(case["timeout"]), cb, FUEL, ROUNDS, gq(case["start"]))
        return "run_procs %s [%s] %s %s %d%%nat %d%%nat %s" % (
            G.lst([gproc(p) for p in case["procs"]]), "; ".join("%d%%nat" % i for i in case["prio"]),
            gopt(case["timeout"]), cb, FUEL, ROUNDS, gq(case["start"]))
    raise ValueError(k)


def coq_struct(case, raw):
    k = case["kind"]
    if k == "live":
        group, virt = LIVE.SCEN[case["scenario"]]
        if group == "probe":
            return {"model": {"cats": []}, "spec": None,
                    "probes": {"running": raw[0][:3], "ended": raw[1][:3], "reaped": raw[2][:3], "words": raw[3], "decoded": raw[0][4]}}
        v = _live_virtual(case)
        st = coq_struct(v, raw)
        if group == "wait":
            cats = [LIVE.cat(o[0]) for o in st["model"]["ops"]]
        elif group == "popen":
            cats, j = [], 0
            for o in v["ops"]:
                if o[0] in ("advance", "reuse", "call"):
                    continue
                cats.append(LIVE.cat(raw[j][0]) if o[0] == "wait" else raw[j][0])
                j += 1
        else:
            m = st["model"]
            cats = [m["exc"], m["gone"], m["alive"], m["rc"]]
        return {"model": {"cats": cats}, "spec": None}
    if k == "decode":
        return {"model": raw[0], "status_word": raw[1], "spec": T("Int", raw[2])}
    if k == "wait":
        return {"model": {"ops": [r[:4] for r in raw], "float": "ok"},
                "lenient": [r[4] for r in raw], "strict": [r[5] for r in raw], "spec": None}
    if k == "popen":
        return {"model": {"ops": raw, "float": "ok"}, "spec": None}
    if k == "procs":
        exc, gone, alive, rc, cbs, sleeps, ret, waits, part = raw
        return {"model": {"exc": exc, "gone": sorted(gone) if exc is None else [], "alive": sorted(alive) if exc is None else [],
                          "rc": sorted(rc, key=lambda x: x[0]), "cbs": cbs, "sleeps": sleeps, "ret": ret, "waits": waits,
                          "float": "ok"},
                "oracle_ok": part, "spec": None}
    raise ValueError(k)


def _oof(x):
    """does a model value contain OutOfFuel (fuel too small for this case: harness sizing error)"""
    return "OutOfFuel" in repr(x)


def finding_key(case, coq):
    # EINTR on a waitpid call made at/after the deadline while the child has already ended:
    # the model (like the code) raises TimeoutExpired although the process is not alive
    if case["kind"] == "wait" and isinstance(coq, dict):
        for le, st in zip(coq.get("lenient", []), coq.get("strict", [])):
            if le is True and st is False:
                return "wait-eintr-timeout-after-exit"
    return None


def judge(case, coq, impl):
    from pv.core import Verdict, default_judge
    if isinstance(impl, dict) and impl.get("t") == "Skip":
        return Verdict("skip", str(impl.get("a")))
    k = case["kind"]
    if k == "decode":
        return default_judge(None, case, coq, impl)
    if k == "live":
        if impl.get("fails"):
            return Verdict("violation", "live (%s): %s" % (case["scenario"], "; ".join(impl["fails"])))
        if impl["cats"] != coq["model"]["cats"]:
            return Verdict("corr", "live (%s): real outcomes %r, model %r" % (case["scenario"], impl["cats"], coq["model"]["cats"]))
        return Verdict("ok")
    if _oof(coq["model"]):
        raise RuntimeError("model ran out of fuel on %r" % (case,))
    if isinstance(impl, dict) and impl.get("t") in ("Timeout", "WorkerDied"):
        # wall-clock limit of the worker (machine load), not an answer of the implementation: an implementation
        # that never returns is detected in virtual time (Hang after 4000 sleeps / 20000 kernel calls)
        raise RuntimeError("worker wall-clock limit hit on %r" % (case,))
    # theorems C15_wait_meets_oracle / C15_wait_procs_meets_oracle: the model's own run satisfies the oracle
    if (k == "wait" and not all(coq["lenient"])) or (k == "procs" and coq["oracle_ok"] is not True):
        raise RuntimeError("the model's run violates its own oracle (contradicts a theorem) on %r" % (case,))
    if k == "popen":
        fails = VK.spec_popen(case, impl["ops"], tol=0)
        if impl["float"] != "ok":
            return Verdict("violation", "float clock: " + str(impl["float"]))
        if fails:
            return Verdict("violation", "; ".join(fails))
        if impl != coq["model"]:
            return Verdict("corr", "Popen history: observation differs from the model")
        return Verdict("ok")
    if k == "wait":
        fails = VK.spec_ops(case, impl["ops"], strict=True, tol=0)
        if impl["float"] != "ok":
            return Verdict("violation", "float clock: " + str(impl["float"]))
        if fails:
            return Verdict("violation", "; ".join(fails))
        if impl != coq["model"]:
            return Verdict("corr", "wait(): observation differs from the model")
        return Verdict("ok")
    if k == "procs":
        fails = VK.spec_procs(case, impl, tol=0)
        if impl["float"] != "ok":
            return Verdict("violation", "float clock: " + str(impl["float"]))
        if fails:
            return Verdict("violation", "; ".join(fails))
        if impl != coq["model"]:
            return Verdict("corr", "wait_procs(): observation differs from the model")
        return Verdict("ok")
    raise ValueError(k)


def nontrivial(case, coq, impl):
    if case["kind"] in ("decode", "live"):
        return True
    if case["kind"] == "popen":
        return True
    if case["kind"] == "wait":
        return any(o[2] or (isinstance(o[0], dict) and o[0].get("t") == "Int") for o in coq["model"]["ops"])
    return bool(coq["model"]["waits"])


# ------------------------------------------------------------------ implementation side
def impl_run(case, coq, env):
    k = case["kind"]
    if k == "live":
        r = LIVE.run(case, coq, env)
        return {"cats": r["cats"], "fails": r["fails"]}
    if k == "decode":
        return VK.run_decode(coq["status_word"])
    if k == "wait":
        ex = VK.run_wait(case, env, "exact")
        if isinstance(ex, dict):
            return ex
        fl = VK.run_wait(case, env, "float")
        ff = VK.spec_ops(case, fl, strict=coq["strict"], tol=F(1, 10 ** 9)) if not isinstance(fl, dict) else [repr(fl)]
        return {"ops": ex, "float": "ok" if not ff else "; ".join(ff)}
    if k == "popen":
        ex = VK.run_popen(case, env, "exact")
        if isinstance(ex, dict):
            return ex
        fl = VK.run_popen(case, env, "float")
        ff = VK.spec_popen(case, fl, tol=F(1, 10 ** 9)) if not isinstance(fl, dict) else [repr(fl)]
        return {"ops": ex, "float": "ok" if not ff else "; ".join(ff)}
    if k == "procs":
        ex = VK.run_procs(case, env, "exact")
        if ex.get("t") == "Skip":
            return ex
        fl = VK.run_procs(case, env, "float")
        ff = VK.spec_procs(case, fl, tol=F(1, 10 ** 9)) if fl.get("t") != "Skip" else []
        ex["float"] = "ok" if not ff else "; ".join(ff)
        return ex
    raise ValueError(k)


MANIFEST = {
    "text": "36 theorems (Coq, exact rational virtual time, for every exit instant, timeout, process kind, exit status and EINTR placement incl. a blocking "
            "waitpid interrupted at any instant): status decoding; a returned status/None is never early; TimeoutExpired(timeout, pid) only at or after the "
            "deadline, less than 40 ms late, and -- on EINTR-free schedules -- with the process alive (EINTR case refuted with a witness: known finding); "
            "k-th sleep = min(2^k/10000, 1/25), timeout=0 never sleeps, negative timeout -> ValueError; TERMINATION: with a timeout ceil(25*timeout)+12 "
            "loop steps suffice for every causal kernel, without a timeout the call returns iff the exit instant is finite, wait_procs needs at most "
            "len(procs)+ceil(timeout)+1 rounds; the cached value is returned without a kernel call; wait_procs partitions the DISTINCT processes of its input (aliases -- an object listed twice, equal objects of one process -- collapse: input is a multiset of handles over processes; returned lists duplicate-free, len(gone)+len(alive) = number of distinct processes), sets returncode and "
            "calls the callback exactly once per gone process for EVERY callable whatever its truth value (callback presence is an option in the model, a falsy callable gives the same run as a truthy one) and returns before timeout + 40 ms for every iteration order; POPEN (psutil.Popen wrapping subprocess.Popen; state = "
            "subprocess-side returncode + psutil-side cache): once a status has been collected by either side, 0 included, wait() returns it at once for "
            "every kernel and timeout, along every later history, for every order of reaping (poll/communicate/__exit__ first, or psutil's wait first), and a negative timeout raises ValueError in every state "
            "(the pre-4baf627 order is kept as a legacy variant with a refuted theorem); "
            "SOURCE TIE BY TRANSLATION: psutil/_psposix.py wait_pid (PID guard, interval, flags and deadline computation, the local sleep() with its deadline test / TimeoutExpired arguments / "
            "back-off min(interval*2, 0.04), the InterruptedError / ChildProcessError (inner pid_exists loop) / else clauses, retpid test, order WIFEXITED-WIFSIGNALED, sign of the signal) is translated on every run from the tree "
            "under check into a program of coq/C15/PyGen.v (coq/Gen/C15_Tables.v); C15_gen_wait_pid_is_model proves the interpreter on it equal to Model.wait_pid (result and full state) for every kernel, pid>0, timeout, fuel, start; "
            "C15_gen_wait_pid_bad_pid the pid<=0 case; C15_gen_wait_pid_modelled that it never leaves the modelled fragment; "
            "ORACLES: the boolean oracles "
            "spec_wait / spec_procs that the harness applies to the implementation are theorems of the model's runs. The model is tied to the code by "
            "running the real psutil over a virtual kernel/clock on placements of the exit instant on and around every polling instant and the deadline "
            "and comparing outcome, every sleep() argument, the return instant and the waitpid-call count.",
    "note": "The virtual kernel of Spec.v is checked against the running kernel on every run (live cases). Not stated: termination of wait_procs without a timeout. Trusted: Coq kernel + vm_compute; hand-written model coq/C15/Model.v (wait_pid/loop/decode_status tied to the source by translation + proof, Process.wait / Popen.wait / wait_procs by the correspondence run only); translator props/_c15_gen.py and interpreter coq/C15/PyGen.v; kernel semantics in "
            "coq/C15/Spec.v; harness (virtual kernel/clock, fake /proc, Python transcription of the oracle); CPython, IEEE doubles. "
            "Wall-clock behaviour is outside the model.",
}
