"""C15 live cases: REAL short-lived children under the RUNNING kernel.

(1) what the real os.waitpid / os.kill(pid, 0) answer in each scripted situation (running, stopped, zombie, reaped,
    not our child, never existed) is compared with what the virtual kernel of coq/C15/Spec.v answers for the same
    situation (Run.run_kprobe) -- a mismatch is a wrong transcription: RuntimeError (harness error), never a verdict;
(2) the real Process.wait / wait_pid / Popen.wait / wait_procs run on them in real time; judged: the status value,
    None-vs-status, TimeoutExpired-vs-return, "never before the process has really ended", loose time bounds; and the
    outcome categories are compared with the Coq model's run of the corresponding virtual scenario."""
import os
import select
import signal
import time
from fractions import Fraction as F

from pv.canon import T

SLACK = 20.0      # seconds of scheduling slack tolerated on a loaded machine
LONG = 30         # "generous" timeout: the child ends long before it


def q(x):
    x = F(x)
    return [x.numerator, x.denominator]


def _proc(kind, exit_, status):
    return {"pid": 4242, "kind": kind, "exit": None if exit_ is None else q(exit_), "status": status, "eintr": []}


# name -> (group, virtual scenario for the model).  Virtual instants: the child "ends" at 1/10 (or -1 = already ended,
# 1 = after the short first wait); only outcome categories are compared, never times.
SCEN = {
    # ---- kernel transcript only
    "probe-exit0": ("probe", {"proc": _proc("child", 1, ["code", 0])}),
    "probe-exit1": ("probe", {"proc": _proc("child", 1, ["code", 1])}),
    "probe-exit255": ("probe", {"proc": _proc("child", 1, ["code", 255])}),
    "probe-sigterm": ("probe", {"proc": _proc("child", 1, ["sig", 15, False])}),
    "probe-sigkill": ("probe", {"proc": _proc("child", 1, ["sig", 9, False])}),
    "probe-sigsegv-core": ("probe", {"proc": _proc("child", 1, ["sig", 11, True])}),
    "probe-sigusr1": ("probe", {"proc": _proc("child", 1, ["sig", 10, False])}),
    "probe-stopped": ("probe", {"proc": _proc("child", 1, ["code", 7])}),
    "probe-nonchild": ("probe", {"proc": _proc("nonchild", 1, ["code", 0])}),
    "probe-never": ("probe", {"proc": _proc("never", None, ["code", 0])}),
    # ---- the real psutil on real processes
    "wait-exit0-cached": ("wait", {"proc": _proc("child", F(1, 10), ["code", 0]), "ops": [["wait", None], ["wait", q(0)], ["wait", None]]}),
    "wait-exit255-timeout": ("wait", {"proc": _proc("child", F(1, 10), ["code", 255]), "ops": [["wait", q(LONG)]]}),
    "wait-timeout-then-term": ("wait", {"proc": _proc("child", 1, ["sig", 15, False]),
                                        "ops": [["wait", q(F(1, 5))], ["advance", q(1)], ["wait", q(LONG)]]}),
    "wait-sigkill": ("wait", {"proc": _proc("child", F(1, 10), ["sig", 9, False]), "ops": [["wait", q(LONG)]]}),
    "wait-sigsegv-core": ("wait", {"proc": _proc("child", F(1, 10), ["sig", 11, True]), "ops": [["wait", q(LONG)]]}),
    "wait-sigusr1": ("wait", {"proc": _proc("child", F(1, 10), ["sig", 10, False]), "ops": [["wait", None]]}),
    "wait-stopped-continued": ("wait", {"proc": _proc("child", 1, ["code", 7]),
                                        "ops": [["wait", q(F(1, 5))], ["advance", q(1)], ["wait", q(LONG)]]}),
    "wait-zombie": ("wait", {"proc": _proc("child", -1, ["code", 1]), "ops": [["wait", q(0)], ["wait", q(0)]]}),
    "wait-reaped-behind-back": ("wait", {"proc": _proc("never", None, ["code", 0]), "ops": [["wait", q(5)], ["wait", None]]}),
    "wait-nonchild": ("wait", {"proc": _proc("nonchild", 1, ["code", 0]),
                               "ops": [["wait", q(F(1, 5))], ["advance", q(1)], ["wait", q(LONG)]]}),
    "wait-never-existed": ("wait", {"proc": _proc("never", None, ["code", 0]), "ops": [["raw", None], ["raw", q(F(1, 5))]]}),
    "popen-poll-exit0": ("popen", {"proc": _proc("child", -1, ["code", 0]), "ops": [["poll"], ["wait", q(5)], ["wait", None]]}),
    "popen-communicate-exit3": ("popen", {"proc": _proc("child", F(1, 10), ["code", 3]), "ops": [["communicate"], ["wait", q(0)]]}),
    "popen-wait-first-sigkill": ("popen", {"proc": _proc("child", F(1, 10), ["sig", 9, False]), "ops": [["wait", q(LONG)], ["poll"], ["wait", q(0)]]}),
    "popen-context-exit0": ("popen", {"proc": _proc("child", F(1, 10), ["code", 0]), "ops": [["exit"], ["wait", q(1)]]}),
    "procs-gone-gone-alive": ("procs", {"procs": [dict(_proc("child", -1, ["code", 0]), pid=1),
                                                  dict(_proc("child", F(1, 5), ["code", 3]), pid=2),
                                                  dict(_proc("child", None, ["sig", 9, False]), pid=3)],
                                        "prio": [0, 1, 2], "timeout": q(F(3, 2)), "cb": "ok"}),
}


def cat(res):
    """outcome category: the seconds of a TimeoutExpired are not compared"""
    if isinstance(res, dict) and res.get("t") == "Timeout":
        return T("Timeout")
    return res


# ------------------------------------------------------------------ real children
class Child:
    """a forked child that blocks on a pipe; `go()` lets it sleep `delay` seconds and then exit / kill itself"""

    def __init__(self, status, delay=0.0, core_dir=None):
        r, w = os.pipe()
        pid = os.fork()
        if pid == 0:
            try:
                os.close(w)
                for s in (signal.SIGTERM, signal.SIGUSR1, signal.SIGSEGV, signal.SIGALRM, signal.SIGINT):
                    signal.signal(s, signal.SIG_DFL)
                signal.alarm(0)
                import resource
                hard = resource.getrlimit(resource.RLIMIT_CORE)[1]
                want_core = status[0] == "sig" and len(status) > 2 and status[2]
                resource.setrlimit(resource.RLIMIT_CORE, ((4096 if hard == resource.RLIM_INFINITY or hard >= 4096 else hard) if want_core else 0, hard))
                if core_dir:
                    os.chdir(core_dir)
                os.read(r, 1)
                time.sleep(delay)
                if status[0] == "code":
                    os._exit(status[1])
                os.kill(os.getpid(), status[1])
                time.sleep(60)
            finally:
                os._exit(98)
        os.close(r)
        self.pid, self._w, self.delay, self.t_go = pid, w, delay, None

    def go(self):
        self.t_go = time.monotonic()
        os.write(self._w, b"g")

    def ended_not_before(self):
        return self.t_go + self.delay

    def state(self):
        try:
            with open("/proc/%d/stat" % self.pid, "rb") as f:
                return f.read().rsplit(b")", 1)[1].split()[0].decode()
        except OSError:
            return None

    def until_state(self, want, limit=SLACK):
        end = time.monotonic() + limit
        while time.monotonic() < end:
            if self.state() == want:
                return
            time.sleep(0.002)
        raise RuntimeError("C15 live: child %d did not reach state %r (is %r)" % (self.pid, want, self.state()))

    def cleanup(self):
        try:
            os.close(self._w)
        except OSError:
            pass
        try:
            os.kill(self.pid, signal.SIGKILL)
        except OSError:
            pass
        try:
            os.waitpid(self.pid, 0)
        except OSError:
            pass


class Grandchild:
    """a process that is NOT our child: helper H (our child) forks G and reaps it when it ends"""

    def __init__(self, delay):
        g_r, g_w = os.pipe()      # we -> G: go
        p_r, p_w = os.pipe()      # H -> we: G's pid, then b"r" once G has been reaped
        h_r, h_w = os.pipe()      # we -> H: finish
        h = os.fork()
        if h == 0:
            try:
                signal.alarm(0)
                os.close(p_r)
                os.close(h_w)
                g = os.fork()
                if g == 0:
                    try:
                        os.close(g_w)
                        os.close(p_w)
                        os.close(h_r)
                        os.read(g_r, 1)
                        time.sleep(delay)
                    finally:
                        os._exit(0)
                os.close(g_r)
                os.close(g_w)
                os.write(p_w, b"%d\n" % g)
                os.waitpid(g, 0)
                os.write(p_w, b"r")
                os.read(h_r, 1)
            finally:
                os._exit(0)
        os.close(g_r)
        os.close(p_w)
        os.close(h_r)
        self.h, self._gw, self._pr, self._hw, self.delay, self.t_go = h, g_w, p_r, h_w, delay, None
        buf = b""
        while not buf.endswith(b"\n"):
            buf += os.read(p_r, 1)
        self.pid = int(buf)

    def go(self):
        self.t_go = time.monotonic()
        os.write(self._gw, b"g")

    def ended_not_before(self):
        return self.t_go + self.delay

    def until_reaped(self, limit=SLACK):
        if not select.select([self._pr], [], [], limit)[0]:
            raise RuntimeError("C15 live: helper did not reap the grandchild")
        os.read(self._pr, 1)

    def cleanup(self):
        for fd in (self._gw, self._hw, self._pr):
            try:
                os.close(fd)
            except OSError:
                pass
        for pid in (self.pid, self.h):
            try:
                os.kill(pid, signal.SIGKILL)
            except OSError:
                pass
        try:
            os.waitpid(self.h, 0)
        except OSError:
            pass


# ------------------------------------------------------------------ (1) the kernel transcript
def k_waitpid(pid, flags):
    try:
        r, st = os.waitpid(pid, flags)
    except ChildProcessError:
        return T("Echild")
    except InterruptedError:
        return T("Eintr")
    return T("Running") if r == 0 else T("Status", st)


def k_exists(pid):
    try:
        os.kill(pid, 0)
    except ProcessLookupError:
        return False
    except PermissionError:
        return True
    return True


def _expect(what, got, want):
    if got != want:
        raise RuntimeError("C15 live: the running kernel disagrees with coq/C15/Spec.v in situation %s: real %r, model %r"
                           % (what, got, want))


def run_probe(name, virt, coq, env):
    """coq["probes"] = model answers [nohang, blocking, exists, word, decoded] for: running, ended (unreaped), reaped;
    for a signal death the word is given for both values of the core flag"""
    pr = coq["probes"]
    running, ended, reaped = pr["running"], pr["ended"], pr["reaped"]
    st = virt["proc"]["status"]
    kind = virt["proc"]["kind"]
    seen = []
    if kind == "never":
        c = Child(["code", 0])
        c.go()
        os.waitpid(c.pid, 0)               # a PID that was just freed: nobody holds it now
        c.cleanup()
        _expect("never-existed/waitpid(WNOHANG)", k_waitpid(c.pid, os.WNOHANG), running[0])
        _expect("never-existed/waitpid(0)", k_waitpid(c.pid, 0), running[1])
        _expect("never-existed/kill(pid,0)", k_exists(c.pid), running[2])
        return {"cats": [], "fails": [], "seen": ["never"]}
    if kind == "nonchild":
        g = Grandchild(0.05)
        try:
            _expect("non-child running/waitpid(WNOHANG)", k_waitpid(g.pid, os.WNOHANG), running[0])
            _expect("non-child running/waitpid(0)", k_waitpid(g.pid, 0), running[1])
            _expect("non-child running/kill(pid,0)", k_exists(g.pid), running[2])
            g.go()
            g.until_reaped()
            _expect("non-child gone/waitpid(WNOHANG)", k_waitpid(g.pid, os.WNOHANG), ended[0])
            _expect("non-child gone/kill(pid,0)", k_exists(g.pid), ended[2])
        finally:
            g.cleanup()
        return {"cats": [], "fails": [], "seen": ["nonchild"]}
    c = Child(st, 0.1 if name == "probe-exit1" else 0.0, core_dir=env["work"])
    try:
        _expect("child running/waitpid(WNOHANG)", k_waitpid(c.pid, os.WNOHANG), running[0])
        _expect("child running/kill(pid,0)", k_exists(c.pid), running[2])
        if name == "probe-stopped":
            os.kill(c.pid, signal.SIGSTOP)
            c.until_state("T")
            # waitpid without WUNTRACED does not report the stop: still "running"
            _expect("child stopped/waitpid(WNOHANG)", k_waitpid(c.pid, os.WNOHANG), running[0])
            _expect("child stopped/kill(pid,0)", k_exists(c.pid), running[2])
            os.kill(c.pid, signal.SIGCONT)
        if name == "probe-exit1":
            # a blocking waitpid entered while the child runs returns its status once it has ended
            c.go()
            got = k_waitpid(c.pid, 0)
            if time.monotonic() < c.ended_not_before() - 0.001:
                raise RuntimeError("C15 live: blocking waitpid returned before the child could have ended")
            _expect("child running/waitpid(0)", got, running[1])
            word = got["a"][0]
        else:
            c.go()
            c.until_state("Z")
            _expect("zombie/kill(pid,0)", k_exists(c.pid), ended[2])
            got = k_waitpid(c.pid, os.WNOHANG)
            if got.get("t") != "Status":
                _expect("zombie/waitpid(WNOHANG)", got, ended[0])
            word = got["a"][0]
        # the status word: the spec's printer k_status must reprint it (core flag as observed)
        words = pr["words"]          # for a signal: [word without core flag, word with core flag]
        if word not in words:
            raise RuntimeError("C15 live: real status word %d for %r, Spec.k_status prints %r" % (word, st, words))
        if st[0] == "sig" and len(st) > 2 and st[2] and word == words[0]:
            seen.append("no core dump in this environment")
        _expect("reaped/waitpid(WNOHANG)", k_waitpid(c.pid, os.WNOHANG), reaped[0])
        _expect("reaped/waitpid(0)", k_waitpid(c.pid, 0), reaped[1])
        _expect("reaped/kill(pid,0)", k_exists(c.pid), reaped[2])
        # decoding: the real macros on the real word vs the model's decode_status
        dec = os.WEXITSTATUS(word) if os.WIFEXITED(word) else -os.WTERMSIG(word)
        if T("Int", dec) != pr["decoded"]:
            raise RuntimeError("C15 live: os.W* decode %d to %d, model %r" % (word, dec, pr["decoded"]))
    finally:
        c.cleanup()
    return {"cats": [], "fails": [], "seen": seen}


# ------------------------------------------------------------------ (2) the real psutil in real time
def _real_psutil():
    import psutil
    psutil.PROCFS_PATH = "/proc"
    psutil._pslinux.BOOT_TIME = None
    try:
        psutil._pmap.clear()
        psutil._pids_reused.clear()
    except Exception:
        pass
    return psutil


def _timed(fn):
    from props._c15_vk import _res
    t0 = time.monotonic()
    r = _res(fn)
    return r, t0, time.monotonic()


def _judge(fails, i, res, t0, t1, tm, expect, not_before):
    """expect: 'timeout' | ('int', v) | 'none'; tm: the timeout given (None = blocking)"""
    c = cat(res)
    if expect == "timeout":
        if c != T("Timeout"):
            fails.append("op %d: process alive for the whole timeout, got %r" % (i, res))
        elif t1 - t0 < tm - 0.002 or t1 - t0 > tm + 0.04 + SLACK:
            fails.append("op %d: TimeoutExpired after %.3f s for timeout %s" % (i, t1 - t0, tm))
        return
    want = T("Int", expect[1]) if isinstance(expect, tuple) else None
    if c != want:
        fails.append("op %d: got %r, expected %r" % (i, res, want))
    if not_before is not None and t1 < not_before - 0.002:
        fails.append("op %d: returned %.3f s before the process could have ended" % (i, not_before - t1))
    if tm is not None and t1 - t0 > tm + 0.04 + SLACK:
        fails.append("op %d: took %.3f s" % (i, t1 - t0))


def _code(st):
    return st[1] if st[0] == "code" else -st[1]


def run_wait(name, virt, env):
    psutil = _real_psutil()
    from psutil import _psposix
    st = virt["proc"]["status"]
    fails, cats = [], []

    def step(i, fn, tm, expect, nb=None):
        r, t0, t1 = _timed(fn)
        cats.append(cat(r))
        _judge(fails, i, r, t0, t1, tm, expect, nb)

    if name == "wait-never-existed":
        c = Child(["code", 0])
        c.go()
        os.waitpid(c.pid, 0)
        c.cleanup()
        step(0, lambda: _psposix.wait_pid(c.pid), None, "none")
        step(1, lambda: _psposix.wait_pid(c.pid, 0.2), 0.2, "none")
        return {"cats": cats, "fails": fails}
    if name == "wait-nonchild":
        g = Grandchild(0.1)
        try:
            p = psutil.Process(g.pid)
            step(0, lambda: p.wait(0.2), 0.2, "timeout")
            g.go()
            step(1, lambda: p.wait(LONG), LONG, "none", g.ended_not_before())
        finally:
            g.cleanup()
        return {"cats": cats, "fails": fails}
    delay = {"wait-zombie": 0.0, "wait-reaped-behind-back": 0.0}.get(name, 0.1)
    c = Child(st, delay, core_dir=env["work"])
    try:
        p = psutil.Process(c.pid)
        v = ("int", _code(st))
        if name == "wait-exit0-cached":
            c.go()
            step(0, lambda: p.wait(), None, v, c.ended_not_before())
            step(1, lambda: p.wait(0), 0, v)
            step(2, lambda: p.wait(), None, v)
        elif name in ("wait-exit255-timeout", "wait-sigkill", "wait-sigsegv-core"):
            if name == "wait-sigkill":
                c.t_go, c.delay = time.monotonic(), 0.0
                p.kill()
            else:
                c.go()
            step(0, lambda: p.wait(LONG), LONG, v, c.ended_not_before())
        elif name == "wait-sigusr1":
            c.go()
            step(0, lambda: p.wait(), None, v, c.ended_not_before())
        elif name == "wait-timeout-then-term":
            step(0, lambda: p.wait(0.2), 0.2, "timeout")
            c.t_go, c.delay = time.monotonic(), 0.0
            p.terminate()
            step(1, lambda: p.wait(LONG), LONG, v, c.ended_not_before())
        elif name == "wait-stopped-continued":
            p.suspend()
            c.until_state("T")
            step(0, lambda: p.wait(0.2), 0.2, "timeout")       # stopped is not ended
            p.resume()
            c.go()
            step(1, lambda: p.wait(LONG), LONG, v, c.ended_not_before())
        elif name == "wait-zombie":
            c.go()
            c.until_state("Z")
            step(0, lambda: p.wait(0), 0, v)
            step(1, lambda: p.wait(0), 0, v)
        elif name == "wait-reaped-behind-back":
            c.go()
            os.waitpid(c.pid, 0)                               # somebody else collects the status
            step(0, lambda: p.wait(5), 5, "none")
            step(1, lambda: p.wait(), None, "none")
        else:
            raise ValueError(name)
    finally:
        c.cleanup()
    return {"cats": cats, "fails": fails}


def run_popen(name, virt, env):
    psutil = _real_psutil()
    st = virt["proc"]["status"]
    v = _code(st)
    script = {"popen-poll-exit0": "exit 0", "popen-communicate-exit3": "sleep 0.1; exit 3",
              "popen-wait-first-sigkill": "sleep 0.1; kill -KILL $$", "popen-context-exit0": "sleep 0.1; exit 0"}[name]
    fails, cats = [], []
    t_spawn = time.monotonic()
    p = psutil.Popen(["/bin/sh", "-c", script])
    try:
        def sub(i, rc):
            rc = None if rc is None else int(rc)
            cats.append(rc)
            if rc != v:
                fails.append("op %d: subprocess side collected %r, expected %d" % (i, rc, v))

        def step(i, fn, tm):
            r, t0, t1 = _timed(fn)
            cats.append(cat(r))
            _judge(fails, i, r, t0, t1, tm, ("int", v), None)

        if name == "popen-poll-exit0":
            end = time.monotonic() + SLACK
            while p.poll() is None and time.monotonic() < end:
                time.sleep(0.005)
            sub(0, p.returncode)
            step(1, lambda: p.wait(5), 5)
            step(2, lambda: p.wait(), None)
        elif name == "popen-communicate-exit3":
            p.communicate()
            sub(0, p.returncode)
            step(1, lambda: p.wait(0), 0)
        elif name == "popen-wait-first-sigkill":
            step(0, lambda: p.wait(LONG), LONG)
            if time.monotonic() < t_spawn + 0.1 - 0.002:
                fails.append("op 0: returned before the child could have ended")
            sub(1, p.poll())
            step(2, lambda: p.wait(0), 0)
        else:
            with p:
                pass
            sub(0, p.returncode)
            step(1, lambda: p.wait(1), 1)
    finally:
        try:
            p.kill()
        except Exception:
            pass
        try:
            os.waitpid(p.pid, 0)
        except OSError:
            pass
    return {"cats": cats, "fails": fails}


def run_procs(name, virt, env):
    psutil = _real_psutil()
    sts = [p["status"] for p in virt["procs"]]
    cs = [Child(sts[0], 0.0), Child(sts[1], 0.2), Child(sts[2], 0.0)]
    fails = []
    try:
        objs = [psutil.Process(c.pid) for c in cs]
        cs[0].go()
        cs[0].until_state("Z")
        called = []
        cs[1].go()
        t0 = time.monotonic()
        gone, alive = psutil.wait_procs(objs, timeout=1.5, callback=lambda pr: called.append(pr.pid))
        t1 = time.monotonic()
        idx = {c.pid: i for i, c in enumerate(cs)}
        g = sorted(idx[o.pid] for o in gone)
        a = sorted(idx[o.pid] for o in alive)
        rc = sorted([idx[o.pid], T("Int", int(o.returncode)) if o.returncode is not None else None]
                    for o in objs if "returncode" in vars(o))
        if g != [0, 1] or a != [2]:
            fails.append("gone %r alive %r, expected [0, 1] / [2]" % (g, a))
        if rc != [[0, T("Int", _code(sts[0]))], [1, T("Int", _code(sts[1]))]]:
            fails.append("returncodes %r" % (rc,))
        if sorted(idx[x] for x in called) != g:
            fails.append("callbacks %r for gone %r" % (called, g))
        if t1 - t0 < 1.5 - 0.002 or t1 - t0 > 1.5 + 0.04 + SLACK:
            fails.append("wait_procs(timeout=1.5) with a survivor returned after %.3f s" % (t1 - t0))
        if t1 < cs[1].ended_not_before() - 0.002:
            fails.append("returned before process 1 could have ended")
        return {"cats": [None, g, a, rc], "fails": fails}
    finally:
        for c in cs:
            c.cleanup()


def run(case, coq, env):
    name = case["scenario"]
    group, virt = SCEN[name]
    if group == "probe":
        return run_probe(name, virt, coq, env)
    if group == "wait":
        return run_wait(name, virt, env)
    if group == "popen":
        return run_popen(name, virt, env)
    return run_procs(name, virt, env)
