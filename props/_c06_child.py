"""C06 child interpreter: started by the worker with a chosen locale environment so that
sys.getfilesystemencoding() is the one under test (it is fixed at interpreter start and cannot be
patched in-process). Line protocol on stdin/stdout (JSON, ASCII only):
  first line out: {"enc":..., "errs":..., "file": psutil.__file__}
  request  {"root": fake procfs, "pid": n}  ->  {"ok": [code points], "fsencode": hex | "fsencode_err": cls} | {"exc": cls}"""
import json
import os
import sys


def main():
    import psutil
    from pv.canon import exc_name
    print(json.dumps({"enc": sys.getfilesystemencoding(), "errs": sys.getfilesystemencodeerrors(),
                      "file": psutil.__file__}), flush=True)
    for line in sys.stdin:
        req = json.loads(line)
        psutil.PROCFS_PATH = req["root"]
        psutil._pslinux.BOOT_TIME = None
        try:
            r = psutil.Process(req["pid"]).name()
            out = {"ok": [ord(c) for c in r]}
            try:
                out["fsencode"] = os.fsencode(r).hex()
            except Exception as e:  # noqa
                out["fsencode_err"] = exc_name(e)
        except BaseException as e:  # noqa
            if isinstance(e, (KeyboardInterrupt, SystemExit)):
                raise
            out = {"exc": exc_name(e)}
        print(json.dumps(out), flush=True)


if __name__ == "__main__":
    main()
