"""C18 helpers: the simulated kernel behind psutil's native calls (Python twin of
coq/C18/Kernel.v plus the argument conversion of the C wrappers / CPython's
resource.prlimit), and the live-kernel accessors (raw syscalls)."""
import errno
import os
import re

RLIM_NLIMITS = 16
INT_MIN, INT_MAX = -2 ** 31, 2 ** 31 - 1
LONG_MIN, LONG_MAX = -2 ** 63, 2 ** 63 - 1


class OutOfModel(Exception):
    """Raised by a stub for inputs the model does not cover (C undefined behaviour)."""


def _oserr(e):
    return OSError(e, os.strerror(e))


def _c_int(v):
    """PyArg_ParseTuple "i"."""
    if isinstance(v, float):
        raise TypeError("integer argument expected, got float")
    try:
        v = v.__index__()
    except AttributeError:
        raise TypeError("an integer is required")
    if v < INT_MIN or v > INT_MAX:
        raise OverflowError("signed integer is out of range")
    return v


def u64(v):
    return v + 2 ** 64 if v < 0 else v


def rlim2py(u):
    return u - 2 ** 64 if u >= 2 ** 63 else u


ROOT_CAPS = {"nice": True, "admin": True, "resource": True}


def normalise(case):
    """Defaults for the kernel parameters (older corpus files) and limits as rlim_t (unsigned)."""
    case.setdefault("caps", dict(ROOT_CAPS))
    case.setdefault("nr_open", 1048576)
    case.setdefault("ioget_eff", False)
    for p in case.get("procs", []):
        p["rlim"] = [[u64(a), u64(b)] for a, b in p["rlim"]]
    return case


def reported_ioprio(eff, raw, nice):
    """what ioprio_get reports (kernels >= 5.18: effective class for a stored NONE)"""
    if eff and (raw >> 13) == 0:
        return (2 << 13) + (nice + 20) // 5
    return raw


def cpulist(mask):
    """kernel "%*pbl" format of an ascending id list."""
    out, i = [], 0
    mask = list(mask)
    while i < len(mask):
        j = i
        while j + 1 < len(mask) and mask[j + 1] == mask[j] + 1:
            j += 1
        out.append(str(mask[i]) if i == j else "%d-%d" % (mask[i], mask[j]))
        i = j + 1
    return ",".join(out)


class SimKernel:
    def __init__(self, case):
        self.ncpu = case["ncpu"]
        self.nr = case["nr"]
        self.caps = case["caps"]
        self.nr_open = case["nr_open"]
        self.eff = case["ioget_eff"]
        self.order = [p["pid"] for p in case["procs"]]
        self.procs = {p["pid"]: {"nice": p["nice"], "ioprio": p["ioprio"], "mask": list(p["mask"]), "elig": list(p["elig"]),
                                 "rlim": [list(x) for x in p["rlim"]]} for p in case["procs"]}
        self.log = []
        self.pids = []

    def dump(self):
        return [[pid, p["nice"], reported_ioprio(self.eff, p["ioprio"], p["nice"]), list(p["mask"]), list(p["elig"]),
                 [list(x) for x in p["rlim"]]]
                for pid, p in ((q, self.procs[q]) for q in self.order)]

    def _p(self, pid):
        self.pids.append(pid)          # every pid argument a native call was made with
        if pid not in self.procs:
            raise _oserr(errno.ESRCH)
        return self.procs[pid]

    # ---- _psutil_posix
    def getpriority(self, pid):
        return self._p(pid)["nice"]

    def setpriority(self, pid, value):
        value = _c_int(value)
        p = self._p(pid)
        self.log.append(("setpriority", pid, value))
        n = max(-20, min(19, value))
        if n < p["nice"] and not (self.caps["nice"] or 20 - n <= p["rlim"][13][0]):
            raise _oserr(errno.EACCES)
        p["nice"] = n

    # ---- _psutil_linux
    def proc_ioprio_get(self, pid):
        p = self._p(pid)
        raw = reported_ioprio(self.eff, p["ioprio"], p["nice"])
        return (raw >> 13, raw & 0x1FFF)

    def proc_ioprio_set(self, pid, ioclass, iodata):
        ioclass, iodata = _c_int(ioclass), _c_int(iodata)
        raw = (((ioclass % 2 ** 32) << 13) % 2 ** 32) | (iodata % 2 ** 32)   # unsigned shift (a87b45e)
        if raw >= 2 ** 31:
            raw -= 2 ** 32
        p = self._p(pid)
        self.log.append(("ioprio_set", pid, raw))
        cls, data = raw >> 13, raw & 0x1FFF
        if cls == 1 and not (self.caps["admin"] or self.caps["nice"]):
            raise _oserr(errno.EPERM)
        ok = (data < 8) if cls in (1, 2) else True if cls == 3 else (data == 0) if cls == 0 else False
        if not ok:
            raise _oserr(errno.EINVAL)
        p["ioprio"] = raw

    def proc_cpu_affinity_get(self, pid):
        return list(self._p(pid)["mask"])

    def proc_cpu_affinity_set(self, pid, cpus):
        if not hasattr(cpus, "__getitem__") or not hasattr(cpus, "__len__"):
            raise TypeError("sequence argument expected, got %r" % type(cpus))
        bits = set()
        for item in cpus:
            try:
                v = item.__index__()
            except AttributeError:
                raise TypeError("%r object cannot be interpreted as an integer" % type(item).__name__)
            if v < LONG_MIN or v > LONG_MAX:
                raise OverflowError("Python int too large to convert to C long")
            if v == -1:
                raise ValueError("invalid CPU value")
            if 0 <= v < 1024:
                bits.add(v)
        p = self._p(pid)
        self.log.append(("sched_setaffinity", pid, sorted(bits)))
        new = [c for c in p["elig"] if c in bits]
        if not new:
            raise _oserr(errno.EINVAL)
        p["mask"] = new

    # ---- resource.prlimit (CPython's argument rules over prlimit(2))
    def prlimit(self, pid, res, limits=None):
        pid = _c_int(pid)
        res = _c_int(res)
        if res < 0 or res >= RLIM_NLIMITS:
            raise ValueError("invalid resource specified")
        if limits is not None:
            lim = tuple(limits)
            if len(lim) != 2:
                raise ValueError("expected a tuple of 2 integers")
            vals = []
            for x in lim:
                x = x.__index__()
                if x < LONG_MIN or x > LONG_MAX:
                    raise OverflowError("Python int too large to convert to C long")
                vals.append(x)
        p = self._p(pid)
        old = tuple(rlim2py(x) for x in p["rlim"][res])
        if limits is not None:
            self.log.append(("prlimit", pid, res, vals))
            soft, hard = u64(vals[0]), u64(vals[1])
            if soft > hard:
                raise ValueError("current limit exceeds maximum limit")      # EINVAL
            if res == 7 and hard > self.nr_open:
                raise _oserr(errno.EPERM)
            if hard > p["rlim"][res][1] and not self.caps["resource"]:
                raise _oserr(errno.EPERM)
            p["rlim"][res] = [soft, hard]
        return old


# ---------------------------------------------------------------- live kernel
NR_IOPRIO_SET, NR_IOPRIO_GET = 251, 252   # x86_64
_libc = None


def libc():
    global _libc
    if _libc is None:
        import ctypes
        _libc = ctypes.CDLL(None, use_errno=True)
    return _libc


def raw_ioprio_get(pid):
    import ctypes
    r = libc().syscall(NR_IOPRIO_GET, 1, pid)
    if r == -1:
        raise _oserr(ctypes.get_errno())
    return r


def raw_ioprio_set(pid, raw):
    import ctypes
    r = libc().syscall(NR_IOPRIO_SET, 1, pid, raw)
    if r == -1:
        raise _oserr(ctypes.get_errno())
