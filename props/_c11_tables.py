"""C11 -- table translator: dumps TCP_STATUSES, NetConnections.tmap, conn_tmap and the socket constants of the
psutil found in <impl_dir> into coq/Gen/C11_Tables.v (Gallina literals). Fail-closed: a missing or reshaped table
raises. The dump script runs in a subprocess with PYTHONPATH=<impl_dir>."""
import json
import os
import subprocess

PY = "/venv/bin/python"

DUMP = r'''
import json, socket, sys
import psutil
from psutil import _pslinux, _common
nc = _pslinux.NetConnections()
def fam(x): return int(x)
def typ(x): return None if x is None else int(x)
out = {
  "file": psutil.__file__,
  "consts": {"AF_UNIX": int(socket.AF_UNIX), "AF_INET": int(socket.AF_INET), "AF_INET6": int(socket.AF_INET6),
             "SOCK_STREAM": int(socket.SOCK_STREAM), "SOCK_DGRAM": int(socket.SOCK_DGRAM),
             "SOCK_SEQPACKET": int(socket.SOCK_SEQPACKET)},
  "CONN_NONE": _common.CONN_NONE,
  "tcp_statuses": [[k, str(v)] for k, v in _pslinux.TCP_STATUSES.items()],
  "tmap": [[k, [[p[0], fam(p[1]), typ(p[2])] for p in v]] for k, v in nc.tmap.items()],
  "conn_tmap": [[k, [[fam(f) for f in v[0]], [int(t) for t in v[1]]]] for k, v in _common.conn_tmap.items()],
  # are the family / type objects stored in tmap IntEnum members (they are yielded as they are)?
  "tmap_enums": all(isinstance(p[1], socket.AddressFamily) and (p[2] is None or isinstance(p[2], socket.SocketKind))
                    for v in nc.tmap.values() for p in v),
  "socket_kinds": sorted(int(m) for m in socket.SocketKind),
  "address_families": sorted(int(m) for m in socket.AddressFamily),
  "conn_constants": sorted(v for k, v in vars(_common).items() if k.startswith("CONN_") and isinstance(v, str)),
}
json.dump(out, sys.stdout)
'''


FORK_SCAN = r'''
import ast, json, sys, threading
import psutil
from psutil import _pslinux
src = open(_pslinux.__file__.replace(".pyc", ".py")).read()
tree = ast.parse(src)
SYNC = ("Lock", "RLock", "Condition", "Semaphore", "BoundedSemaphore", "Event", "Barrier")

def is_sync_call(node):
    if not isinstance(node, ast.Call):
        return False
    f = node.func
    name = f.attr if isinstance(f, ast.Attribute) else getattr(f, "id", None)
    return name in SYNC

classes = {n.name: n for n in tree.body if isinstance(n, ast.ClassDef)}
# module-level singletons: NAME = SomeClassOfThisModule(...)
singletons = {}
module_sync = []
for n in tree.body:
    if isinstance(n, ast.Assign) and len(n.targets) == 1 and isinstance(n.targets[0], ast.Name):
        name = n.targets[0].id
        if is_sync_call(n.value):
            module_sync.append(name)
        elif isinstance(n.value, ast.Call) and isinstance(n.value.func, ast.Name) and n.value.func.id in classes:
            singletons[name] = n.value.func.id
# which singletons does the net_connections code use?  (module function net_connections and Process.net_connections)
def names_used(fn):
    return {x.id for x in ast.walk(fn) if isinstance(x, ast.Name)}
used = set()
for n in tree.body:
    if isinstance(n, ast.FunctionDef) and n.name == "net_connections":
        used |= names_used(n)
    if isinstance(n, ast.ClassDef) and n.name == "Process":
        for m in n.body:
            if isinstance(m, ast.FunctionDef) and m.name == "net_connections":
                used |= names_used(m)
entries, mutable = [], []
for name, cls in singletons.items():
    if name not in used:
        continue
    for m in ast.walk(classes[cls]):
        if isinstance(m, ast.Assign):
            for t in m.targets:
                if isinstance(t, ast.Attribute) and isinstance(t.value, ast.Name) and t.value.id == "self":
                    full = "%s.%s" % (name, t.attr)
                    if is_sync_call(m.value):
                        if full not in entries:
                            entries.append(full)
                    elif full not in mutable:
                        mutable.append(full)
# module-level sync objects referenced by the classes of the used singletons or by net_connections itself
for nm in module_sync:
    refs = set(used)
    for name, cls in singletons.items():
        if name in used:
            refs |= names_used(classes[cls])
    if nm in refs:
        entries.append(nm)
# what an os.register_at_fork(after_in_child=...) handler re-creates
reinit = set()
funcs = {n.name: n for n in tree.body if isinstance(n, ast.FunctionDef)}
for n in ast.walk(tree):
    if isinstance(n, ast.Call) and (getattr(n.func, "attr", None) == "register_at_fork" or getattr(n.func, "id", None) == "register_at_fork"):
        for kw in n.keywords:
            if kw.arg == "after_in_child":
                h = kw.value
                body = funcs.get(h.id) if isinstance(h, ast.Name) else h
                if body is None:
                    continue
                for a in ast.walk(body):
                    if isinstance(a, ast.Assign):
                        for t in a.targets:
                            reinit.add(ast.unparse(t))
# cross-check with the running objects: every lock-like attribute of the live singletons must have been seen
lock_types = (type(threading.Lock()), type(threading.RLock()), threading.Condition, threading.Semaphore, threading.Event)
for name in singletons:
    if name in used:
        obj = getattr(_pslinux, name)
        for k, v in vars(obj).items():
            if isinstance(v, lock_types) and "%s.%s" % (name, k) not in entries:
                entries.append("%s.%s" % (name, k))
out = {"sync": [[e, (e in reinit) or (e.split(".")[0] in reinit)] for e in entries], "mutable": mutable,
       "singletons": sorted(n for n in singletons if n in used)}
json.dump(out, sys.stdout)
'''


def _by(s):
    return "[" + ";".join(str(b) for b in s.encode()) + "]"


def dump(impl_dir):
    env = dict(os.environ)
    env["PYTHONPATH"] = impl_dir
    env["PYTHONDONTWRITEBYTECODE"] = "1"
    r = subprocess.run([PY, "-c", DUMP], env=env, stdout=subprocess.PIPE, stderr=subprocess.PIPE, text=True, timeout=120,
                       cwd=impl_dir)
    if r.returncode != 0:
        raise RuntimeError("C11 table dump failed:\n" + r.stderr[-2000:])
    d = json.loads(r.stdout)
    r2 = subprocess.run([PY, "-c", FORK_SCAN], env=env, stdout=subprocess.PIPE, stderr=subprocess.PIPE, text=True, timeout=120,
                        cwd=impl_dir)
    if r2.returncode != 0:
        raise RuntimeError("C11 fork-state scan failed:\n" + r2.stderr[-2000:])
    d["fork"] = json.loads(r2.stdout)
    if not os.path.realpath(d["file"]).startswith(os.path.realpath(impl_dir)):
        raise RuntimeError("C11 table dump imported psutil from %s, expected under %s" % (d["file"], impl_dir))
    return d


def render(d):
    c = d["consts"]
    L = ["(* GENERATED by props/_c11_tables.py from the psutil source tree (TCP_STATUSES, NetConnections.tmap,",
         "   _common.conn_tmap, socket constants) -- do not edit; rewritten when the code's tables change. *)",
         "From PV Require Import Base.Bytes.", ""]
    for k in ("AF_UNIX", "AF_INET", "AF_INET6", "SOCK_STREAM", "SOCK_DGRAM", "SOCK_SEQPACKET"):
        L.append("Definition %s : Z := %d." % (k, c[k]))
    L.append("Definition CONN_NONE : bytes := %s. (* %s *)" % (_by(d["CONN_NONE"]), d["CONN_NONE"]))
    L.append("")
    L.append("(* _pslinux.TCP_STATUSES : hex code -> name *)")
    L.append("Definition gen_tcp_statuses : list (bytes * bytes) :=\n  [ " + ";\n    ".join(
        "(%s, %s) (* %s -> %s *)" % (_by(k), _by(v), k, v) for k, v in d["tcp_statuses"]) + " ].")
    L.append("")
    L.append("(* NetConnections().tmap : kind -> (proc file, family, type or None) *)")
    rows = []
    for k, ps in d["tmap"]:
        ents = "; ".join("(%s, %d, %s)" % (_by(p[0]), p[1], "None" if p[2] is None else "Some %d" % p[2]) for p in ps)
        rows.append("(%s, [%s]) (* %s: %s *)" % (_by(k), ents, k, " ".join(p[0] for p in ps)))
    L.append("Definition gen_tmap : list (bytes * list (bytes * Z * option Z)) :=\n  [ " + ";\n    ".join(rows) + " ].")
    L.append("")
    L.append("(* _common.conn_tmap : kind -> (families, types) *)")
    rows = []
    for k, (fs, ts) in d["conn_tmap"]:
        rows.append("(%s, ([%s], [%s])) (* %s *)" % (_by(k), ";".join(map(str, fs)), ";".join(map(str, ts)), k))
    L.append("Definition gen_conn_tmap : list (bytes * (list Z * list Z)) :=\n  [ " + ";\n    ".join(rows) + " ].")
    L.append("")
    L.append("(* the family / type objects held by tmap are socket.AddressFamily / socket.SocketKind members *)")
    L.append("Definition gen_tmap_enums : bool := %s." % ("true" if d["tmap_enums"] else "false"))
    L.append("(* values of the members of socket.SocketKind / socket.AddressFamily: what socktype_to_enum / sockfam_to_enum know *)")
    L.append("Definition gen_socket_kinds : list Z := [%s]." % ";".join(map(str, d["socket_kinds"])))
    L.append("Definition gen_address_families : list Z := [%s]." % ";".join(map(str, d["address_families"])))
    f = d["fork"]
    L.append("(* process-wide state used by net_connections() that os.fork() copies into the child (ast of _pslinux.py + the live")
    L.append("   objects): module-level singletons %s, their plain attributes %s;" % (", ".join(f["singletons"]) or "-", ", ".join(f["mutable"]) or "-"))
    L.append("   synchronisation objects among them, each with: is it re-created by an os.register_at_fork(after_in_child=...) handler *)")
    L.append("Definition gen_fork_sync : list (bytes * bool) :=\n  [ " + ";\n    ".join(
        "(%s, %s) (* %s *)" % (_by(n), "true" if b else "false", n) for n, b in f["sync"]) + " ].")
    L.append("(* psutil._common.CONN_* *)")
    L.append("Definition gen_conn_constants : list bytes :=\n  [ " + ";\n    ".join("%s (* %s *)" % (_by(v), v) for v in d["conn_constants"]) + " ].")
    L.append("")
    return "\n".join(L)


def gen_tables(impl_dir, out_dir):
    txt = render(dump(impl_dir))
    os.makedirs(out_dir, exist_ok=True)
    p = os.path.join(out_dir, "C11_Tables.v")
    old = open(p).read() if os.path.exists(p) else None
    if old != txt:
        tmp = p + ".tmp.%d" % os.getpid()
        with open(tmp, "w") as f:
            f.write(txt)
        os.replace(tmp, p)
    return p
