"""C03 'live native' cases: the REAL C extension (scratch build) against REAL child processes.

One sleeping child per worker; the worker (root) sets the child's nice value with os.setpriority, performs a chosen
FAILING call in the same thread (so that the thread's C errno is whatever that failure left), then queries the child
through the public psutil API over the real /proc.  Ground truth: os.getpriority (CPython's own, errno-safe wrapper).
"""
import atexit
import errno
import os
import subprocess
import sys

_state = {}

PRIORS = ("none", "kill_dead", "stat_missing", "psutil_dead", "cext_dead", "readlink_missing")
PRIOR_ERRNO = {"none": 0, "kill_dead": errno.ESRCH, "stat_missing": errno.ENOENT, "psutil_dead": errno.ESRCH,
               "cext_dead": errno.ESRCH, "readlink_missing": errno.ENOENT}


def _setup():
    if _state:
        return _state
    child = subprocess.Popen([sys.executable, "-c", "import time\nprint('r', flush=True)\ntime.sleep(3600)"],
                             stdout=subprocess.PIPE)
    child.stdout.readline()
    dead = subprocess.Popen([sys.executable, "-c", "pass"])
    dead.wait()
    _state.update(child=child, dead=dead.pid)

    def bye():
        try:
            child.kill()
            child.wait(5)
        except Exception:
            pass
    atexit.register(bye)
    return _state


def _fail(prior, psutil, dead):
    """One failing call that leaves its errno in this thread."""
    if prior == "none":
        return
    try:
        if prior == "kill_dead":
            os.kill(dead, 0)
        elif prior == "stat_missing":
            os.stat("/proc/%d/stat" % dead)
        elif prior == "readlink_missing":
            os.readlink("/proc/%d/exe" % dead)
        elif prior == "psutil_dead":
            psutil.Process(dead)                 # NoSuchProcess: an earlier query on a vanished pid
        elif prior == "cext_dead":
            psutil._psplatform.cext_posix.getpriority(dead)
    except (OSError, psutil.Error):
        return
    # the pid was recycled in the meantime: nothing failed, the case is then simply 'none'


def run(case):
    """-> ["val", n] | ["exc", class name] | ["skip", why]"""
    import psutil
    if os.geteuid() != 0 and case["nice"] < 0:
        return ["skip", "negative nice values need root"]
    st = _setup()
    pid = st["child"].pid
    psutil.PROCFS_PATH = "/proc"
    os.setpriority(os.PRIO_PROCESS, pid, case["nice"])
    if os.getpriority(os.PRIO_PROCESS, pid) != case["nice"]:
        return ["skip", "could not set the nice value"]
    via = case["via"]
    p = psutil.Process(pid)
    try:
        if via == "nice":
            _fail(case["prior"], psutil, st["dead"])
            v = p.nice()
        elif via == "as_dict":
            _fail(case["prior"], psutil, st["dead"])
            v = p.as_dict(attrs=["nice"])["nice"]
        else:   # process_iter over the real /proc (its own walk meets vanished pids on a busy machine)
            _fail(case["prior"], psutil, st["dead"])
            v = [x.info["nice"] for x in psutil.process_iter(attrs=["nice", "pid"]) if x.pid == pid]
            v = v[0] if len(v) == 1 else repr(v)
    except BaseException as e:  # noqa
        if isinstance(e, (KeyboardInterrupt, SystemExit)) or type(e).__name__ == "CaseTimeout":
            raise
        return ["exc", type(e).__name__]
    return ["val", v]
