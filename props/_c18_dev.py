"""Development runner for C18: ./vcheck semantics with notes/findings/C18.json merged into the known findings
(until the entries are merged into known_findings.json).  Usage: /venv/bin/python -m props._c18_dev C18 quick"""
import json
import os
import sys

from pv import cli, core

_orig = core.load_findings


def _load(pid):
    known, fixed = _orig(pid)
    p = os.path.join(core.VERIF, "notes", "findings", pid + ".json")
    have = {f["key"] for f in known + fixed}
    if os.path.exists(p):
        for f in json.load(open(p)):
            if f["key"] not in have:
                (known if f["status"] == "known" else fixed).append(f)
    return known, fixed


core.load_findings = _load
if __name__ == "__main__":
    sys.exit(cli.main())
