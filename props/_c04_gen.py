"""C04 translator part (control flow): psutil/__init__.py of the tree under test (ast, no import) ->
Gallina programs of the statement languages of coq/C04/PyGen.v:

  gen_pid_exists     the if / elif / else chain of psutil.pid_exists()
  gen_iter_prologue  process_iter(): from 'pmap = _pmap.copy()' up to 'ls = sorted(...)'
  gen_iter_body      process_iter(): the body of 'for pid, proc in ls:' (one try with its handlers)

FAIL CLOSED: every statement / expression shape that is not listed here raises TranslateError (pv/core.py treats that
as a broken tie).  Shapes are compared on ast.unparse() text, i.e. modulo comments, blank lines, quotes and brackets."""
import ast
import os
import re


class TranslateError(RuntimeError):
    pass


EXN = ("NoSuchProcess", "ZombieProcess", "AccessDenied", "TimeoutExpired", "ValueError", "TypeError", "KeyError",
       "IndexError", "OverflowError", "OSError", "RuntimeError", "NotImplementedError", "AttributeError",
       "ZeroDivisionError")

ADD_SRC = "def add(pid):\n    proc = Process(pid)\n    pmap[proc.pid] = proc\n    return proc"
REMOVE_SRC = "def remove(pid):\n    pmap.pop(pid, None)"
DRAIN_RE = re.compile(
    r"^while _pids_reused:\n"
    r"    try:\n"
    r"        pid = _pids_reused\.pop\(\)\n"
    r"    except KeyError:\n"
    r"        break\n"
    r"(    debug\(.*\)\n)?"
    r"    remove\(pid\)$")


def _u(node):
    return ast.unparse(node)


def _strip_doc(body):
    if body and isinstance(body[0], ast.Expr) and isinstance(body[0].value, ast.Constant) and isinstance(body[0].value.value, str):
        return body[1:]
    return body


def _func(tree, name):
    fs = [n for n in tree.body if isinstance(n, ast.FunctionDef) and n.name == name]
    if len(fs) != 1:
        raise TranslateError("expected exactly one module-level def %s, found %d" % (name, len(fs)))
    f = fs[0]
    if f.decorator_list:
        raise TranslateError("%s: decorated" % name)
    return f


# ------------------------------------------------------------------ pid_exists
def _pe_guard(test):
    t = _u(test)
    if t == "pid < 0":
        return "PELt0"
    if t in ("pid == 0 and POSIX", "POSIX and pid == 0", "pid == 0"):
        return "PEEq0"
    raise TranslateError("pid_exists: guard not understood: " + t)


def _pe_ret(stmts):
    if len(stmts) != 1 or not isinstance(stmts[0], ast.Return) or stmts[0].value is None:
        raise TranslateError("pid_exists: branch is not a single 'return <expr>': " + "; ".join(_u(s) for s in stmts)[:200])
    t = _u(stmts[0].value)
    tab = {"False": "PERetFalse", "True": "PERetTrue", "pid in pids()": "PERetInPids",
           "_psplatform.pid_exists(pid)": "PERetPlat"}
    if t not in tab:
        raise TranslateError("pid_exists: return value not understood: " + t)
    return tab[t]


def tr_pid_exists(tree):
    f = _func(tree, "pid_exists")
    if _u(f.args) != "pid":
        raise TranslateError("pid_exists: unexpected signature (%s)" % _u(f.args))
    rows = []
    body = _strip_doc(f.body)
    while body:
        st = body[0]
        if isinstance(st, ast.If):
            rows.append((_pe_guard(st.test), _pe_ret(st.body)))
            if st.orelse:
                if len(body) != 1:
                    raise TranslateError("pid_exists: statements after an if/else chain")
                body = st.orelse
            else:
                body = body[1:]
        elif isinstance(st, ast.Return):
            rows.append(("PEElse", _pe_ret([st])))
            if len(body) != 1:
                raise TranslateError("pid_exists: statements after the final return")
            body = []
        else:
            raise TranslateError("pid_exists: statement not understood: " + _u(st)[:200])
    return "[" + "; ".join("(%s, %s)" % r for r in rows) + "]"


# ------------------------------------------------------------------ process_iter
def _cond(node):
    t = _u(node)
    if t == "proc is None":
        return "CIsNone"
    if t == "proc._pid_reused":
        return "CPidReused"
    raise TranslateError("process_iter loop: condition not understood: " + t)


def _body_stmt(st):
    """one statement of the try body -> (guard, action)"""
    def act(s):
        t = _u(s)
        if t == "proc = add(pid)":
            return "AAdd"
        if t == "proc.info = proc.as_dict(attrs=attrs, ad_value=ad_value)":
            return "AInfo"
        if t == "yield proc":
            return "AYield"
        raise TranslateError("process_iter loop: statement not understood: " + t[:200])
    if isinstance(st, ast.If):
        if st.orelse or len(st.body) != 1:
            raise TranslateError("process_iter loop: 'if' with else / more than one statement: " + _u(st)[:200])
        if _u(st.test) == "attrs is not None":
            g = "GAttrs"
        elif isinstance(st.test, ast.BoolOp) and isinstance(st.test.op, ast.Or):
            g = "(GAnyOf [%s])" % "; ".join(_cond(v) for v in st.test.values)
        else:
            g = "(GAnyOf [%s])" % _cond(st.test)
        return "(%s, %s)" % (g, act(st.body[0]))
    return "(GAlways, %s)" % act(st)


def _handler(h):
    if h.name is not None or not isinstance(h.type, ast.Name) or h.type.id not in EXN:
        raise TranslateError("process_iter loop: handler not understood: " + _u(h)[:200])
    if len(h.body) != 1:
        raise TranslateError("process_iter loop: handler body has more than one statement")
    t = _u(h.body[0])
    if t == "remove(pid)":
        a = "HRemove"
    elif t == "pass":
        a = "HPass"
    else:
        raise TranslateError("process_iter loop: handler statement not understood: " + t[:200])
    return "(%s, %s)" % (h.type.id, a)


def tr_process_iter(tree):
    f = _func(tree, "process_iter")
    if _u(f.args) != "attrs=None, ad_value=None":
        raise TranslateError("process_iter: unexpected signature (%s)" % _u(f.args))
    body = _strip_doc(f.body)
    if len(body) < 5 or _u(body[0]) != "global _pmap" or _u(body[1]) != ADD_SRC or _u(body[2]) != REMOVE_SRC:
        raise TranslateError("process_iter: expected 'global _pmap' and the helpers add(pid) / remove(pid) in their known form")
    # module-level initial values
    inits = {_u(n) for n in tree.body if isinstance(n, ast.Assign)}
    if "_pmap = {}" not in inits or "_pids_reused = set()" not in inits:
        raise TranslateError("process_iter: module-level '_pmap = {}' / '_pids_reused = set()' not found")
    tail = body[-1]
    if not isinstance(tail, ast.Try) or tail.handlers or tail.orelse or [_u(s) for s in tail.finalbody] != ["_pmap = pmap"]:
        raise TranslateError("process_iter: does not end in 'try: ... finally: _pmap = pmap'")
    var = {}

    def vid(name, define=False):
        if define and name in ("pmap", "pid", "proc", "ls", "attrs", "ad_value", "add", "remove"):
            raise TranslateError("process_iter prologue: set variable shadows a local: " + name)
        if define and name not in var:
            var[name] = len(var)
        if name not in var:
            raise TranslateError("process_iter: set variable %s used before assignment" % name)
        return "%d%%nat" % var[name]

    prog = []
    for st in body[3:-1]:
        t = _u(st)
        if t == "pmap = _pmap.copy()":
            prog.append("PCopy")
        elif (m := re.match(r"^([a-z_]\w*) = set\(pids\(\)\)$", t)):
            prog.append("PSetPids %s" % vid(m.group(1), True))
        elif (m := re.match(r"^([a-z_]\w*) = set\(pmap\.keys\(\)\)$", t)) or (m := re.match(r"^([a-z_]\w*) = set\(pmap\)$", t)):
            prog.append("PSetKeys %s" % vid(m.group(1), True))
        elif (m := re.match(r"^([a-z_]\w*) = ([a-z_]\w*) - ([a-z_]\w*)$", t)):
            x, y = vid(m.group(2)), vid(m.group(3))
            prog.append("PDiff %s %s %s" % (vid(m.group(1), True), x, y))
        elif (m := re.match(r"^for pid in ([a-z_]\w*):\n    remove\(pid\)$", t)):
            prog.append("PForRemove %s" % vid(m.group(1)))
        elif DRAIN_RE.match(t):
            prog.append("PDrainReused")
        else:
            raise TranslateError("process_iter prologue: statement not understood: " + t[:200])
    # the try body: ls = sorted(...); for pid, proc in ls: try: ... except ...: ...
    if len(tail.body) != 2:
        raise TranslateError("process_iter: try body is not 'ls = sorted(...)' followed by the for loop")
    m = re.match(r"^ls = sorted\(list\(pmap\.items\(\)\) \+ list\(dict\.fromkeys\(([a-z_]\w*)\)\.items\(\)\)\)$", _u(tail.body[0]))
    if not m:
        raise TranslateError("process_iter: 'ls = sorted(list(pmap.items()) + list(dict.fromkeys(<new>).items()))' not found: "
                             + _u(tail.body[0])[:200])
    prog.append("PSortedMerge %s" % vid(m.group(1)))
    loop = tail.body[1]
    if not isinstance(loop, ast.For) or loop.orelse or _u(loop.target) != "(pid, proc)" or _u(loop.iter) != "ls":
        raise TranslateError("process_iter: 'for pid, proc in ls:' not found")
    if len(loop.body) != 1 or not isinstance(loop.body[0], ast.Try) or loop.body[0].orelse or loop.body[0].finalbody:
        raise TranslateError("process_iter loop: body is not a single try/except")
    tr = loop.body[0]
    stmts = [_body_stmt(s) for s in tr.body]
    handlers = [_handler(h) for h in tr.handlers]
    return ("[" + ";\n   ".join(prog) + "]",
            "{| b_stmts := [" + ";\n                 ".join(stmts) + "];\n     b_handlers := [" + "; ".join(handlers) + "] |}")


def translate(impl_dir):
    with open(os.path.join(impl_dir, "psutil", "__init__.py"), encoding="utf-8") as f:
        tree = ast.parse(f.read())
    pe = tr_pid_exists(tree)
    prologue, body = tr_process_iter(tree)
    return ("Definition gen_pid_exists : pe_prog :=\n  %s.\n\n"
            "Definition gen_iter_prologue : list pstmt :=\n  %s.\n\n"
            "Definition gen_iter_body : body :=\n  %s.\n" % (pe, prologue, body))


# ------------------------------------------------------------------ _psposix.pid_exists
XCLS = {"ProcessLookupError": "XProcessLookupError", "OverflowError": "XOverflowError",
        "PermissionError": "XPermissionError", "OSError": "XOSError"}


def _ret_bool(stmts, where):
    if len(stmts) != 1 or not isinstance(stmts[0], ast.Return) or _u(stmts[0]) not in ("return True", "return False"):
        raise TranslateError("_psposix.pid_exists: %s is not a single 'return True/False': %s"
                             % (where, "; ".join(_u(s) for s in stmts)[:200]))
    return "true" if _u(stmts[0]) == "return True" else "false"


def tr_posix_pid_exists(tree):
    f = _func(tree, "pid_exists")
    if _u(f.args) != "pid":
        raise TranslateError("_psposix.pid_exists: unexpected signature (%s)" % _u(f.args))
    body = _strip_doc(f.body)
    zero = "None"
    if body and isinstance(body[0], ast.If) and _u(body[0].test) == "pid == 0" and not body[0].orelse:
        zero = "(Some %s)" % _ret_bool(body[0].body, "the pid == 0 branch")
        body = body[1:]
    if not body or not isinstance(body[0], ast.Try) or body[0].finalbody or [_u(s) for s in body[0].body] != ["os.kill(pid, 0)"]:
        raise TranslateError("_psposix.pid_exists: 'try: os.kill(pid, 0)' not found where expected")
    tr = body[0]
    if tr.orelse and len(body) == 1:
        els = _ret_bool(tr.orelse, "the else branch")
    elif not tr.orelse and len(body) == 2:
        els = _ret_bool(body[1:], "the statement after the try")
    else:
        raise TranslateError("_psposix.pid_exists: statements after the try/except/else not understood")
    hs = []
    for h in tr.handlers:
        if h.name is not None or h.type is None:
            raise TranslateError("_psposix.pid_exists: handler not understood: " + _u(h)[:200])
        names = h.type.elts if isinstance(h.type, ast.Tuple) else [h.type]
        if not all(isinstance(n, ast.Name) and n.id in XCLS for n in names):
            raise TranslateError("_psposix.pid_exists: exception class not understood: " + _u(h.type))
        hs.append("([%s], %s)" % ("; ".join(XCLS[n.id] for n in names), _ret_bool(h.body, "a handler")))
    return "{| px_zero := %s;\n     px_handlers := [%s];\n     px_else := %s |}" % (zero, "; ".join(hs), els)


_translate_init = translate


def translate(impl_dir):
    txt = _translate_init(impl_dir)
    with open(os.path.join(impl_dir, "psutil", "_psposix.py"), encoding="utf-8") as f:
        tree = ast.parse(f.read())
    return txt + "\nDefinition gen_posix_pid_exists : px_prog :=\n  %s.\n" % tr_posix_pid_exists(tree)
