"""C03 implementation-side world: fake /proc tree for one target process (three base kinds),
a fault-injecting shim (vanish at access k / deny at access k / base-kind errors), the method
table with value-shape checks, and the runner that drives the REAL psutil through its public API.

Access = one of: open, read (first read/readline/iteration step of a file object returned by a
watched open), readlink, listdir, stat, lstat, sys (a per-process system call made through the C
extension: getpriority, ioprio_get, sched_getaffinity, prlimit).  Every access whose path lies under
the fake procfs root is logged as (kind, path relative to the root) and has an index.
"""
import builtins
import errno
import io
import os
import shutil

from pv.shim import Shim

PID = 4242          # the object's process
PPID = 1            # its parent (init)
CHILD = 5001        # a live child
CHILD2 = 5002       # a second child (a zombie child, as reaped children usually are for a moment)
OTHER = 77          # unrelated process
GRANDCHILD = 5003   # child of CHILD (seen by children(recursive=True))
NAME = b"proc-0123456789"          # 15 bytes: Process.name() consults cmdline()
DEL_FD = "3"                       # live kind: this descriptor's target, exe and cwd end in " (deleted)"
MAPS_DEL = ("lib.so (deleted)",)   # live kind: mapped file of smaps whose path ends in " (deleted)"
DEVS = ("tty1", "pts/0")           # tty nodes get_terminal_map() finds: /dev/tty1, /dev/pts/0 (redirected to <files>/dev)
GONE_DEV = "pts/0"                 # racy kind: unlinked between the scan's glob and its stat (pty freed by an exiting process)
NEW_DEV = "pts/1"                  # a pty allocated AFTER the terminal map was memoised (stale map)
START = 5000
BOOT = 1500000000.0

KINDS = ("live", "kthread", "zombie", "racy")   # racy = live, with a descriptor / thread / smaps_rollup gone when looked at
RACE_FD, RACE_TASK = "5", "4243"


def _stat(pid, comm, state, ppid, start, ttynr=34816):
    f = [b"0"] * 53
    f[1] = str(pid).encode()
    f[2] = b"(" + comm + b")"
    f[3] = state
    f[4] = str(ppid).encode()
    f[7] = str(ttynr).encode()
    f[14], f[15], f[16], f[17] = b"11", b"7", b"3", b"2"
    f[20] = b"2"
    f[22] = str(start).encode()
    f[39] = b"1"
    f[42] = b"5"
    return b" ".join(f[1:]) + b"\n"


def _status(pid, comm, state, ppid):
    return (b"Name:\t" + comm + b"\nUmask:\t0022\nState:\t" + state + b"\nTgid:\t%d\nNgid:\t0\nPid:\t%d\nPPid:\t%d\n"
            % (pid, pid, ppid) + b"TracerPid:\t0\nUid:\t0\t0\t0\t0\nGid:\t0\t0\t0\t0\nFDSize:\t64\nGroups:\t0 \n"
            b"Threads:\t2\nSigQ:\t0/1000\nCpus_allowed:\tf\nCpus_allowed_list:\t0-3\n"
            b"voluntary_ctxt_switches:\t10\nnonvoluntary_ctxt_switches:\t3\n")


SMAPS = (b"00400000-00452000 r-xp 00000000 08:02 173521      /usr/bin/dbus-daemon\n"
         b"Size:                328 kB\nRss:                 228 kB\nPss:                 228 kB\n"
         b"Shared_Clean:          0 kB\nShared_Dirty:          0 kB\nPrivate_Clean:       228 kB\n"
         b"Private_Dirty:         0 kB\nReferenced:          228 kB\nAnonymous:             0 kB\n"
         b"Swap:                  0 kB\nVmFlags: rd ex mr mw me dw\n"
         b"7ffd0000-7ffd2000 rw-p 00000000 00:00 0\n"
         b"Size:                  8 kB\nRss:                   8 kB\nPss:                   8 kB\n"
         b"Private_Dirty:         8 kB\nSwap:                  4 kB\nVmFlags: rd wr mr mw me ac\n")
ROLLUP = (b"00400000-7ffd2000 ---p 00000000 00:00 0    [rollup]\nRss:   236 kB\nPss:   236 kB\n"
          b"Private_Clean:  228 kB\nPrivate_Dirty:   8 kB\nSwap:   4 kB\n")
NET_HDR4 = b"  sl  local_address rem_address   st tx_queue rx_queue tr tm->when retrnsmt   uid  timeout inode\n"
TCP4 = NET_HDR4 + (b"   0: 0100007F:1F90 00000000:0000 0A 00000000:00000000 00:00000000 00000000     0        0 9001 1 "
                   b"0000000000000000 100 0 0 10 0\n")
UNIX = (b"Num       RefCount Protocol Flags    Type St Inode Path\n"
        b"0000000000000000: 00000002 00000000 00010000 0001 01 9002 /run/x.sock\n")

# fd table of the live process, in the order the listing is presented: (name, link target class)
FDS = (("0", "absother"), ("3", "reg"), ("4", "sock"), ("5", "reg"), ("6", "pipe"))
TASKS = ("4242", "4243")


def fds_of(kind):
    return FDS if kind in ("live", "racy") else ()


def tasks_of(kind):
    return TASKS if kind != "zombie" else ("4242",)


def build_tree(root, files_dir, kind):
    """Materialise the fake procfs for base kind `kind`."""
    base_kind = kind
    if kind == "racy":
        kind = "live"
    if os.path.exists(root):
        shutil.rmtree(root)
    os.makedirs(root)
    os.makedirs(files_dir, exist_ok=True)
    with open(os.path.join(root, "stat"), "wb") as f:
        f.write(b"cpu  10 0 10 100 0 0 0 0 0 0\ncpu0 10 0 10 100 0 0 0 0 0 0\nbtime %d\n" % int(BOOT))
    os.makedirs(os.path.join(root, "net"))
    for n, data in (("tcp", TCP4), ("tcp6", NET_HDR4), ("udp", NET_HDR4), ("udp6", NET_HDR4), ("unix", UNIX)):
        with open(os.path.join(root, "net", n), "wb") as f:
            f.write(data)

    def proc(pid, comm, state, ppid, start, full=False, ttynr=34816):
        d = os.path.join(root, str(pid))
        os.makedirs(d)
        letter = state[:1]
        for n, data in (("stat", _stat(pid, comm, letter, ppid, start, ttynr)), ("status", _status(pid, comm, state, ppid))):
            with open(os.path.join(d, n), "wb") as f:
                f.write(data)
        return d

    proc(PPID, b"init", b"S (sleeping)", 0, 10)
    proc(OTHER, b"other", b"S (sleeping)", PPID, 4000)
    proc(CHILD, b"kid", b"S (sleeping)", PID, 6000)
    proc(CHILD2, b"kidz", b"Z (zombie)", PID, 6100)
    proc(GRANDCHILD, b"grandkid", b"S (sleeping)", CHILD, 6200)
    state = b"Z (zombie)" if kind == "zombie" else b"S (sleeping)"
    d = proc(PID, NAME, state, PPID, START, ttynr=0 if base_kind == "racy" else 34816)

    def w(name, data):
        p = os.path.join(d, name)
        os.makedirs(os.path.dirname(p), exist_ok=True)
        with open(p, "wb") as f:
            f.write(data)

    exe = os.path.join(files_dir, "exe-target")
    with open(exe, "wb") as f:
        f.write(b"#!/bin/sh\n")
    os.chmod(exe, 0o755)
    os.makedirs(os.path.join(files_dir, "dev"), exist_ok=True)
    shutil.rmtree(os.path.join(files_dir, "dev"), ignore_errors=True)
    os.makedirs(os.path.join(files_dir, "dev", "pts"))
    for n in DEVS:
        with open(os.path.join(files_dir, "dev", n), "wb") as f:
            f.write(b"")
    os.makedirs(os.path.join(files_dir, "cwd-dir"), exist_ok=True)
    deleted = base_kind == "live"        # the plain-link variants are exercised by the racy / kthread kinds
    suffix = " (deleted)" if deleted else ""
    w("cmdline", (os.fsencode(exe) + b"\x00-x\x00") if kind == "live" else b"")
    w("environ", b"A=1\x00B=two\x00" if kind == "live" else b"")
    w("statm", b"100 50 10 5 0 20 0\n" if kind == "live" else b"0 0 0 0 0 0 0\n")
    w("io", b"rchar: 1\nwchar: 2\nsyscr: 3\nsyscw: 4\nread_bytes: 5\nwrite_bytes: 6\ncancelled_write_bytes: 0\n")
    smaps = SMAPS
    if deleted:
        for m in MAPS_DEL:
            smaps += (b"7f000000-7f001000 r--p 00000000 08:02 99 %s\nSize: 4 kB\nRss: 4 kB\nPss: 4 kB\n"
                      % os.fsencode(os.path.join(files_dir, m)))
    w("smaps", smaps if kind == "live" else b"")
    w("smaps_rollup", ROLLUP if kind == "live" else b"")
    os.makedirs(os.path.join(d, "fd"))
    os.makedirs(os.path.join(d, "fdinfo"))
    for t in tasks_of(base_kind):
        w("task/%s/stat" % t, _stat(int(t), NAME, state[:1], PPID, START))
    if kind == "live":
        os.symlink(exe + suffix, os.path.join(d, "exe"))
    if kind != "zombie":
        os.symlink(os.path.join(files_dir, "cwd-dir") + suffix, os.path.join(d, "cwd"))
    for name, cls in fds_of(base_kind):
        if cls == "reg":
            t = os.path.join(files_dir, "t%s" % name)
            with open(t, "wb") as f:
                f.write(b"x")
            if deleted and name == DEL_FD:
                t += " (deleted)"
        elif cls == "absother":
            t = os.path.join(files_dir, "t%s" % name)
            os.makedirs(t, exist_ok=True)
        elif cls == "sock":
            t = "socket:[9001]"
        elif cls == "pipe":
            t = "pipe:[777]"
        else:
            t = "/dev/null"
        os.symlink(t, os.path.join(d, "fd", name))
        w("fdinfo/%s" % name, b"pos:\t%d\nflags:\t0100002\nmnt_id:\t25\n" % int(name))


BASE_EXT = {"racy": {("stat", "^dev/" + GONE_DEV): errno.ENOENT}}
# base-kind errors that file permissions cannot produce when the harness runs as root
BASE_ERRORS = {
    "zombie": {("listdir", "fd"): errno.EACCES, ("open", "io"): errno.EACCES},
    "racy": {("open", "smaps_rollup"): errno.ENOENT, ("readlink", "fd/" + RACE_FD): errno.ENOENT,
             ("open", "task/%s/stat" % RACE_TASK): errno.ENOENT},
}


class FileProxy:
    """File object whose FIRST read operation is an access point."""

    def __init__(self, f, shim, path):
        object.__setattr__(self, "_f", f)
        object.__setattr__(self, "_shim", shim)
        object.__setattr__(self, "_path", path)
        object.__setattr__(self, "_done", False)

    def _first(self):
        if not self._done:
            object.__setattr__(self, "_done", True)
            self._shim._hit("read", self._path)

    def read(self, *a):
        self._first()
        return self._f.read(*a)

    def readline(self, *a):
        self._first()
        return self._f.readline(*a)

    def readlines(self, *a):
        self._first()
        return self._f.readlines(*a)

    def __iter__(self):
        return self

    def __next__(self):
        self._first()
        return next(self._f)

    def __enter__(self):
        self._f.__enter__()
        return self

    def __exit__(self, *a):
        return self._f.__exit__(*a)

    def __getattr__(self, n):
        return getattr(self._f, n)

    def __setattr__(self, n, v):
        setattr(self._f, n, v)


def _oserr(e, path):
    cls = {errno.ENOENT: FileNotFoundError, errno.ESRCH: ProcessLookupError, errno.EACCES: PermissionError,
           errno.EPERM: PermissionError}.get(e, OSError)
    return cls(e, os.strerror(e), path)


class World(Shim):
    """Shim + fault model.  fault = {"vanish": k|None, "deny": {k: errno}}"""

    def __init__(self, root, kind, files=None):
        self.files = files or (os.path.dirname(root) + "/files")
        # the tty nodes live under the real names /dev/tty1, /dev/pts/*, redirected into the fake world
        Shim.__init__(self, {"/dev/pts": self.files + "/dev/pts", "/dev/tty1": self.files + "/dev/tty1"})
        self.root = root
        self.nx = {}                 # access index -> errno for an access OUTSIDE procfs (ENOENT, ENOTDIR)
        self.kind = kind
        self.pdir = os.path.join(root, str(PID))
        self.vanish = None
        self.half = False            # V': only the entries below /proc/<pid> go, the directory itself stays
        self.ovanish = {}            # other pid -> access index from which it is gone
        self.ogone = set()
        self.deny = {}
        self.gone = False
        self.busy = False
        self.watch = lambda p: (not self.busy) and (p == root or p.startswith(root + "/")
                                                    or p == self.files or p.startswith(self.files + "/")
                                                    or p == "/dev/tty1" or p == "/dev/pts" or p.startswith("/dev/pts/"))
        self.fault = self._fault
        self._sys = {}

    def rel(self, p):
        if p.startswith("/dev/"):
            return "^" + p[1:]                            # a tty node (redirected)
        if p == self.files or p.startswith(self.files + "/"):
            return "^" + p[len(self.files) + 1:]          # an ordinary file outside procfs
        return p[len(self.root) + 1:] if p != self.root else ""

    def is_self(self, p):
        return p == self.pdir or p.startswith(self.pdir + "/")

    def is_proc(self, p):
        """can this access be refused: every path except the global procfs files and the /dev scan"""
        r = self.rel(p)
        if r.startswith("^"):
            return r != "^dev"
        return r.split("/")[0].isdigit()

    def remove_now(self):
        if not self.gone:
            self.gone = True
            self.busy = True
            try:
                if self.half:
                    for n in os.listdir(self.pdir):
                        q = os.path.join(self.pdir, n)
                        if os.path.isdir(q) and not os.path.islink(q):
                            shutil.rmtree(q, ignore_errors=True)
                        else:
                            os.unlink(q)
                else:
                    shutil.rmtree(self.pdir, ignore_errors=True)
            finally:
                self.busy = False

    def _fault(self, kind, p, idx):
        if self.vanish is not None and idx >= self.vanish:
            self.remove_now()
        for pid, k in self.ovanish.items():
            if idx >= k and pid not in self.ogone:
                self.ogone.add(pid)
                self.busy = True
                try:
                    shutil.rmtree(os.path.join(self.root, str(pid)), ignore_errors=True)
                finally:
                    self.busy = False
        if self.gone and self.is_self(p) and not (self.half and p == self.pdir):
            return _oserr(errno.ESRCH if kind in ("read", "sys") else errno.ENOENT, p)
        first = self.rel(p).split("/")[0]
        if first.isdigit() and int(first) in self.ogone:
            return _oserr(errno.ESRCH if kind in ("read", "sys") else errno.ENOENT, p)
        if idx in self.deny and self.is_proc(p):
            return _oserr(self.deny[idx], p)
        r = self.rel(p)
        if idx in self.nx and r.startswith("^") and r != "^dev":
            e = self.nx[idx]
            return NotADirectoryError(e, os.strerror(e), p) if e == errno.ENOTDIR else _oserr(e, p)
        e = BASE_EXT.get(self.kind, {}).get((kind, r))
        if e:
            return _oserr(e, p)
        if self.is_self(p):
            e = BASE_ERRORS.get(self.kind, {}).get((kind, p[len(self.pdir) + 1:]))
            if e:
                return _oserr(e, p)
        return None

    def labels(self):
        return [[k, self.rel(p)] for k, p in self.log]

    # -- install: Shim's wrappers + read proxies + per-process system calls
    def install(self):
        Shim.install(self)
        inner = builtins.open
        me = self

        def open2(path, *a, **kw):
            f = inner(path, *a, **kw)
            if isinstance(path, str) and me.watch(path):
                return FileProxy(f, me, path)
            return f
        builtins.open = open2
        io.open = open2
        inner_listdir = os.listdir

        def listdir2(path=".", *a):
            r = inner_listdir(path, *a)
            if isinstance(path, (str, bytes)) and me.watch(os.fsdecode(path)):
                r = sorted(r, key=lambda n: (0, int(n)) if os.fsdecode(n).isdigit() else (1, 0, n))
            return r
        os.listdir = listdir2
        inner_access = os.access

        def access2(path, *a, **kw):            # os.access answers False when refused, it does not raise
            try:
                return inner_access(path, *a, **kw)
            except OSError:
                return False
        os.access = access2
        # get_terminal_map() scans /dev with glob: present the fake tty nodes (one listing access, never faulted)
        import glob as _glob
        self._glob = _glob.glob

        def glob2(pat, *a, **kw):
            if pat == "/dev/tty*":
                devdir = os.path.join(me.files, "dev")
                me._hit("listdir", devdir)
                me.busy = True
                try:
                    return ["/dev/" + n for n in DEVS + (NEW_DEV,) if os.path.exists(os.path.join(devdir, n))]
                finally:
                    me.busy = False
            if pat == "/dev/pts/*":
                return []
            return me._glob(pat, *a, **kw)
        _glob.glob = glob2
        import resource
        from psutil import _pslinux
        cp, ce = _pslinux.cext_posix, _pslinux.cext
        self._sys = {"getpriority": (cp, cp.getpriority), "proc_ioprio_get": (ce, ce.proc_ioprio_get),
                     "proc_cpu_affinity_get": (ce, ce.proc_cpu_affinity_get), "prlimit": (resource, resource.prlimit)}
        vals = {"getpriority": 0, "proc_ioprio_get": (0, 4), "proc_cpu_affinity_get": [0, 1], "prlimit": (1024, 4096)}

        def mk(name):
            def call(pid, *a):
                me._hit("sys", "%s/%d/@%s" % (me.root, pid, name))
                return vals[name]
            return call
        for n, (mod, _) in self._sys.items():
            setattr(mod, n, mk(n))
        # wait(): os.waitpid says ECHILD for a process that is not our child (whatever it does: no access point);
        # pid_exists() = os.kill(pid, 0) is a per-process system call
        self._os = {"kill": os.kill, "waitpid": os.waitpid}

        def kill2(pid, sig):
            if sig == 0 and pid in (PID, PPID, CHILD, CHILD2, GRANDCHILD, OTHER):
                me._hit("sys", "%s/%d/@kill" % (me.root, pid))
                return None
            return me._os["kill"](pid, sig)

        def waitpid2(pid, flags):
            if pid in (PID, PPID, CHILD, CHILD2, GRANDCHILD, OTHER):
                raise ChildProcessError(errno.ECHILD, "No child processes")
            return me._os["waitpid"](pid, flags)
        os.kill = kill2
        os.waitpid = waitpid2

    def uninstall(self):
        import glob as _glob
        if getattr(self, "_os", None):
            os.kill, os.waitpid = self._os["kill"], self._os["waitpid"]
            self._os = None
        if getattr(self, "_glob", None):
            _glob.glob = self._glob
            self._glob = None
        for n, (mod, fn) in self._sys.items():
            setattr(mod, n, fn)
        self._sys = {}
        Shim.uninstall(self)


# ---------------------------------------------------------------- method table
def _is(t):
    return lambda v: isinstance(v, t)


def _strs(v):
    return isinstance(v, list) and all(isinstance(x, str) for x in v)


def _nt(n, t=(int, float)):
    return lambda v: isinstance(v, tuple) and len(v) == n and all(isinstance(x, t) for x in v)


def _ntlist(v):
    return isinstance(v, list) and all(isinstance(x, tuple) for x in v)


def _proclist(v):
    import psutil
    return isinstance(v, list) and all(isinstance(x, psutil.Process) for x in v)


def _optproc(v):
    import psutil
    return v is None or isinstance(v, psutil.Process)


# name -> (call(p), shape predicate).  Every entry goes through the PUBLIC psutil.Process API.
METHODS = {
    "name": (lambda p: p.name(), _is(str)),
    "exe": (lambda p: p.exe(), _is(str)),
    "cmdline": (lambda p: p.cmdline(), _strs),
    "environ": (lambda p: p.environ(), _is(dict)),
    "cwd": (lambda p: p.cwd(), _is(str)),
    "status": (lambda p: p.status(), _is(str)),
    "ppid": (lambda p: p.ppid(), _is(int)),
    "create_time": (lambda p: p.create_time(), _is(float)),
    "terminal": (lambda p: p.terminal(), lambda v: v is None or isinstance(v, str)),
    "username": (lambda p: p.username(), _is(str)),
    "uids": (lambda p: p.uids(), _nt(3, int)),
    "gids": (lambda p: p.gids(), _nt(3, int)),
    "cpu_times": (lambda p: p.cpu_times(), _nt(5)),
    "cpu_num": (lambda p: p.cpu_num(), _is(int)),
    "cpu_percent": (lambda p: p.cpu_percent(), _is(float)),
    "memory_info": (lambda p: p.memory_info(), _nt(7, int)),
    "memory_full_info": (lambda p: p.memory_full_info(), _nt(10, int)),
    "memory_percent": (lambda p: p.memory_percent(), _is(float)),
    "memory_maps": (lambda p: p.memory_maps(grouped=False), _ntlist),
    "memory_maps_grouped": (lambda p: p.memory_maps(), _ntlist),
    "io_counters": (lambda p: p.io_counters(), _nt(6, int)),
    "num_ctx_switches": (lambda p: p.num_ctx_switches(), _nt(2, int)),
    "num_threads": (lambda p: p.num_threads(), _is(int)),
    "num_fds": (lambda p: p.num_fds(), _is(int)),
    "threads": (lambda p: p.threads(), _ntlist),
    "open_files": (lambda p: p.open_files(), _ntlist),
    "net_connections": (lambda p: p.net_connections(), _ntlist),
    "net_connections_unix": (lambda p: p.net_connections("unix"), _ntlist),
    "net_connections_all": (lambda p: p.net_connections("all"), _ntlist),
    "nice": (lambda p: p.nice(), _is(int)),
    "ionice": (lambda p: p.ionice(), lambda v: isinstance(v, tuple) and len(v) == 2),
    "cpu_affinity": (lambda p: p.cpu_affinity(), lambda v: isinstance(v, list) and all(isinstance(x, int) for x in v)),
    "rlimit": (lambda p: p.rlimit(7), lambda v: isinstance(v, tuple) and len(v) == 2),
    "wait": (lambda p: p.wait(0), lambda v: v is None),
    "is_running": (lambda p: p.is_running(), _is(bool)),
    "parent": (lambda p: p.parent(), _optproc),
    "parents": (lambda p: p.parents(), _proclist),
    "children": (lambda p: p.children(), _proclist),
    "children_rec": (lambda p: p.children(recursive=True), _proclist),
    "as_dict": (lambda p: p.as_dict(), _is(dict)),
}
# later queries that must raise NoSuchProcess once the process is gone (they consult the OS on every call)
STICKY = [m for m in METHODS if m not in ("is_running", "children", "children_rec", "parents", "as_dict", "wait")]


def describe_exc(e):
    import psutil
    n = type(e).__name__
    if isinstance(e, psutil.Error):
        return [n, getattr(e, "pid", None)]
    return [n, None]


def call_method(p, mname, spec=None):
    """-> ["val", "ok"|"bad-shape:<repr>"] | ["exc", class name, pid]"""
    if mname.startswith("as_dict:"):
        import psutil
        attrs = mname.split(":", 1)[1].split(",")
        if set(attrs) == set(psutil._as_dict_attrnames):
            fn = lambda q: q.as_dict()                      # noqa: E731  (all attributes: the default iteration order)
        else:
            fn = lambda q: q.as_dict(attrs=attrs)           # noqa: E731
        shape = lambda v: isinstance(v, dict) and set(v) == set(attrs)   # noqa: E731
    elif mname.startswith(("oneshot:", "oneshotc:")):
        import psutil
        names = mname.split(":", 1)[1].split(",")
        swallow = mname.startswith("oneshotc:")

        def fn(q):
            ok = True
            with q.oneshot():
                for n in names:
                    call, shp = METHODS[n]
                    try:
                        ok = shp(call(q)) and ok
                    except psutil.Error:
                        if not swallow:
                            raise
            return ok
        shape = lambda v: v is True      # noqa: E731
    elif mname.startswith("iter:"):
        import psutil
        attrs = mname.split(":", 1)[1].split(",")

        def fn(q):
            return [(x.pid, sorted(x.info)) for x in psutil.process_iter(attrs=attrs)]
        shape = _is(list)
    else:
        fn, shape = METHODS[mname]
    try:
        v = fn(p)
    except BaseException as e:  # noqa
        if isinstance(e, (KeyboardInterrupt, SystemExit)) or type(e).__name__ == "CaseTimeout":
            raise
        return ["exc"] + describe_exc(e)
    return ["val", "ok" if shape(v) else "bad-shape:" + repr(v)[:80]]


def reset_psutil(psutil, root):
    psutil.PROCFS_PATH = root
    psutil._pslinux.BOOT_TIME = BOOT
    psutil._LOWEST_PID = 1
    psutil._TOTAL_PHYMEM = 8 << 30
    psutil._pmap.clear()
    psutil._pids_reused.clear()
    psutil._psposix.get_terminal_map.cache_clear()


def run_case(work, kind, mname, vanish=None, deny=None, sticky=False, ovanish=None, half=False, then=None,
             low=False, reuse=False, warm=False, nx=None):
    """Build the world, create the Process object (no faults), then run the method under the fault
    schedule.  Returns {"out": outcome, "log": labels, "gone": bool, "after": {method: outcome}}."""
    import psutil
    root = os.path.join(work, "proc")
    files = os.path.join(work, "files")
    build_tree(root, files, kind)
    reset_psutil(psutil, root)
    w = World(root, kind, files)
    w.install()
    try:
        w.fault = None
        p = psutil.Process(PID)
        if low:
            # the object's pid IS the cached lowest pid (module global left by the last pids() / process_iter():
            # pid 1 of a container, first entry of a foreign PROCFS_PATH, a stale value)
            psutil._LOWEST_PID = PID
        if reuse:
            # the pid is recycled: /proc/<pid> now describes ANOTHER process (other start time)
            with open(os.path.join(root, str(PID), "stat"), "wb") as f:
                f.write(_stat(PID, b"recycled", b"S", PPID, START + 777))
        if warm:
            # the terminal map is memoised now; afterwards a new pty appears (the map is STALE from here on)
            psutil._psposix.get_terminal_map()
            with open(os.path.join(files, "dev", NEW_DEV), "wb") as f:
                f.write(b"")
        w.reset()
        w.fault = w._fault
        w.nx = {int(k): int(v) for k, v in (nx or {}).items()}
        w.vanish = vanish
        w.half = bool(half)
        w.deny = {int(k): v for k, v in (deny or {}).items()}
        w.ovanish = {int(k): int(v) for k, v in (ovanish or {}).items()}
        out = call_method(p, mname)
        outs = [out]
        for m2 in then or []:
            # history on the SAME object: the later calls run without any new fault
            w.deny = {}
            w.nx = {}
            psutil._psposix.get_terminal_map.cache_clear()      # module-level memo, not a field of the object
            outs.append(call_method(p, m2))
        log = w.labels()
        res = {"out": out, "outs": outs, "log": log, "gone": w.gone}
        if sticky and w.gone:
            after = {}
            for m in STICKY:
                after[m] = call_method(p, m)
            res["after"] = after
        return res
    finally:
        w.uninstall()
        psutil.PROCFS_PATH = "/proc"
