"""C17 helper: run one call of the real extension in a forked child, so that a sanitizer
abort / crash is an observable answer and setters only ever act on the child itself."""
import json
import os
import signal
import tempfile


def isolated(fn, timeout=15):
    """fn() runs in a forked child and must return a JSON-able canonical value.
    Returns ("ok", value) | ("abort", wait-status, stderr-text)."""
    r, w = os.pipe()
    errf = tempfile.TemporaryFile()
    pid = os.fork()
    if pid == 0:
        code = 0
        try:
            os.close(r)
            os.dup2(errf.fileno(), 2)
            signal.alarm(0)
            signal.signal(signal.SIGALRM, signal.SIG_DFL)
            signal.alarm(timeout)
            v = fn()
            data = json.dumps(v).encode()
            while data:
                n = os.write(w, data)
                data = data[n:]
        except BaseException:  # harness-side failure inside the child
            import traceback
            try:
                os.write(2, ("CHILD-HARNESS-ERROR\n" + traceback.format_exc()).encode())
            except Exception:
                pass
            code = 99
        finally:
            os._exit(code)
    os.close(w)
    chunks = []
    while True:
        b = os.read(r, 1 << 16)
        if not b:
            break
        chunks.append(b)
    os.close(r)
    _, st = os.waitpid(pid, 0)
    errf.seek(0)
    err = errf.read().decode("utf-8", "replace")
    errf.close()
    if st == 0:
        try:
            return ("ok", json.loads(b"".join(chunks).decode()))
        except Exception:
            return ("abort", st, "unparsable child output; stderr: " + err[-800:])
    if "CHILD-HARNESS-ERROR" in err:
        raise RuntimeError("harness error in forked child:\n" + err[-1500:])
    return ("abort", st, err)
