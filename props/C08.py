"""C08 -- virtual_memory() and swap_memory() follow the documented formulas."""
import os
from fractions import Fraction

from pv import gallina as G
from pv.canon import B, Val, outcome, unB
from props._c08_gen import TranslateError, gen_tables  # noqa: F401  (source -> coq/Gen/C08_Tables.v, fail-closed)

ID = "C08"
COQ_REQUIRE = "C08.Run"
RULE = ("/proc/meminfo drawn as a list of kernel-formatted lines: EXHAUSTIVE over all 512 subsets of the optional field groups "
        "{Buffers, Cached, SReclaimable, Shmem, MemShared, Active, Inactive, Inact_dirty+clean+laundry, Slab} and over all 96 "
        "combinations {MemAvailable absent/0/value/>total} x subsets of {Active(file), Inactive(file), SReclaimable, zoneinfo}; "
        "random part: magnitude classes (ordinary, cached+buffers>total, available>total, free>total, zero total, 2^64-range, 0..3), "
        "line order shuffled, unit-less extra lines, zoneinfo with 0-4 zones incl. watermarks larger than free memory, page sizes "
        "4K/16K/64K; swap: SwapTotal/SwapFree present or sysinfo() fallback, vmstat absent / without / with one / with both swap "
        "counters in any order, repeated counter lines, extra columns, value-less lines; the fallback estimate also at magnitudes "
        "2^53..2^74 bytes where its double arithmetic rounds (model with IEEE rounding, compared exactly); meminfo with the Linux 2.4 "
        "header and other non 'name number' lines; histories of virtual_memory()/Process.memory_percent() calls over changing MemTotal "
        "(cached total; directed histories vm / MemTotal changes / vm / memory_percent over all ordered pairs of 4 totals); EXHAUSTIVE: /proc/zoneinfo "
        "present but open() failing with EACCES, EIO, EISDIR or read() failing with EIO x MemAvailable absent/0/value x all 8 subsets of the estimate's inputs; "
        "plus a malformed byte stream (dropped/blank/duplicated/non-numeric lines, signs, underscores, CRLF) "
        "compared with the model only; LIVE: the running kernel's /proc/meminfo, /proc/zoneinfo, /proc/vmstat read once, parsed into the Spec record, printed back by the "
        "Coq kernel printers and compared byte for byte (mismatch = harness error), then model = psutil = spec on that snapshot (also with MemAvailable removed / zeroed so "
        "that the estimate runs over the real watermarks) and psutil over the real /proc (timing-free facts); BIG: zoneinfo of a 48-CPU 5-zone machine (42 KB, generated "
        "inside Coq) with byte offsets 8192/16384/32768 aligned into / onto the ends of a low line's digits, meminfo and vmstat whose decisive lines lie beyond 32 KiB. Non-trivial = at least MemTotal and MemFree (or one swap source) present; distinct = "
        "distinct canonical case hash.")
TRUSTED = ["SOURCE TRANSLATION (round 2): the body of _pslinux.virtual_memory() after the parsing loop (field selection with its try/except KeyError ladders and "
           "missing_fields.append calls, used + negative fallback, MemAvailable / ==0 / calculate_avail_vmem decision, <0 and >total clamps, usage_percent(round_=1), "
           "svmem argument order) and svmem's field list are translated from the ast of the tree under check by props/_c08_gen.py (fail-closed) into coq/Gen/C08_Tables.v; "
           "C08_gen_vm_prog_model proves interpreter(translated program) = Model.vm_of_dict for every dict. Trusted there: the translator (ast shape -> PyGen syntax, ~150 lines) "
           "and the interpreter coq/C08/PyGen.v as the semantics of that Python fragment; still hand-written and tied by the correspondence run only: parse_meminfo, "
           "calculate_avail_vmem (calc_avail, zone_low, the float path), usage_percent10, swap_memory, the _TOTAL_PHYMEM front end",
           "kernel printers k_meminfo/k_zoneinfo/k_vmstat: validated byte for byte against the running kernel's files on every run (live cases); other kernel versions by transcription",
           "correspondence harness props/C08.py + pv/ (fake /proc tree, patched cext.linux_sysinfo and _pslinux.PAGESIZE, captured warnings)",
           "kernel formats of /proc/meminfo, /proc/zoneinfo, /proc/vmstat and the MemAvailable fallback formula transcribed in coq/C08/Spec.v",
           "IEEE double arithmetic and round() of CPython: the fallback estimate's doubles are modelled by rnd53 (53-bit round-half-even on integers/half-integers), "
           "percent is computed exactly and compared exactly in tenths outside a 1e-9 neighbourhood of a rounding boundary"]
ASSUMPTIONS = ["CPython semantics of bytes.split/strip/startswith/int and of warnings are modelled, not verified",
               "numbers with more than 4300 digits (int() limit) or values >= 2^1024 (float overflow in usage_percent) are outside the model",
               "the exact fallback formula is demanded only under Spec.float_exact (watermark multiple of 512, free+watermark+pagecache+slab < 2^61 bytes); beyond it the "
               "implementation is compared with the IEEE-rounding model only",
               "the page size is the module constant psutil._pslinux.PAGESIZE (patched per case to 4096/16384/65536)"]
EXHAUSTIVE = {"quick": "all 512 subsets of 9 optional meminfo field groups; all 96 combinations of MemAvailable mode x {Active(file),Inactive(file),SReclaimable,zoneinfo} subsets; "
                       "all 96 combinations zoneinfo fault {EACCES,EIO,EISDIR at open, EIO at read} x MemAvailable {absent,0,value} x subsets of {Active(file),Inactive(file),SReclaimable}; "
                       "48 directed cached-total histories (12 ordered pairs of totals x 4 call shapes)",
              "thorough": "the same 512 + 96 enumerations, each repeated 6 times under rotating magnitude classes"}
SHARD = 120
# model parameter: True = the code as it is now (commit db3d5fc: meminfo lines that are not "name number" are skipped);
# False = the parser used before that commit
LENIENT = True

FIELD_ORDER = ["total", "available", "percent", "used", "free", "active", "inactive", "buffers", "cached", "shared", "slab"]
SWAP_ORDER = ["total", "used", "free", "percent", "sin", "sout"]
GROUPS = ["Buffers:", "Cached:", "SReclaimable:", "Shmem:", "MemShared:", "Active:", "Inactive:", "InactTriple", "Slab:"]
AVGROUP = ["Active(file):", "Inactive(file):", "SReclaimable:", "zoneinfo"]
KORDER = ["MemTotal:", "MemFree:", "MemAvailable:", "Buffers:", "Cached:", "SwapCached:", "Active:", "Inactive:",
          "Active(anon):", "Inactive(anon):", "Active(file):", "Inactive(file):", "Inact_dirty:", "Inact_clean:", "Inact_laundry:",
          "Unevictable:", "MemShared:", "SwapTotal:", "SwapFree:", "Dirty:", "Shmem:", "Slab:", "SReclaimable:", "SUnreclaim:",
          "VmallocTotal:", "HugePages_Total:", "Hugepagesize:"]
MAGS = ["normal", "normal", "distorted", "availgt", "freegt", "zero", "huge", "tiny"]


# ------------------------------------------------------------------ generators
def _values(rng, mag):
    """kB figures for one magnitude class."""
    if mag == "tiny":
        r = lambda hi=3: rng.randint(0, 3)
        total = r()
        v = {"MemTotal:": total, "MemFree:": r()}
        top = 3
    elif mag == "zero":
        total = 0
        v = {"MemTotal:": 0, "MemFree:": rng.choice([0, 0, 0, 7])}
        top = rng.choice([0, 5])
    elif mag == "huge":
        total = rng.choice([2 ** 64 - 1, 2 ** 63, 2 ** 54 + 1, 10 ** 25, 2 ** 53 - 1])
        v = {"MemTotal:": total, "MemFree:": rng.randint(0, total)}
        top = total
    else:
        total = rng.choice([16384256, 1000000, 8, 2 ** 32, rng.randint(1, 10 ** 9), rng.randint(1, 4000)])
        v = {"MemTotal:": total, "MemFree:": rng.randint(0, total)}
        top = total
    free = v["MemFree:"]
    if mag == "freegt":
        free = v["MemFree:"] = total + rng.choice([1, 1000, total])
    room = max(0, total - free)
    cached = rng.randint(0, room)
    buffers = rng.randint(0, max(0, room - cached))
    if mag == "distorted":
        cached = total + rng.randint(0, total)
        buffers = rng.randint(0, total)
    if rng.random() < 0.1:       # boundary: used exactly 0 / exactly -1 kB
        cached, buffers = room, rng.choice([0, 1])
    v["Cached:"], v["Buffers:"] = cached, buffers
    for n in ("SReclaimable:", "Shmem:", "MemShared:", "Active:", "Inactive:", "Inact_dirty:", "Inact_clean:", "Inact_laundry:",
              "Slab:", "Active(file):", "Inactive(file):", "SwapCached:", "Active(anon):", "Inactive(anon):", "Unevictable:",
              "Dirty:", "SUnreclaim:"):
        v[n] = rng.randint(0, top) if rng.random() < 0.9 else rng.choice([0, 1, top])
    v["VmallocTotal:"] = 34359738367
    v["HugePages_Total:"] = rng.choice([0, 4])
    v["Hugepagesize:"] = 2048
    v["SwapTotal:"] = rng.choice([0, 2097148, top])
    v["SwapFree:"] = rng.randint(0, v["SwapTotal:"])
    return v


def _avail(rng, mode, v, mag):
    total = v["MemTotal:"]
    if mode == "absent":
        return None
    if mode == "zero":
        return 0
    if mode == "gt" or (mode == "value" and mag == "availgt"):
        return total + rng.choice([1, 1, 5000, total + 1])
    if mode == "eq":
        return total
    return rng.randint(1, total) if total >= 1 else 1


def _zone(rng, mode, v, mag):
    if mode == "absent":
        return None
    if mode == "empty":
        return []
    out = []
    nz = rng.choice([1, 2, 3, 4])
    free_pages = max(1, v["MemFree:"] // 4)
    for z in range(nz):
        out.append(["other", "Node 0, zone %8s" % rng.choice(["DMA", "DMA32", "Normal", "Movable"])])
        out.append(["other", "  pages free     %d" % rng.randint(0, 10 ** 6)])
        if rng.random() < 0.5:
            out.append(["other", "        boost    0"])
        out.append(["other", "        min      %d" % rng.randint(0, 10 ** 5)])
        if mode == "bigwm":
            low = free_pages + rng.randint(0, free_pages)
        else:
            low = rng.choice([0, rng.randint(0, 70000), rng.randint(0, max(1, free_pages // 2))])
        if mag == "huge":
            low = rng.choice([rng.randint(0, 10 ** 6), v["MemFree:"] // 8, v["MemFree:"] // 3, 2 ** 52 + 1, rng.randint(0, 2 ** 60)])
        if rng.random() < 0.8:
            out.append(["low", rng.choice([8, 8, 0, 1]), rng.choice([5, 0, 2]), str(low)])
        else:
            out.append(["low", rng.choice(["\t", " \t ", "", "        "]), rng.choice(["\t", " ", "  \t"]), str(low), rng.choice(["", " ", "\t "])])
        out.append(["other", "        high     %d" % rng.randint(0, 10 ** 5)])
        out.append(["other", rng.choice(["        protection: (0, 2934, 31818, 31818)", "      nr_free_pages 3840", "",
                                          "  pagesets", "    cpu: 0", "        slow     7", "\tallow 5"])])
    return out


def _vm_case(rng, present, mag, amode, zmode, ps=4096, shuffle=False, cls=None, junk=None):
    """present: set of optional names (a name of GROUPS / AVGROUP / others)."""
    v = _values(rng, mag)
    names = {"MemTotal:", "MemFree:"}
    for g in present:
        if g == "InactTriple":
            names |= {"Inact_dirty:", "Inact_clean:", "Inact_laundry:"}
        elif g != "zoneinfo":
            names.add(g)
    avail = _avail(rng, amode, v, mag)
    if avail is not None:
        names.add("MemAvailable:")
        v["MemAvailable:"] = avail
    zone = _zone(rng, zmode, v, mag)
    for extra in ("SwapCached:", "VmallocTotal:", "HugePages_Total:", "Hugepagesize:", "Dirty:"):
        if rng.random() < 0.4:
            names.add(extra)
    order = [n for n in KORDER if n in names]
    if shuffle:
        rng.shuffle(order)
    style = rng.choice(["kernel", "kernel", "one", "wide"])
    mem = []
    for n in order:
        val = str(v[n])
        if rng.random() < 0.03:
            val = "0" * rng.randint(1, 3) + val
        if style == "kernel":    # the layout validated against the running kernel by the live cases
            pad = max(1, (19 - len(n)) + max(0, 5 - len(val)) if n.startswith("HugePages_") else _kernel_pad(n, val))
        elif style == "one":
            pad = 1
        else:
            pad = rng.randint(1, 12)
        rest = "" if n == "HugePages_Total:" else " kB"
        if rng.random() < 0.03:
            rest = rng.choice([" kB  ", "\tkB", " kB 7 extra", " "])
        mem.append([n, pad - 1, val, rest])
    if junk == "legacy":
        mem = [["#junk", "        total:    used:    free:  shared: buffers:  cached:"],
               ["Mem:", 1, str(v["MemTotal:"] * 1024), " %d %d        0 134393856 588922880" % (v["MemTotal:"] * 1024, v["MemFree:"] * 1024)],
               ["Swap:", 0, "2097434624", "   589824 2096844800"]] + mem
    elif junk:
        mem.insert(rng.randint(0, len(mem)), ["#junk", rng.choice(["", "   ", "Foo:", "Foo: bar kB", "garbage here", "Name: 0x10 kB", "x y z"])])
    if cls is None:
        cls = "vm-" + mag + ("-fallback" if not avail else "") + ("-wm" if zone else "")
    if junk:
        cls = "vm-junk-" + ("legacy" if junk == "legacy" else "line")
    return {"kind": "vm", "cls": cls, "ps": ps, "mem": mem, "zone": zone}


def _swap_case(rng, tier):
    mag = rng.choice(["normal", "normal", "zero", "huge", "tiny", "freegt"])
    v = _values(rng, mag)
    st = rng.choice([0, 2097148, v["MemTotal:"], rng.randint(0, 10 ** 7)])
    sf = rng.randint(0, st) if mag != "freegt" else st + rng.randint(1, 99)
    v["SwapTotal:"], v["SwapFree:"] = st, sf
    names = ["MemTotal:", "MemFree:", "Cached:", "Dirty:"]
    src = rng.choice(["meminfo", "meminfo", "meminfo", "sysinfo", "only-total", "only-free"])
    if src in ("meminfo", "only-total"):
        names.append("SwapTotal:")
    if src in ("meminfo", "only-free"):
        names.append("SwapFree:")
    if rng.random() < 0.2:
        rng.shuffle(names)
    mem = [[n, rng.choice([0, 3, 7]), str(v[n]), " kB"] for n in names]
    junk = rng.random() < 0.05
    if junk:
        mem = [["#junk", "        total:    used:    free:  shared: buffers:  cached:"], ["Mem:", 1, "1050001408", " 1031790592 18210816        0 134393856 588922880"],
               ["Swap:", 0, "2097434624", "   589824 2096844800"]] + mem
    unit = rng.choice([1, 1, 4096, 1024])
    sysinfo = [rng.choice([0, 524287, rng.randint(0, 10 ** 9)]), 0, unit]
    sysinfo[1] = rng.randint(0, sysinfo[0]) if mag != "freegt" else sysinfo[0] + 3
    vmode = rng.choice(["both", "both", "both", "absent", "none", "in-only", "out-only", "swapped"])
    ctr = lambda: str(rng.choice([0, 1, 7, rng.randint(0, 10 ** 9), 2 ** 64 - 1]))
    if vmode == "absent":
        vm = None
    else:
        vm = [["nr_free_pages", ctr()], ["pgpgin", ctr()], ["pgpgout", ctr()]]
        sw = {"both": ["pswpin", "pswpout"], "none": [], "in-only": ["pswpin"], "out-only": ["pswpout"],
              "swapped": ["pswpout", "pswpin"]}[vmode]
        for i, n in enumerate(sw):
            vm.append([n, ctr()])
            if rng.random() < 0.2 and i == 0:
                vm.append(["pgalloc_dma", ctr()])
        vm += [["pgfree", ctr()], ["swpin_zero", ctr()], ["thp_swpout", ctr()]][:rng.randint(0, 3)]
        odd = rng.random()
        if odd < 0.25:       # repeated counter lines (no kernel prints them): the file is read as a log
            for _ in range(rng.randint(1, 3)):
                vm.insert(rng.randint(0, len(vm)), [rng.choice(["pswpin", "pswpout", "pgpgin"]), ctr()])
            vmode += "-dup"
        if 0.15 < odd < 0.4:  # extra columns, value-less and blank lines
            for ln in vm:
                if rng.random() < 0.3:
                    ln.append(rng.choice([" 7", " x y", " ", "  9"]))
            for _ in range(rng.randint(0, 2)):
                vm.insert(rng.randint(0, len(vm)), ["#junk", rng.choice(["", "nr_foo", "numa_hit", " pswpin 5", "x pswpout 6", "\tpswpin 1"])])
            vmode += "-odd"
        if rng.random() < 0.15:
            rng.shuffle(vm)
    ps = rng.choice([4096] * 6 + [16384, 65536])
    cls = "swap-" + src + "-" + vmode + ("" if ps == 4096 else "-bigpage")
    if junk:
        cls = "swap-junk-legacy"
    return {"kind": "swap", "cls": cls, "ps": ps, "mem": mem, "sysinfo": sysinfo, "vmstat": vm}


ZFAULTS = ["EACCES", "EIO", "EISDIR", "READ_EIO"]
REOPEN_MODES = ["differs", "malformed", "missing", "EACCES"]


def _reopen_cases(rng):
    out = []
    for amode in ("value", "absent", "zero"):
        for zmode in ("zones", "absent"):
            for mode in REOPEN_MODES:
                for rep in range(2):
                    present = set(AVGROUP[:3]) | {g for g in GROUPS if g != "MemShared:" and g != "InactTriple"}
                    c = _vm_case(rng, present, "normal", amode, zmode, cls="vm-reopen-" + mode)
                    c["reopen"] = {"mode": mode, "seed": rng.randrange(1 << 30)}
                    out.append(c)
    for mode in REOPEN_MODES:
        for rep in range(3):
            c = _swap_case(rng, "quick")
            c["cls"] = "swap-reopen-" + mode
            c["reopen"] = {"mode": mode, "seed": rng.randrange(1 << 30)}
            out.append(c)
    return out


def _second_snapshot(mi, ro):
    """what the 2nd, 3rd, ... open of meminfo within one call is served (derived from the first snapshot and the case's seed):
    None = the open fails; bytes = the content"""
    import random
    import re
    if ro["mode"] in ("missing", "EACCES"):
        return None
    r = random.Random(ro["seed"])
    if ro["mode"] == "malformed":
        return r.choice([b"", b"\x00\xff\xfe garbage\n", b"MemTotal:\n", b"MemTotal: 12 kB\n", b"MemFree: 7 kB\nCached: x kB\n",
                         b"        total:    used:    free:  shared: buffers:  cached:\n"])
    out = []
    keep_total = r.random() < 0.5
    for line in mi.split(b"\n"):
        m = re.match(rb"^(\S+)(\s+)(\d+)(.*)$", line)
        if not m or (m.group(1) == b"MemTotal:" and keep_total):
            out.append(line)
            continue
        name, v = m.group(1), int(m.group(3))
        if name == b"MemAvailable:" and r.random() < 0.4:
            continue                                     # the counter disappears
        nv = r.choice([v // 2 + 1, v // 3, v // 2 + 1, 0 if name not in (b"MemTotal:", b"MemFree:") else v // 4 + 3, v + v // 5 + 11])
        out.append(m.group(1) + m.group(2) + str(nv).encode() + m.group(4))
    if b"MemAvailable:" not in mi and r.random() < 0.6:
        out.insert(2, b"MemAvailable:   %d kB" % r.randrange(1, 50000))    # ... or appears
    return b"\n".join(out)


def _phy_mem(rng, t):
    return [["MemTotal:", 7, str(t), " kB"], ["MemFree:", 8, str(rng.randint(0, t)), " kB"], ["MemAvailable:", 3, str(rng.randint(0, t)), " kB"],
            ["Buffers:", 3, "0", " kB"], ["Cached:", 3, "0", " kB"], ["Shmem:", 3, "0", " kB"], ["Active:", 3, "0", " kB"], ["Inactive:", 3, "0", " kB"]]


def _phymem_directed(rng, shape, totals):
    """every virtual_memory() call sees the NEXT total of the list (MemTotal changes between the calls); memory_percent() sees the last one"""
    ev, i = [], 0
    for op in shape:
        if op == "vm":
            t = totals[min(i, len(totals) - 1)]
            i += 1
            ev.append(["vm", _phy_mem(rng, t)])
        else:
            t = totals[min(i, len(totals) - 1)]
            ev.append(["mp", rng.choice([1, 125, 250]), _phy_mem(rng, t)])
    return {"kind": "phymem", "cls": "phymem-refresh", "events": ev}


def _phymem_case(rng):
    """history of virtual_memory() / Process.memory_percent() calls; MemTotal may change between calls (hotplug, balloon)"""
    totals = [rng.choice([0, 1, 1000, 16384256, 2 ** 40]) for _ in range(3)]
    ev = []
    for _ in range(rng.randint(1, 6)):
        t = rng.choice(totals)
        mem = [["MemTotal:", 7, str(t), " kB"], ["MemFree:", 8, str(rng.randint(0, t)), " kB"], ["MemAvailable:", 3, str(rng.randint(0, t)), " kB"],
               ["Buffers:", 3, "0", " kB"], ["Cached:", 3, "0", " kB"], ["Shmem:", 3, "0", " kB"], ["Active:", 3, "0", " kB"], ["Inactive:", 3, "0", " kB"]]
        if rng.random() < 0.55:
            ev.append(["mp", rng.choice([0, 1, 250, rng.randint(0, 10 ** 7), 2 ** 36]), mem])
        else:
            ev.append(["vm", mem])
    return {"kind": "phymem", "cls": "phymem-" + "".join(e[0][0] for e in ev)[:3], "events": ev}


# ------------------------------------------------------------------ live: the running kernel's files
class LiveFormatError(RuntimeError):
    """the running kernel prints something the kernel printers of coq/C08/Spec.v do not (harness error, never a verdict)"""


def _ascii(b, what):
    try:
        return b.decode("ascii")
    except UnicodeDecodeError:
        raise LiveFormatError("C08 live: non-ASCII byte in %s" % what)


def _lines(b, what):
    if b and not b.endswith(b"\n"):
        raise LiveFormatError("C08 live: %s does not end with a newline" % what)
    return b.split(b"\n")[:-1]


def _parse_meminfo(b):
    """real /proc/meminfo -> entries of the Spec record (mline: name, pad, digits, rest | junk)"""
    import re
    out = []
    for ln in _lines(b, "/proc/meminfo"):
        t = _ascii(ln, "/proc/meminfo")
        m = re.fullmatch(r"(\S+)( +)(\d+)((?:[ \t].*)?)", t)
        out.append([m.group(1), len(m.group(2)) - 1, m.group(3), m.group(4)] if m else ["#junk", t])
    return out


def _parse_zoneinfo(b):
    import re
    out = []
    for ln in _lines(b, "/proc/zoneinfo"):
        t = _ascii(ln, "/proc/zoneinfo")
        if t.strip().startswith("low"):
            m = re.fullmatch(r"([ \t]*)low([ \t]+)(\d+)([ \t]*)", t)
            if not m:
                raise LiveFormatError("C08 live: /proc/zoneinfo line %r starts with 'low' but is not '<blanks>low<blanks><pages>' "
                                      "(Spec.zline has no constructor for it)" % t)
            out.append(["low", m.group(1), m.group(2), m.group(3), m.group(4)])
        else:
            out.append(["other", t])
    return out


def _parse_vmstat(b):
    import re
    out = []
    for ln in _lines(b, "/proc/vmstat"):
        t = _ascii(ln, "/proc/vmstat")
        m = re.fullmatch(r"(\S+) (\d+)((?: .*)?)", t)
        if m:
            out.append([m.group(1), m.group(2), m.group(3)])
        elif t.startswith("pswpin") or t.startswith("pswpout"):
            raise LiveFormatError("C08 live: /proc/vmstat line %r is not 'name value'" % t)
        else:
            out.append(["#junk", t])
    return out


def _kernel_pad(name, val):
    """show_val_kb(): the name is a literal padded to 16 columns, the value is right-aligned in 8"""
    return max(0, 16 - len(name)) + max(0, 8 - len(val))


def _live_checks(mem, zone, vm):
    """facts about the running kernel's files that the generators and notes rely on (harness error when false)"""
    names = [e[0] for e in mem if e[0] != "#junk"]
    bad = []
    if any(e[0] == "#junk" for e in mem):
        bad.append("meminfo has lines that are not 'name number ...': %r" % [e[1] for e in mem if e[0] == "#junk"])
    if len(set(names)) != len(names):
        bad.append("meminfo repeats a name")
    if names[:3] != ["MemTotal:", "MemFree:", "MemAvailable:"]:
        bad.append("meminfo does not start with MemTotal, MemFree, MemAvailable: %r" % names[:3])
    for n in ("Buffers:", "Cached:", "Active:", "Inactive:", "Active(file):", "Inactive(file):", "SwapTotal:", "SwapFree:", "Shmem:",
              "Slab:", "SReclaimable:"):
        if n not in names:
            bad.append("meminfo of this kernel lacks %s" % n)
    for n, pad, val, rest in [e for e in mem if e[0] != "#junk"]:
        if n.startswith("HugePages_"):
            # hugetlb_report_meminfo(): "HugePages_Total:   %5lu" / "HugePages_Free:    %5lu" ...: literal to column 19, then %5lu, no unit
            if rest != "" or pad + 1 != (19 - len(n)) + max(0, 5 - len(val)):
                bad.append("hugetlb count line %s is not '<name padded to 19>%%5lu'" % n)
        else:
            if rest != " kB":
                bad.append("%s has unit suffix %r, not ' kB'" % (n, rest))
            if pad + 1 != _kernel_pad(n, val):
                bad.append("%s: %d blanks, the '%%-16s%%8lu' layout has %d" % (n, pad + 1, _kernel_pad(n, val)))
    lows = [z for z in zone if z[0] == "low"]
    zones = [z for z in zone if z[0] == "other" and z[1].startswith("Node ")]
    if len(lows) != len(zones) or not lows:
        bad.append("zoneinfo: %d 'low' lines for %d zones" % (len(lows), len(zones)))
    for z in lows:
        if (z[1], z[2], z[4]) != (" " * 8, " " * 6, ""):
            bad.append("zoneinfo low line %r is not '        low      %%lu'-shaped" % (z,))
    vnames = [e[0] for e in vm if e[0] != "#junk"]
    if any(e[0] == "#junk" for e in vm) or any(e[2] != "" for e in vm if e[0] != "#junk"):
        bad.append("vmstat has lines that are not exactly 'name value'")
    if len(set(vnames)) != len(vnames):
        bad.append("vmstat repeats a name")
    if "pswpin" not in vnames or "pswpout" not in vnames or vnames.index("pswpout") != vnames.index("pswpin") + 1:
        bad.append("vmstat: pswpin/pswpout missing or not adjacent")
    if [n for n in vnames if (n.startswith("pswpin") or n.startswith("pswpout")) and n not in ("pswpin", "pswpout")]:
        bad.append("vmstat has another counter whose name begins with pswpin/pswpout (wf_vline assumption)")
    if bad:
        raise LiveFormatError("C08 live: the running kernel (%s) contradicts the transcribed formats: %s" % (os.uname().release, "; ".join(bad)))


def _live_cases():
    """snapshot of the running kernel's /proc/meminfo, /proc/zoneinfo, /proc/vmstat (read ONCE), parsed into the Spec record;
    Coq prints the record back (k_meminfo/k_zoneinfo/k_vmstat) and coq_struct compares the printed bytes with the real ones."""
    if not os.path.exists("/proc/meminfo"):
        return []
    snap = {}
    for f in ("meminfo", "zoneinfo", "vmstat"):
        try:
            with open("/proc/" + f, "rb") as fh:
                snap[f] = fh.read()
        except OSError:
            snap[f] = None
    mem = _parse_meminfo(snap["meminfo"])
    zone = None if snap["zoneinfo"] is None else _parse_zoneinfo(snap["zoneinfo"])
    vm = None if snap["vmstat"] is None else _parse_vmstat(snap["vmstat"])
    if zone is not None and vm is not None:
        _live_checks(mem, zone, vm)
    ps = os.sysconf("SC_PAGE_SIZE")
    hx = lambda b: None if b is None else b.hex()
    without = lambda *names: [e for e in mem if e[0] not in names]
    zeroed = [[e[0], e[1] + len(e[2]) - 1, "0", e[3]] if e[0] == "MemAvailable:" else e for e in mem]
    cases = [
        {"kind": "vm", "cls": "live-vm", "ps": ps, "mem": mem, "zone": zone, "live": {"meminfo": hx(snap["meminfo"]), "zoneinfo": hx(snap["zoneinfo"])}},
        # the estimate over the REAL watermarks of every zone: MemAvailable dropped / reported as 0 (kernels < 3.14, issue 1915)
        {"kind": "vm", "cls": "live-vm-estimate", "ps": ps, "mem": without("MemAvailable:"), "zone": zone, "live": {"zoneinfo": hx(snap["zoneinfo"])}},
        {"kind": "vm", "cls": "live-vm-estimate", "ps": ps, "mem": zeroed, "zone": zone, "live": {"zoneinfo": hx(snap["zoneinfo"])}},
        {"kind": "vm", "cls": "live-vm-estimate", "ps": ps, "mem": without("MemAvailable:"), "zone": None, "live": {}},
        {"kind": "vm", "cls": "live-vm-estimate", "ps": ps, "mem": without("MemAvailable:", "SReclaimable:"), "zone": None, "live": {}},
        {"kind": "vm", "cls": "live-vm-old", "ps": ps, "mem": without("MemAvailable:", "Shmem:", "Slab:", "Active(file):", "Inactive(file):", "SReclaimable:"),
         "zone": None, "live": {}},
        {"kind": "swap", "cls": "live-swap", "ps": ps, "mem": mem, "sysinfo": [0, 0, 1], "vmstat": vm, "live": {"meminfo": hx(snap["meminfo"]), "vmstat": hx(snap["vmstat"])}},
        {"kind": "swap", "cls": "live-swap", "ps": ps, "mem": without("SwapTotal:"), "sysinfo": [12345, 2345, 4096], "vmstat": vm, "live": {"vmstat": hx(snap["vmstat"])}},
        {"kind": "swap", "cls": "live-swap", "ps": ps, "mem": mem, "sysinfo": [0, 0, 1], "vmstat": None, "live": {"meminfo": hx(snap["meminfo"])}},
        {"kind": "livereal", "cls": "live-real"},
    ]
    return cases


# ------------------------------------------------------------------ files beyond the 32 KiB read buffer
BIG_MEM = [["MemTotal:", 7, "100000000", " kB"], ["MemFree:", 8, "50000000", " kB"], ["Buffers:", 8, "1000", " kB"], ["Cached:", 9, "2000000", " kB"],
           ["Active(file):", 3, "3000000", " kB"], ["Inactive(file):", 1, "2500000", " kB"], ["SReclaimable:", 4, "400000", " kB"]]


def _big_cases(rng, tier):
    """/proc/zoneinfo of a 48-CPU, 5-zone machine (about 42 KB, built inside Coq by Spec.big_zoneinfo from a seed) with a filler line
    that moves byte offset 8192 / 16384 / 32768 (buffer sizes in use) into the digits of a 'low' line, onto its first / last digit or exactly
    onto its end; meminfo and vmstat whose decisive lines lie beyond 32 KiB"""
    out = []
    plan = [(1, 3, 32768), (2, 3, 32768), (3, 3, 32768), (4, 3, 32768), (1, 0, 8192), (2, 1, 16384)]
    if tier == "thorough":
        plan += [(m, j, at) for m in (1, 2, 3, 4) for j, at in ((2, 32768), (1, 16384), (0, 8192), (3, 30000))]
    for mode, j, at in plan:
        out.append({"kind": "vm", "cls": "big-zoneinfo-mode%d" % mode, "ps": 4096, "mem": BIG_MEM, "zone": "big",
                    "big": {"nodes": 1, "zones": 5, "cpus": 48, "seed": rng.randint(0, 10 ** 6), "mode": mode, "j": j, "at": at}})
    out.append({"kind": "swap", "cls": "big-meminfo-vmstat", "ps": 4096, "sysinfo": [7, 3, 1024], "vmstat": "big", "mem": "big",
                "bigswap": {"nm": 110, "w": 300, "nv": 110,
                            "mtail": [["SwapTotal:", 5, str(rng.randint(1000, 10 ** 7)), " kB"], ["SwapFree:", 6, str(rng.randint(0, 1000)), " kB"]],
                            "vtail": [["pswpin", str(rng.randint(1, 10 ** 6))], ["pgfault", "9"], ["pswpout", str(rng.randint(1, 10 ** 6))]]}})
    out.append({"kind": "vm", "cls": "big-meminfo", "ps": 4096, "zone": None, "mem": "big",
                "bigmem": {"nm": 110, "w": 300, "mtail": [["MemTotal:", 7, "1000000", " kB"], ["MemFree:", 8, "400000", " kB"], ["MemAvailable:", 3, "300000", " kB"],
                                                          ["Buffers:", 8, "1000", " kB"], ["Cached:", 9, "20000", " kB"], ["Shmem:", 3, "5", " kB"]]}})
    return out


def _spread(cases, big):
    """put every expensive case into a shard of its own (the Coq evaluation runs one process per shard)"""
    for i, c in enumerate(big):
        cases.insert(min(len(cases), i * SHARD + 20), c)
    return cases


RAW_MEM = [
    b"", b"\n", b"MemTotal: 100 kB\n", b"MemFree: 100 kB\n", b"MemTotal: 100 kB\nMemFree: 10 kB\n",
    b"MemTotal: 100 kB\nMemFree: 10 kB\n\n", b"MemTotal: 100 kB\nMemFree: 10 kB\nBuffers:\n",
    b"MemTotal: 100 kB\nMemFree: 10 kB\nBuffers: abc kB\n", b"MemTotal: 100 kB\nMemFree: 10 kB\nBuffers: -5 kB\n",
    b"MemTotal: 100 kB\nMemFree: 10 kB\nCached: 1_0 kB\nBuffers: +5 kB\n", b"MemTotal: 100 kB\r\nMemFree: 10 kB\r\n",
    b"MemTotal: 100 kB\nMemFree: 10 kB\nMemTotal: 50 kB\n", b"\tMemTotal:\t100\nMemFree: 10", b"MemTotal:100 kB\nMemFree: 10 kB\n",
    b"MemTotal: 100 kB\nMemFree: 10 kB\nMemAvailable: 0 kB\nActive(file): 10 kB\nInactive(file): 20 kB\nSReclaimable: 6 kB\n",
    b"MemTotal: 100 kB\nMemFree: 10 kB\nActive(file): 10 kB\nInactive(file): 21 kB\nSReclaimable: 7 kB\nCached: 3 kB\n",
    b"MemTotal: 100 kB\nMemFree: -10 kB\nMemAvailable: -3 kB\n", b"MemTotal: -100 kB\nMemFree: 10 kB\nMemAvailable: 30 kB\n",
    b"MemTotal: 100 kB\nMemFree: 10 kB\nMemAvailable: 0x10 kB\n", b"MemTotal: 1\xff0 kB\nMemFree: 10 kB\n",
    b"MemTotal: 100 kB\nMemFree: 10 kB\nSwapTotal: 50 kB\n", b"MemTotal: 100 kB\nMemFree: 10 kB\nSwapTotal: 50 kB\nSwapFree: 60 kB\n",
    # Linux 2.4 printed a three-line legacy header before the "Name: value kB" lines
    b"        total:    used:    free:  shared: buffers:  cached:\nMem:  1050001408 1031790592 18210816        0 134393856 588922880\n"
    b"Swap: 2097434624   589824 2096844800\nMemTotal:      1025392 kB\nMemFree:         17784 kB\nMemShared:           0 kB\n",
    b"SwapTotal: 0 kB\nSwapFree: 0 kB\n", b"SwapTotal: -8 kB\nSwapFree: 2 kB\n", b"x\n", b"MemTotal: 7 kB\nMemFree: 9 kB\nMemAvailable: 9 kB\n",
]
RAW_ZONE = [None, b"", b"low 5\n", b"  low   5\n  low 6\n", b"low\n", b"low x\n", b"lowmem 5 6\n", b"  low 5 6\n", b"high 5\nLow 9\n",
            b"low 1_0\n", b"low -3\n", b"\xa0low 5\n", b"low 5", b"   \n\n low\t7\r\n", b"low 99999999999999\n"]
RAW_VMSTAT = [None, b"", b"pswpin 5\npswpout 6\n", b"pswpin 5\n", b"pswpout 6\n", b"pswpout 6\npswpin 5\n", b"pswpin\n", b"pswpin  5\npswpout 6\n",
              b"pswpin\t5\npswpout 6\n", b"pswpin_x 3\npswpout 6\n", b"pswpin 1\npswpin 2\npswpout 3\npswpout 4\n",
              b"pswpin 1\npswpout 3\npswpin x\n", b"pswpin x\npswpout 3\n", b"pswpin 5 6\npswpout 7 8\n", b" pswpin 5\npswpout 6\n",
              b"pswpin 5\npswpout 6", b"pswpin -5\npswpout +6\n", b"pswpinpswpout 5\npswpout 6\n", b"nr_free_pages 7\n", b"pswpin 5\r\npswpout 6\r\n"]


def gen_cases(rng, tier):
    n_rand = {"quick": 210, "thorough": 8000, "search": 700}[tier]
    n_swap = {"quick": 170, "thorough": 6000, "search": 400}[tier]
    n_raw = {"quick": 90, "thorough": 2500, "search": 200}[tier]
    reps = {"quick": 1, "thorough": 6, "search": 1}[tier]
    amodes = ["absent", "zero", "value", "gt", "eq"]
    zmodes = ["absent", "empty", "zones", "zones", "bigwm"]
    cases = []
    if tier != "search":
        cases += _live_cases()
    if tier != "search":
        # exhaustive: every subset of the 9 optional field groups
        for rep in range(reps):
            for m in range(512):
                present = {g for i, g in enumerate(GROUPS) if m >> i & 1}
                for g in ("Active(file):", "Inactive(file):"):
                    if rng.random() < 0.7:
                        present.add(g)
                mag = MAGS[(m + rep) % len(MAGS)] if reps > 1 else rng.choice(MAGS)
                cases.append(_vm_case(rng, present, mag, rng.choice(amodes), rng.choice(zmodes), cls="vm-subset"))
            # exhaustive: MemAvailable mode x subsets of the fallback's inputs
            for amode in ["absent", "zero", "value", "gt", "absent-bigwm", "zero-bigwm"]:
                for m in range(16):
                    present = {g for i, g in enumerate(AVGROUP) if m >> i & 1}
                    present |= {g for g in GROUPS[:2] + GROUPS[3:] if rng.random() < 0.8}
                    zmode = ("bigwm" if amode.endswith("bigwm") else "zones") if "zoneinfo" in present else "absent"
                    mag = rng.choice(["normal", "normal", "distorted", "tiny", "freegt", "zero"])
                    cases.append(_vm_case(rng, present, mag, amode.split("-")[0], zmode, cls="vm-availpath"))
    if tier != "search":
        # exhaustive: /proc/zoneinfo exists but cannot be opened (EACCES, EIO, EISDIR) or read (EIO)
        #             x MemAvailable {absent, 0, value} x every subset of the estimate's three meminfo inputs
        for rep in range(reps):
            for zf in ZFAULTS:
                for amode in ("absent", "zero", "value"):
                    for m in range(8):
                        present = {g for i, g in enumerate(AVGROUP[:3]) if m >> i & 1}
                        present |= {g for g in GROUPS[:2] + GROUPS[3:] if rng.random() < 0.8}
                        c = _vm_case(rng, present, rng.choice(["normal", "normal", "tiny", "distorted", "zero"]), amode, "absent",
                                     cls="vm-zoneinfo-" + zf)
                        c["zfault"] = zf
                        cases.append(c)
        # directed: virtual_memory() again after MemTotal changed, then memory_percent()
        tl = [1000, 4000, 16384256, 1]
        for t1 in tl:
            for t2 in tl:
                if t1 != t2:
                    for shape in (["vm", "vm", "mp"], ["mp", "vm", "mp"], ["vm", "mp", "vm", "mp"], ["vm", "vm", "vm", "mp"]):
                        cases.append(_phymem_directed(rng, shape, [t1, t2]))
    # systematic (every tier, never sampled): /proc/meminfo CHANGES BETWEEN TWO OPENS MADE INSIDE ONE CALL -- the k-th open of
    # {procfs}/meminfo within the call is served snapshot k; the demanded answer is the spec of the FIRST snapshot (one call = one
    # reading).  MemAvailable {value, absent, 0} x zoneinfo {present, absent} x second snapshot {differs, malformed, missing, EACCES}
    # x 2 draws, all inputs of the estimate present so that the fallback path consults /proc/zoneinfo; same for swap_memory().
    cases += _reopen_cases(rng)
    for _ in range(n_rand):
        present = {g for g in GROUPS + AVGROUP[:2] if rng.random() < rng.choice([0.5, 0.9, 0.97])}
        cases.append(_vm_case(rng, present, rng.choice(MAGS), rng.choice(amodes), rng.choice(zmodes),
                              ps=rng.choice([4096] * 5 + [16384, 65536]), shuffle=rng.random() < 0.25))
    for _ in range(n_swap):
        cases.append(_swap_case(rng, tier))
    for i in range(n_rand // 15):
        present = {g for g in GROUPS + AVGROUP[:2] if rng.random() < 0.9}
        cases.append(_vm_case(rng, present, rng.choice(["normal", "tiny", "zero"]), rng.choice(amodes), rng.choice(zmodes),
                              junk="legacy" if i % 2 == 0 else "line"))
    for _ in range(n_rand // 6):      # the estimate's double arithmetic beyond 2^53
        present = set(GROUPS) | set(AVGROUP)
        cases.append(_vm_case(rng, present, "huge", rng.choice(["absent", "zero"]), rng.choice(["zones", "bigwm"]),
                              ps=rng.choice([4096, 4096, 65536]), cls="vm-float-path"))
    for _ in range(n_rand // 6):
        cases.append(_phymem_case(rng))
    for i in range(n_raw):
        if i % 2 == 0:
            mi = rng.choice(RAW_MEM)
            if rng.random() < 0.3:
                mi = mi + rng.choice(RAW_MEM)
            zi = rng.choice(RAW_ZONE)
            cases.append({"kind": "vmraw", "cls": "vm-raw", "ps": 4096, "meminfo": mi.hex(), "zoneinfo": None if zi is None else zi.hex()})
        else:
            mi = rng.choice(RAW_MEM)
            vi = rng.choice(RAW_VMSTAT)
            cases.append({"kind": "swapraw", "cls": "swap-raw", "ps": rng.choice([4096, 4096, 16384, 65536]), "meminfo": mi.hex(), "sysinfo": [rng.choice([0, 9, 77]), rng.choice([0, 5]), rng.choice([1, 4096])],
                          "vmstat": None if vi is None else vi.hex()})
    if tier != "search":
        cases = _spread(cases, _big_cases(rng, tier))
    return cases


# ------------------------------------------------------------------ Coq terms
def _rest(x):
    if x is True:
        return " kB"
    if x is False:
        return ""
    return x


def _by(x):
    """bytes literal: (bs "text") for plain printable ASCII (parsed much faster by coqc than a list of numbers), else the list"""
    if isinstance(x, str) and x and all(32 <= ord(ch) <= 126 and ch != '"' for ch in x):
        return '(bs "%s")' % x
    return G.by(x)


def _mem_term(mem):
    its = []
    for e in mem:
        if e[0] == "#junk":
            its.append("(MJunk %s)" % _by(e[1]))
        else:
            n, p, v, r = e
            its.append("(MLine (Build_mline %s %s %s %s))" % (_by(n), G.nat(p), _by(v), _by(_rest(r))))
    return G.lst(its)


def _has_junk(mem):
    return any(e[0] == "#junk" for e in mem)


def _ws(x, extra=0):
    return " " * (x + extra) if isinstance(x, int) else x


def _zone_term(zone):
    if zone is None:
        return "None"
    its = []
    for z in zone:
        if z[0] == "low":
            w3 = z[4] if len(z) > 4 else ""
            its.append("(ZLow %s %s %s %s)" % (_by(_ws(z[1])), _by(_ws(z[2], 1)), _by(z[3]), _by(w3)))
        else:
            its.append("(ZOther %s)" % _by(z[1]))
    return "(Some %s)" % G.lst(its)


def _vm_term(vm):
    if vm is None:
        return "None"
    its = []
    for e in vm:
        if e[0] == "#junk":
            its.append("(VJunk %s)" % _by(e[1]))
        else:
            its.append("(VLine (Build_vline %s %s %s))" % (_by(e[0]), _by(e[1]), _by(e[2] if len(e) > 2 else "")))
    return "(Some %s)" % G.lst(its)


def _si(si):
    return "(%s, %s, %s)" % (G.z(si[0]), G.z(si[1]), G.z(si[2]))


def _optb(hexs):
    return "None" if hexs is None else "(Some %s)" % G.by(bytes.fromhex(hexs))


def coq_term(case):
    k = case["kind"]
    L = G.bo(LENIENT)
    if k == "vm" and case.get("big"):
        b = case["big"]
        return "run_vm_big %s %s %s %s %s %s %s %s %s %s" % (L, G.z(case["ps"]), _mem_term(case["mem"]), G.nat(b["nodes"]), G.nat(b["zones"]), G.nat(b["cpus"]),
                                                             G.z(b["seed"]), G.nat(b["mode"]), G.nat(b["j"]), G.z(b["at"]))
    if k == "swap" and case.get("bigswap"):
        b = case["bigswap"]
        return "run_swap_big %s %s %s %s %s %s %s %s" % (L, G.z(case["ps"]), G.nat(b["nm"]), G.nat(b["w"]), _mem_term(b["mtail"]), _si(case["sysinfo"]),
                                                         G.nat(b["nv"]), _vm_term(b["vtail"])[6:-1])
    if k == "vm" and case.get("bigmem"):
        b = case["bigmem"]
        return "run_vm_bigmem %s %s %s %s %s %s" % (L, G.z(case["ps"]), G.nat(b["nm"]), G.nat(b["w"]), _mem_term(b["mtail"]), _zone_term(case["zone"]))
    if case.get("live") is not None and k in ("vm", "swap"):
        def real(name):
            h = case["live"].get(name)
            if h is None:
                return "None"
            return "(Some %s)" % G.lst([_by(_ascii(ln, name)) if ln else "[]" for ln in _lines(bytes.fromhex(h), name)])
        if k == "vm":
            return "run_vm_live %s %s %s %s %s %s" % (L, G.z(case["ps"]), _mem_term(case["mem"]), _zone_term(case["zone"]), real("meminfo"), real("zoneinfo"))
        return "run_swap_live %s %s %s %s %s %s %s" % (L, G.z(case["ps"]), _mem_term(case["mem"]), _si(case["sysinfo"]), _vm_term(case["vmstat"]),
                                                       real("meminfo"), real("vmstat"))
    if k == "vm" and case.get("zfault"):
        z = {"EACCES": "(ZOpenErr EACCES)", "EIO": "(ZOpenErr EIO)", "EISDIR": "(ZOpenErr EISDIR)", "READ_EIO": "(ZReadErr [])"}[case["zfault"]]
        return "run_vm_z %s %s %s %s" % (L, G.z(case["ps"]), _mem_term(case["mem"]), z)
    if k == "vm":
        return "run_vm %s %s %s %s" % (L, G.z(case["ps"]), _mem_term(case["mem"]), _zone_term(case["zone"]))
    if k == "swap":
        return "run_swap %s %s %s %s %s" % (L, G.z(case["ps"]), _mem_term(case["mem"]), _si(case["sysinfo"]), _vm_term(case["vmstat"]))
    if k == "vmraw":
        return "run_vm_raw %s %s %s %s" % (L, G.z(case["ps"]), G.by(bytes.fromhex(case["meminfo"])), _optb(case["zoneinfo"]))
    if k == "swapraw":
        return "run_swap_raw %s %s %s %s %s" % (L, G.z(case.get("ps", 4096)), G.by(bytes.fromhex(case["meminfo"])), _si(case["sysinfo"]), _optb(case["vmstat"]))
    if k == "livereal":
        return 'JC "None" []'
    if k == "phymem":
        evs = []
        for e in case["events"]:
            if e[0] == "vm":
                evs.append("(PVm %s)" % _mem_term(e[1]))
            else:
                evs.append("(PMp %s %s)" % (G.z(e[1] * 4096), _mem_term(e[2])))
        return "run_phymem %s" % G.lst(evs)
    raise ValueError(k)


def _canon_vm(o):
    """sort the warning's names (the harness compares them as a set)"""
    if isinstance(o, dict) and o.get("t") == "Val":
        r = list(o["a"][0])
        r[11] = sorted(r[11], key=lambda x: x["b"])
        return Val(r)
    return o


def _live_struct(case, raw):
    """Coq compared the bytes printed by Spec.k_meminfo / k_zoneinfo / k_vmstat for the parsed record with the running kernel's
    bytes: raw[1] (zoneinfo / vmstat) and raw[-1] (meminfo) are True / False / None (= that file was altered or is absent)."""
    second = "zoneinfo" if case["kind"] == "vm" else "vmstat"
    for flag, name in ((raw[-1], "meminfo"), (raw[1], second)):
        if flag is False:
            raise LiveFormatError("C08 live: Spec.k_%s does not print the running kernel's /proc/%s byte for byte from the parsed record "
                                  "(case class %s, kernel %s)" % (name, name, case["cls"], os.uname().release))
        if (case["live"].get(name) is not None) != (flag is True):
            raise LiveFormatError("C08 live: comparison flag for %s is %r" % (name, flag))
    if raw[3] is None:
        raise LiveFormatError("C08 live: the running kernel's files are outside the specification's domain "
                              "(wf_kernel / has_total_free / float_exact false) for case class %s" % case["cls"])
    # the second file as the implementation will read it: the real bytes when unaltered (just shown equal to the printed ones)
    h = case["live"].get(second)
    aux = None if h is None else {"b": h}
    if h is None and (case["zone"] if case["kind"] == "vm" else case["vmstat"]) is not None:
        raise LiveFormatError("C08 live: altered %s not supported" % second)
    out = list(raw[:-1])
    out[1] = aux
    return out


def _text(lines):
    """JL of JC "<line text>" [] (see Run.jlines) -> the file's bytes"""
    return B("".join(x["t"] if isinstance(x, dict) else {True: "True", False: "False", None: "None"}[x] for x in lines).encode("latin-1"))


def _big_struct(case, raw):
    raw = list(raw)
    info = raw.pop()
    if raw[3] is None:
        raise RuntimeError("C08 big: generated file outside the specification's domain: %r" % (case,))
    if case.get("big"):
        b = case["big"]
        raw[1] = _text(raw[1])
        n, lows, span = info
        if n != len(unB(raw[1])) or n <= 32768:
            raise RuntimeError("C08 big: zoneinfo has %d bytes (text %d), expected more than 32768" % (n, len(unB(raw[1]))))
        want = {0: None, 1: span[0] + 1, 2: span[1], 3: span[0], 4: span[1] - 2}[b["mode"]] if span else None
        if b["mode"] and want != b["at"]:
            raise RuntimeError("C08 big: offset %d not aligned as requested (mode %d): digits at %r" % (b["at"], b["mode"], span))
    elif case.get("bigswap"):
        raw[0], raw[1] = _text(raw[0]), _text(raw[1])
        if min(info) <= 32768:
            raise RuntimeError("C08 big: meminfo/vmstat sizes %r, expected more than 32768" % (info,))
    else:
        raw[0] = _text(raw[0])
        if info[0] <= 32768:
            raise RuntimeError("C08 big: meminfo size %r, expected more than 32768" % (info,))
    return raw


def coq_struct(case, raw):
    k = case["kind"]
    if k == "livereal":
        return {"model": None, "spec": None}
    if case.get("live") is not None:
        raw = _live_struct(case, raw)
    if case.get("big") or case.get("bigswap") or case.get("bigmem"):
        raw = _big_struct(case, raw)
    if k == "vm":
        return {"printed": [raw[0], raw[1]], "model": _canon_vm(raw[2]), "spec": None if raw[3] is None else _canon_vm(raw[3]),
                "junk": raw[4], "float_exact": raw[5]}
    if k == "swap":
        return {"printed": [raw[0], raw[1]], "model": raw[2], "spec": raw[3], "junk": raw[4]}
    if k == "vmraw":
        return {"model": _canon_vm(raw[0]), "spec": None}
    if k == "swapraw":
        return {"model": raw[0], "spec": None}
    if k == "phymem":
        return {"printed": raw[0], "model": raw[1], "spec": raw[2]}


# ------------------------------------------------------------------ judge
def _is_val(o):
    return isinstance(o, dict) and o.get("t") == "Val"


def _pct_ok(pf, t, num, den):
    """pf: the implementation's percent as an exact Fraction (of the float it returned); t: expected tenths
    (round-half-even of the exact ratio); num/den: exact used, total.
    EXACT comparison (the float must be the double nearest to t/10) unless the exact percentage lies within
    1e-9 (or, for astronomically large ratios, the float noise |x|*2^-49) of a rounding boundary, where
    either neighbouring tenth is accepted."""
    if den == 0:
        return pf == 0
    x10 = Fraction(num * 1000, den)                       # exact percentage, in tenths
    noise = max(Fraction(1, 10 ** 8), abs(x10) / 2 ** 49)   # 1e-9 percent = 1e-8 tenths
    dist = abs((x10 - (x10.numerator // x10.denominator)) - Fraction(1, 2))
    big = abs(t) >= 2 ** 52                                # round(x, 1) returns x itself: only float noise left
    if dist > noise and not big:
        return pf == Fraction(t / 10)                      # int / int is correctly rounded: the double nearest to t/10
    slack = abs(t) / Fraction(2 ** 49) + (0 if dist > noise else 1)
    return abs(pf * 10 - t) <= slack


def _norm(impl_main, side, target, pct_idx, used_total):
    """replace the implementation's percent slot by the target's tenths when it is that value up to float noise"""
    if not (_is_val(impl_main) and _is_val(target)):
        return impl_main
    r = list(impl_main["a"][0])
    t = target["a"][0]
    num, den = used_total(t)
    pf = Fraction(side["pct"][0], side["pct"][1])
    r[pct_idx] = t[pct_idx] if _pct_ok(pf, t[pct_idx], num, den) else ["pct", side["pct"]]
    return Val(r)


def _ratio_ok(fr, nd):
    """memory_percent(): float vs exact ratio value*100/total (three float operations)"""
    ex = Fraction(nd[0], nd[1])
    return abs(Fraction(fr[0], fr[1]) - ex) <= abs(ex) / 2 ** 49


def _judge_phymem(case, coq, impl):
    from pv.core import Verdict
    steps, side = impl

    def norm(target):
        out = []
        for st, tg in zip(steps, target):
            c, o = st
            if _is_val(o) and _is_val(tg[1]) and isinstance(o["a"][0], list) and isinstance(tg[1]["a"][0], list) \
                    and tg[1]["a"][0][1] != 0 and _ratio_ok(o["a"][0], tg[1]["a"][0]):
                o = tg[1]
            out.append([c, o])
        return out
    if coq["spec"] is not None and (len(steps) != len(coq["spec"]) or norm(coq["spec"]) != coq["spec"]):
        return Verdict("violation", "cached total / memory_percent differ from the demanded history: %r" % (steps,))
    if len(steps) != len(coq["model"]) or norm(coq["model"]) != coq["model"]:
        return Verdict("corr", "impl != model")
    if not side.get("types_ok", True):
        return Verdict("corr", "memory_percent() did not return a float")
    return Verdict("ok")


def judge(case, coq, impl):
    from pv.core import Verdict
    if case["kind"] == "phymem":
        return _judge_phymem(case, coq, impl)
    if case["kind"] == "livereal":
        if isinstance(impl, dict) and impl.get("t") == "Skip":
            return Verdict("skip", str(impl.get("a")))
        bad = sorted(k for k, v in impl["facts"].items() if v is not True)
        if bad:
            return Verdict("violation", "psutil over the REAL /proc of the running kernel: %s fail(s); observed %r" % (bad, impl["seen"]))
        return Verdict("ok")
    main, side = (impl, {}) if isinstance(impl, dict) else impl
    model, spec = coq["model"], coq["spec"]
    vm = case["kind"] in ("vm", "vmraw")
    if vm:
        idx, ut = 2, (lambda t: (t[0] - t[1], t[0]))
    else:
        idx, ut = 3, (lambda t: (t[1], t[0]))
    layout_bad = _is_val(main) and not (side.get("layout_ok") and side.get("types_ok"))
    if spec is not None:
        got = _norm(main, side, spec, idx, ut)
        if layout_bad:
            return Verdict("violation", "record layout/types differ from the documented tuple: %r" % (side,))
        if vm and _is_val(got) and _is_val(spec):
            g, s = got["a"][0], spec["a"][0]
            if g[:11] != s[:11]:
                bad = [FIELD_ORDER[i] for i in range(11) if g[i] != s[i]]
                return Verdict("violation", "fields differ from the documented formulas: %s" % bad)
            gn, sn = {x["b"] for x in g[11]}, {x["b"] for x in s[11]}
            if not sn <= gn:
                return Verdict("violation", "metric set to 0 but not named in a RuntimeWarning: %s" % sorted(bytes.fromhex(x).decode() for x in sn - gn))
            if not side.get("cat_ok"):
                return Verdict("violation", "warning is not a RuntimeWarning / not in the documented wording: %r" % (side.get("warns"),))
        elif not vm and _is_val(got) and _is_val(spec):
            g, s = list(got["a"][0]), list(spec["a"][0])
            if g != s:
                bad = [(SWAP_ORDER + ["warned"])[i] for i in range(7) if g[i] != s[i]]
                return Verdict("violation", "swap fields differ from the documented formulas: %s" % bad)
            if not side.get("cat_ok"):
                return Verdict("violation", "warning is not a RuntimeWarning naming sin/sout: %r" % (side.get("warns"),))
        elif got != spec:
            return Verdict("violation", "call failed although only optional fields are missing: %r" % (main,))
    gotm = _norm(main, side, model, idx, ut)
    if gotm != model:
        return Verdict("corr", "impl != model")
    if _is_val(main) and vm and side.get("phymem") != main["a"][0][0]:
        return Verdict("corr", "_TOTAL_PHYMEM %r != total" % (side.get("phymem"),))
    if layout_bad:
        return Verdict("corr", "record layout/types: %r" % (side,))
    return Verdict("ok")


def finding_key(case, coq):
    return None      # no known (unrepaired) finding class: the oracle applies to every generated case


# ------------------------------------------------------------------ implementation side
def impl_setup(env):
    pass


def _write(path, data):
    if os.path.isdir(path):
        os.rmdir(path)
    if data is None:
        if os.path.exists(path):
            os.unlink(path)
        return
    with open(path, "wb") as f:
        f.write(data)


def _impl_phymem(case, coq, env):
    import warnings

    import psutil
    from psutil import _pslinux
    from pv import fakeproc
    root = os.path.join(env["work"], "procphy")
    fp = fakeproc.FakeProc(root)
    old_path, old_ps = psutil.PROCFS_PATH, _pslinux.PAGESIZE
    fakeproc.attach(psutil, root)
    _pslinux.PAGESIZE = 4096
    pid = 4243
    fp.add(pid)
    steps, side = [], {"types_ok": True}
    try:
        psutil._TOTAL_PHYMEM = None
        p = psutil.Process(pid)
        for e, printed in zip(case["events"], coq["printed"]):
            _write(os.path.join(root, "meminfo"), unB(printed))
            _write(os.path.join(root, "zoneinfo"), None)
            with warnings.catch_warnings():
                warnings.simplefilter("ignore")
                if e[0] == "vm":
                    o = outcome(psutil.virtual_memory, lambda r: r.total)
                else:
                    fp.write(pid, "statm", b"%d %d 3 4 0 5 0\n" % (e[1] + 10, e[1]))

                    def conv(x):
                        if type(x) is not float:
                            side["types_ok"] = False
                        fr = Fraction(x)
                        return [fr.numerator, fr.denominator]
                    o = outcome(p.memory_percent, conv)
            steps.append([psutil._TOTAL_PHYMEM, o])
        return [steps, side]
    finally:
        psutil.PROCFS_PATH, _pslinux.PAGESIZE = old_path, old_ps
        psutil._TOTAL_PHYMEM = None


def _impl_livereal(case, coq, env):
    """psutil over the real /proc of the running kernel; only facts that do not depend on timing"""
    import warnings

    import psutil
    from psutil import _pslinux
    from pv.canon import T

    def kb(b, name):
        for ln in b.split(b"\n"):
            f = ln.split()
            if f and f[0] == name:
                return int(f[1]) * 1024
        return None
    old_path = psutil.PROCFS_PATH
    psutil.PROCFS_PATH = "/proc"
    try:
        psutil._TOTAL_PHYMEM = None
        m1 = open("/proc/meminfo", "rb").read()
        with warnings.catch_warnings(record=True) as ws:
            warnings.simplefilter("always")
            vm = psutil.virtual_memory()
            cached_total = psutil._TOTAL_PHYMEM
            sw = psutil.swap_memory()
        si = _pslinux.cext.linux_sysinfo()
        m2 = open("/proc/meminfo", "rb").read()
        v1 = open("/proc/vmstat", "rb").read() if os.path.exists("/proc/vmstat") else b""
    finally:
        psutil.PROCFS_PATH = old_path
        psutil._TOTAL_PHYMEM = None
    if kb(m1, b"MemTotal:") != kb(m2, b"MemTotal:") or kb(m1, b"SwapTotal:") != kb(m2, b"SwapTotal:"):
        return T("Skip", "MemTotal/SwapTotal changed during the observation")
    ps = _pslinux.PAGESIZE
    lo = lambda n: min(kb(m1, n), kb(m2, n))
    hi = lambda n: max(kb(m1, n), kb(m2, n))
    u0 = vm.total - vm.free - vm.cached - vm.buffers
    facts = {
        "total = MemTotal kB x 1024": vm.total == kb(m1, b"MemTotal:"),
        "used follows the formula on the reported fields": vm.used == (u0 if u0 >= 0 else vm.total - vm.free),
        "0 <= available <= total": 0 <= vm.available <= vm.total,
        "percent = half-even tenth of (total-available)/total": _pct_ok(Fraction(vm.percent), round_half_even((vm.total - vm.available) * 1000, vm.total),
                                                                         vm.total - vm.available, vm.total),
        "no RuntimeWarning on this kernel (every metric is provided)": len(ws) == 0,
        "no metric is 0 for lack of a field": all(getattr(vm, n) >= 0 for n in FIELD_ORDER if n != "percent") and vm.total > 0,
        "_TOTAL_PHYMEM = total": cached_total == vm.total,
        "page size is the kernel's": ps == os.sysconf("SC_PAGE_SIZE"),
        "swap total = SwapTotal kB x 1024": sw.total == kb(m1, b"SwapTotal:"),
        "swap used = total - free": sw.used == sw.total - sw.free,
        "swap percent": _pct_ok(Fraction(sw.percent), round_half_even(sw.used * 1000, sw.total) if sw.total else 0, sw.used, sw.total),
        "sysinfo(2) swap figures = meminfo's (the fallback source agrees with the primary one)": si[4] * si[6] == kb(m1, b"SwapTotal:"),
        "sin/sout are multiples of the page size": sw.sin % ps == 0 and sw.sout % ps == 0,
        "svmem/sswap layout": list(vm._fields) == FIELD_ORDER and list(sw._fields) == SWAP_ORDER,
    }
    if b"pswpin" in v1:
        facts["no swap warning (vmstat has the counters)"] = True   # warnings already required to be empty
    for n, attr in ((b"Buffers:", "buffers"), (b"Shmem:", "shared"), (b"Slab:", "slab"), (b"Active:", "active"), (b"Inactive:", "inactive")):
        # racy figures: the value reported must lie between the two snapshots taken around the call, widened by 64 MiB
        slack = 64 * 1024 * 1024
        facts["%s within the surrounding snapshots" % attr] = lo(n) - slack <= getattr(vm, attr) <= hi(n) + slack
    seen = {"vm": [getattr(vm, n) for n in FIELD_ORDER], "swap": [getattr(sw, n) for n in SWAP_ORDER], "sysinfo": list(si),
            "warnings": [str(w.message) for w in ws], "kernel": os.uname().release}
    return {"facts": facts, "seen": seen}


def round_half_even(n, d):
    """nearest integer to n/d (d > 0), ties to even -- Model.round_he"""
    q, r = divmod(n, d)
    if 2 * r < d:
        return q
    if 2 * r > d:
        return q + 1
    return q if q % 2 == 0 else q + 1


def impl_run(case, coq, env):
    import warnings

    import psutil
    from psutil import _pslinux
    k = case["kind"]
    if k == "phymem":
        return _impl_phymem(case, coq, env)
    if k == "livereal":
        return _impl_livereal(case, coq, env)
    root = os.path.join(env["work"], "proc")
    os.makedirs(root, exist_ok=True)
    if k in ("vm", "swap"):
        mi = unB(coq["printed"][0])
        aux = None if coq["printed"][1] is None else unB(coq["printed"][1])
    else:
        mi = bytes.fromhex(case["meminfo"])
        h = case["zoneinfo"] if k == "vmraw" else case["vmstat"]
        aux = None if h is None else bytes.fromhex(h)
    vm = k in ("vm", "vmraw")
    _write(os.path.join(root, "meminfo"), mi)
    _write(os.path.join(root, "zoneinfo"), aux if vm else None)
    _write(os.path.join(root, "vmstat"), None if vm else aux)
    old_path, old_ps, old_si = psutil.PROCFS_PATH, _pslinux.PAGESIZE, _pslinux.cext.linux_sysinfo
    old_open = _pslinux.open_binary
    zf = case.get("zfault")
    if zf:
        import errno
        zpath = os.path.join(root, "zoneinfo")
        if zf == "EISDIR":
            os.mkdir(zpath)           # a real directory: open() raises IsADirectoryError by itself
        else:
            with open(zpath, "wb") as f:      # the file exists
                f.write(b"Node 0, zone   Normal\n        low      5\n")

            class _Broken:
                def __enter__(self):
                    return self

                def __exit__(self, *a):
                    return False

                def __iter__(self):
                    return self

                def __next__(self):
                    raise OSError(errno.EIO, "Input/output error")

                def read(self, *a):
                    raise OSError(errno.EIO, "Input/output error")

                readline = read

                def close(self):
                    pass

            def fake_open_binary(fname, *a, **kw):
                if fname == zpath:
                    if zf == "EACCES":
                        raise PermissionError(errno.EACCES, "Permission denied", fname)
                    if zf == "EIO":
                        raise OSError(errno.EIO, "Input/output error", fname)
                    return _Broken()
                return old_open(fname, *a, **kw)
            _pslinux.open_binary = fake_open_binary
    import builtins
    old_builtin_open = builtins.open
    ro = case.get("reopen")
    opens = []
    if ro:
        # the file changes between two opens made inside ONE call: open no. 1 of {procfs}/meminfo gets the first snapshot,
        # every later one the second (other content / malformed) or an error (file gone / EACCES)
        import errno
        mpath = os.path.join(root, "meminfo")
        snap2 = _second_snapshot(mi, ro)
        if snap2 is not None:
            _write(mpath + ".2", snap2)

        def counting_open(file, *a, **kw):
            if isinstance(file, (str, bytes)) and os.fsdecode(file) == mpath:
                opens.append(1)
                if len(opens) > 1:
                    if ro["mode"] == "missing":
                        raise FileNotFoundError(errno.ENOENT, "No such file or directory", file)
                    if ro["mode"] == "EACCES":
                        raise PermissionError(errno.EACCES, "Permission denied", file)
                    return old_builtin_open(mpath + ".2", *a, **kw)
            return old_builtin_open(file, *a, **kw)
        builtins.open = counting_open
    psutil.PROCFS_PATH = root
    _pslinux.PAGESIZE = case.get("ps", 4096)
    si = case.get("sysinfo")
    calls = []
    if si is not None:
        def fake_sysinfo():
            calls.append(1)
            return (123456, 1234, 12, 1, si[0], si[1], si[2])
        _pslinux.cext.linux_sysinfo = fake_sysinfo
    side = {}
    try:
        psutil._TOTAL_PHYMEM = None
        with warnings.catch_warnings(record=True) as ws:
            warnings.simplefilter("always")
            box = {}

            def call():
                r = psutil.virtual_memory() if vm else psutil.swap_memory()
                box["r"] = r
                return r

            def conv(r):
                order = FIELD_ORDER if vm else SWAP_ORDER
                pidx = order.index("percent")
                vals = [getattr(r, n) for n in order]
                side["layout_ok"] = (tuple(r) == tuple(vals) and list(r._fields) == order)
                side["types_ok"] = all(type(x) is int for i, x in enumerate(vals) if i != pidx) and type(vals[pidx]) is float
                pf = Fraction(vals[pidx])
                side["pct"] = [pf.numerator, pf.denominator]
                vals[pidx] = 0
                return vals
            main = outcome(call, conv)
        builtins.open = old_builtin_open
        msgs = [(w.category.__name__, str(w.message)) for w in ws]
        side["warns"] = msgs
        if ro:
            side["meminfo_opens"] = len(opens)
        if main.get("t") == "Val":
            vals = main["a"][0]
            if vm:
                names, ok = [], True
                for cat, msg in msgs:
                    if cat != "RuntimeWarning" or " memory stats couldn't be determined and " not in msg:
                        ok = False
                        continue
                    head, tail = msg.split(" memory stats couldn't be determined and ")
                    names += head.split(", ")
                    ok = ok and tail == ("was set to 0" if len(head.split(", ")) == 1 else "were set to 0")
                side["cat_ok"] = ok and len(msgs) <= 1
                vals.append(sorted([B(n) for n in names], key=lambda x: x["b"]))
                side["phymem"] = psutil._TOTAL_PHYMEM
            else:
                ok = all(cat == "RuntimeWarning" and "'sin' and 'sout'" in msg and "set to 0" in msg for cat, msg in msgs)
                side["cat_ok"] = ok and len(msgs) <= 1
                vals.append(len(msgs) > 0)
                side["sysinfo_calls"] = len(calls)
        if main.get("t") != "Val":
            return main      # an exception: nothing else to report (same shape as the model's outcome)
        return [main, side]
    finally:
        builtins.open = old_builtin_open
        psutil.PROCFS_PATH, _pslinux.PAGESIZE, _pslinux.cext.linux_sysinfo = old_path, old_ps, old_si
        _pslinux.open_binary = old_open


MANIFEST = {
    "text": "Theorems (Coq 8.16, 36, all closed under the global context): TIE BY TRANSLATION: the statements of virtual_memory() after the meminfo parsing loop are translated on every run "
            "from the source's ast (props/_c08_gen.py, fail-closed) into a program of the statement language coq/C08/PyGen.v (assignments, mems[k] with KeyError, mems.get, +/-, "
            "try/except KeyError/else, if </>/==, missing_fields.append, return svmem(...)), and C08_gen_vm_prog_model proves its interpreter equal to the model's vm_of_dict for EVERY "
            "mems dict, page size and zoneinfo state (C08_gen_virtual_memory_model: with the parser in front, any bytes; C08_gen_virtual_memory_spec: = the demanded tuple on every "
            "well-formed kernel; C08_gen_svmem_fields: tuple layout) -- a semantic edit of those statements breaks the proof, an untranslatable one the translator. for EVERY well-formed kernel record -- /proc/meminfo as any list of 'name number [rest]' "
            "lines with distinct names (every subset and order of the optional fields, every magnitude, zero totals), /proc/zoneinfo as any list of lines with "
            "low-watermark lines under any blanks and any number of zones or absent, any page size -- the model of virtual_memory() returns exactly the demanded "
            "record: fields = kernel kB x 1024 with the documented substitutions, used with its negative clamp, available = MemAvailable or (absent/zero) the documented "
            "watermark estimate / free+cached, forced to 0 below 0 and to free above total, percent = round-half-even to a tenth of (total-available)/total*100 (nearest/"
            "ties-even characterised and unique), warning names = exactly the metrics set to 0 (slab excepted); never an exception. The estimate's int/float evaluation is "
            "modelled with Python's typing and IEEE rounding (rnd53) and proved equal to the exact formula for every rounding operator that is exact on representable "
            "numbers, under the stated bound (watermark multiple of 512, sum < 2^61 bytes; witness beyond it). Any zoneinfo state is irrelevant when it is not consulted; a zoneinfo that exists but cannot be opened (EACCES, EIO, EISDIR, any errno) is answered like a "
            "missing one: estimate = free+cached, never an exception (a read error after a successful open escapes as OSError: observation); "
            "arbitrary bytes give a record or IndexError/ValueError. 0<=available<=total and 0<=percent<=100 whenever free<=total (hypothesis necessary). "
            "meminfo may contain lines that are not 'name number' (the Linux 2.4 header): skipped (the parser used before commit db3d5fc raised on every such file: "
            "refuted theorems, fixed finding). swap_memory(), every page size and every vmstat (repeated counters read as a log, extra columns, "
            "value-less lines): total/free from meminfo or sysinfo(2), used, percent (half-even), sin/sout = pages x page size, zeros + warning when vmstat or a counter is "
            "absent (literal-4096 conversion of before fe3ce75 refuted). _TOTAL_PHYMEM: virtual_memory() stores its total, Process.memory_percent() = value*100/cached total, "
            "re-reads only when nothing/0 is cached, ValueError for a non-positive total; every virtual_memory() call refreshes the cached total (refresh and history theorems). The model is tied to the code by running the real psutil (public "
            "API, fake /proc, patched sysinfo/PAGESIZE, captured warnings) on printed records (exhaustive over 512 field subsets and 96 availability paths, float path "
            "above 2^53 compared exactly, percent compared exactly outside 1e-9 of a tie) and on a malformed stream.",
    "note": "Trusted: Coq kernel + vm_compute; the translator props/_c08_gen.py and the interpreter coq/C08/PyGen.v for the translated tail of virtual_memory(); the rest of the hand-written "
            "model coq/C08/Model.v (parse_meminfo, calc_avail, usage_percent10, swap_memory, memory_percent: tied by the correspondence run only); kernel formats, the 2.4 header and the fallback "
            "formula in coq/C08/Spec.v; harness; CPython builtins and IEEE doubles (mirrored by rnd53 for the estimate; usage_percent's doubles replaced by the exact "
            "rational with a 1e-9 tie window). Not covered: float overflow >= 2^1024, int() 4300-digit limit, memory_percent's memtype validation and the statm "
            "reader (C13). Observations: free>total, one-sided vmstat, stale cached total, float bound above 2 EiB.",
}
