"""C16: histories over oneshot() context-manager OBJECTS -- the moment a manager is created versus the moment it is entered.

ops:  ["create", k]           k = p.oneshot()
      ["menter", k, how]      how = "with" (k.__enter__()) | "stack" (contextlib.ExitStack().enter_context(k))
      ["mexit", k]            end of k's block
      ["raise"]               exception in the body (leaves every open block)
      ["call", m] / ["set", src, state] / ["gone"]      as in the hist kind

Systematic block (quick tier, never sampled): for four base histories (two nested blocks, two sequential blocks,
three nested blocks, blocks around an exception) x seven method triples (two methods sharing a source + one of another
source), EVERY combination of creation moments of the managers that are not entered first (any position up to their entry:
up front in either order, inside another open block, after it ended), kernel-state changes between the calls; plus
never-entered managers.  Model: coq/C16/Mgr.v."""

TRIPLES = [("name", "ppid", "uids"), ("cpu_times", "cpu_num", "gids"), ("ppid", "cpu_times", "memory_info"),
           ("uids", "gids", "name"), ("num_threads", "num_ctx_switches", "ppid"),
           ("memory_full_info", "memory_maps", "name"), ("memory_info", "memory_info", "cpu_times")]


def _bases(m1, m2, m3, S):
    ver = [1]

    def chg():
        ver[0] += 1
        return ["set", S, ["A", ver[0]]]
    E, X, C = (lambda k: ["E", k]), (lambda k: ["mexit", k]), (lambda m: ["call", m])
    out = {}
    ver[0] = 1
    out["nest2"] = [E(0), C(m1), chg(), E(1), C(m2), chg(), C(m1), X(1), C(m1), C(m3), chg(), C(m2), X(0), C(m2), chg(), C(m1)]
    ver[0] = 1
    out["seq2"] = [E(0), C(m1), chg(), C(m2), X(0), chg(), E(1), C(m2), chg(), C(m1), C(m3), C(m3), X(1), C(m1)]
    ver[0] = 1
    out["nest3"] = [E(0), C(m1), E(1), chg(), C(m2), E(2), C(m1), X(2), chg(), C(m2), C(m3), X(1), C(m1), X(0), C(m2)]
    ver[0] = 1
    out["raise"] = [E(0), C(m1), chg(), E(1), C(m2), ["raise"], C(m1), chg(), E(2), C(m2), chg(), C(m1), X(2), C(m2)]
    return out


def _place(base, creates, hows):
    """creates: {k: position in base before which k is created}; several at one position: in the order given"""
    ops = []
    for i, o in enumerate(base):
        for k, pos in creates:
            if pos == i:
                ops.append(["create", k])
        if o[0] == "E":
            ops.append(["menter", o[1], hows[o[1] % len(hows)]])
        else:
            ops.append(list(o))
    return ops


def systematic(methods):
    cases = []
    n = 0
    for ti, (m1, m2, m3) in enumerate(TRIPLES):
        S = methods[m1][1]
        for name, base in sorted(_bases(m1, m2, m3, S).items()):
            if (name == "nest3" and ti not in (0, 3, 5)) or (name == "raise" and ti not in (1, 4)):
                continue          # the two large sweeps: one triple per memoized source / two triples
            ent = {o[1]: i for i, o in enumerate(base) if o[0] == "E"}
            ks = sorted(ent)
            combos = [[]]
            for k in ks:
                # the manager entered first is created right there or up front; the others at every position up to their entry
                poss = [0, ent[k]] if k == 0 else list(range(0, ent[k] + 1))
                if name == "raise" and k == 1:
                    poss = [0, ent[k]]
                combos = [c + [(k, p)] for c in combos for p in poss]
            for c in combos:
                for order in ([c, list(reversed(c))] if len({p for _, p in c}) < len(c) and name != "nest3" else [c]):
                    n += 1
                    hows = [("with",), ("stack",), ("with", "stack"), ("stack", "with")][n % 4]
                    ops = _place(base, order, hows)
                    late = [k for k, p in c if p > 0 and any(ent[j] < p for j in ks if j != k)]
                    front = [k for k, p in c if p < ent[k]]
                    cls = "mgr-%s-%s" % (name, "created-inside-or-after-another-block" if late else
                                         "prebuilt" if front else "at-entry")
                    cases.append({"kind": "mgr", "cls": cls, "init": [["A", 1]] * 4, "ops": ops})
        # never-entered managers: no effect, inside and outside a block
        cases.append({"kind": "mgr", "cls": "mgr-never-entered", "init": [["A", 1]] * 4, "ops": [
            ["create", 0], ["call", m1], ["set", S, ["A", 2]], ["call", m2], ["create", 1], ["menter", 1, "with"], ["create", 2],
            ["call", m1], ["set", S, ["A", 3]], ["create", 3], ["call", m2], ["mexit", 1], ["call", m1], ["create", 1],
            ["set", S, ["A", 4]], ["call", m2], ["menter", 1, "stack"], ["call", m1], ["set", S, ["D"]], ["call", m2], ["mexit", 1],
            ["call", m3]]})
    return cases


def random_case(rng, methods, n):
    srcs = ["stat", "status", "smaps", "statm"]
    mnames = sorted(methods)
    tab, opened, ops, ver, dead = {}, [], [], {s: 1 for s in srcs}, False
    for _ in range(n):
        k = rng.random()
        if k < 0.16:
            free = [j for j in range(5) if tab.get(j) != "entered"]
            j = rng.choice(free) if free else None
            if j is not None:
                ops.append(["create", j]); tab[j] = "created"
        elif k < 0.34:
            cr = sorted(j for j, s in tab.items() if s == "created")
            if cr:
                j = rng.choice(cr)
                ops.append(["menter", j, rng.choice(["with", "stack"])]); tab[j] = "entered"; opened.append(j)
        elif k < 0.48:
            if opened:
                j = opened.pop()
                ops.append(["mexit", j]); tab[j] = "done"
        elif k < 0.51:
            ops.append(["raise"])
            for j in opened:
                tab[j] = "done"
            opened = []
        elif k < 0.68 and not dead:
            s = rng.choice(srcs)
            ver[s] += 1
            ops.append(["set", s, ["A", ver[s]] if rng.random() < 0.8 else ["D"]])
        elif k < 0.70 and not dead:
            ops.append(["gone"]); dead = True
        else:
            ops.append(["call", rng.choice(mnames)])
    return {"kind": "mgr", "cls": "mgr-random", "init": [["A", 1]] * 4, "ops": ops}


def coq_op(o, op_fn):
    k = o[0]
    if k == "create":
        return "GCreate %d%%nat" % o[1]
    if k == "menter":
        return "GEnter %d%%nat" % o[1]
    if k == "mexit":
        return "GExit %d%%nat" % o[1]
    if k == "raise":
        return "GRaise"
    t = op_fn(o)           # "(OCall c)" / "(OEnv e)"
    assert t.startswith("(OCall ") or t.startswith("(OEnv "), t
    return ("GCall " if t.startswith("(OCall ") else "GEnv ") + t[t.index(" ") + 1:-1]


def run_impl(case, tgt, Runner, BodyError):
    """Real psutil: manager objects are built by p.oneshot() where the history says so and entered later."""
    import contextlib
    r = Runner(tgt)
    mgrs, opened = {}, []      # opened: [k, leave(exc_or_None)]

    def enter(k, how):
        cm = mgrs[k]
        if how == "stack":
            es = contextlib.ExitStack()
            if r._guard("enter", lambda: (es.enter_context(cm), True)[1]):
                opened.append([k, lambda et, e: es.__exit__(et, e, None)])
        else:
            if r._guard("enter", lambda: (cm.__enter__(), True)[1]):
                opened.append([k, lambda et, e: cm.__exit__(et, e, None)])

    for o in case["ops"]:
        k = o[0]
        if k == "create":
            mgrs[o[1]] = r._guard("create", lambda: tgt.proc.oneshot())
        elif k == "menter":
            if mgrs.get(o[1]) is not None:
                enter(o[1], o[2])
        elif k == "mexit":
            if opened and opened[-1][0] == o[1]:
                leave = opened.pop()[1]
                r._guard("exit", lambda: leave(None, None))
        elif k == "raise":
            while opened:
                leave = opened.pop()[1]
                e = BodyError("raised in the body")

                def go(leave=leave, e=e):
                    try:
                        return leave(BodyError, e)
                    except BodyError:
                        return False
                if r._guard("exit-by-exception", go):
                    r.errs.append(["exit-by-exception", "swallowed the body's exception"])
        else:
            r.step(o)
    out = {"res": r.res, "ptrs": tgt.ptrs()}
    if r.errs:
        out["errs"] = r.errs
    while opened:
        leave = opened.pop()[1]
        r._guard("exit", lambda: leave(None, None))
    return out
