"""C19: case generators and the layout conventions shared by the Coq-term writer and the worker."""

HW = "/sys/class/hwmon"
TZ = "/sys/class/thermal"
PS = "/sys/class/power_supply"
CPU = "/sys/devices/system/cpu"
battery_files = ["energy_now", "charge_now", "power_now", "current_now", "energy_full", "charge_full",
                 "time_to_empty_now", "capacity", "status"]


# ------------------------------------------------------------------ layout conventions
def chip_prefix(c):
    if c.get("platform"):
        return "/sys/devices/platform/%s/hwmon/%s/" % (c["platform"], c["dir"])
    return "%s/%s/%s" % (HW, c["dir"], "device/" if c["nested"] else "")


def visible(s, fields):
    return bool(s.get("other")) or any(s[f][0] != "A" for f in fields)


def sorted_temp_chips(chips):
    """psutil's sorted(set(basenames)): plain string order of <prefix>temp<N>"""
    out = []
    for c in sorted(chips, key=chip_prefix):
        c = dict(c)
        c["sensors"] = sorted(c["sensors"], key=lambda s: chip_prefix(c) + "temp%d" % s["n"])
        out.append(c)
    return out


def sorted_fan_chips(chips):
    out = []
    for c in sorted(chips, key=chip_prefix):
        c = dict(c)
        c["fans"] = sorted(c["fans"], key=lambda s: chip_prefix(c) + "fan%d" % s["n"])
        out.append(c)
    return out


def fans_effective(chips):
    """sensors_fans() looks below device/ only when no direct fan file exists"""
    direct = [c for c in chips if not c["nested"]]
    if any(visible(f, ("input", "label")) for c in direct for f in c["fans"]):
        return direct
    return [c for c in chips if c["nested"]]


def effective_plat(case):
    """platform coretemp chips without the sensors psutil skips because /sys/class/hwmon/<same hwmonK>/<same tempN>
    is already listed (`altname not in basenames`; only direct class chips can shadow)"""
    shadow = {}
    for c in case["chips"]:
        if not c["nested"]:
            shadow.setdefault(c["dir"], set()).update(
                s["n"] for s in c["sensors"] if visible(s, ("input", "max", "crit", "label")))
    out = []
    for c in case["plat"]:
        c = dict(c)
        c["sensors"] = [s for s in c["sensors"] if s["n"] not in shadow.get(c["dir"], ())]
        out.append(c)
    return out


def spec_to_raw(x):
    """file content of a spec-level attribute (Python twin of k_knum / k_text, used only for files the model never reads)"""
    if x[0] == "P":
        if x[1] == "N":
            return ["C", ("-" if x[2] else "") + x[3] + "\n"]
        if x[1] == "J":
            return ["C", x[2]]
        return ["C", x[1] + "\n"]
    return ["A"] if x[0] == "A" else ["E"]


def sorted_zones(zones):
    return sorted(zones, key=lambda z: "%s/thermal_zone%d" % (TZ, z["idx"]))


def cpufreq_sysfs(case):
    """which cpu_freq implementation `import psutil` binds for this tree"""
    return any(c["idx"] == 0 for c in case["cpus"])


# ------------------------------------------------------------------ unreadable files
# ["U"] / ["E"]: open() fails (PermissionError).  ["U", errno] / ["E", errno]: open() succeeds and read() (readline,
# iteration) raises OSError(errno) -- what sysfs attributes do when the driver cannot answer.
READ_ERRNOS = ["EIO", "ENXIO", "ENODATA", "ENODEV", "EBUSY"]


def unreadable(rng, tag="U"):
    return [tag] if rng.random() < 0.4 else [tag, rng.choice(READ_ERRNOS)]


# ------------------------------------------------------------------ pools
NAMES = ["coretemp", "acpitz", "nvme", "k10temp", "amdgpu", "it8728", "iwlwifi_1", "pch_cannonlake", "a b", "x86_pkg_temp"]
LABELS = ["Core 0", "Package id 0", "Composite", "edge", "", "Tctl", "fan1", "CPU Fan"]
MILLI = ["0", "1", "999", "1000", "45000", "45500", "100000", "105000", "27800", "84000", "2147483647",
         "123456789012345678", "000", "0050"]
JUNK = ["", "err", "abc", "x", "fault"]
RPM = ["0", "1", "1200", "3500", "65535", "4294967295"]
MICRO = ["0", "1", "100", "50000", "4000000", "12345678", "36000000", "57000000", "57210000", "3", "7"]
KHZ = ["800000", "1200000", "2400000", "3600000", "4700000", "1", "0", "2893202", "999999"]


def kf_text(rng, pool, p_present=0.75, p_err=0.1):
    r = rng.random()
    if r < p_present:
        return ["P", rng.choice(pool)]
    return unreadable(rng) if r < p_present + p_err else ["A"]


def kf_num(rng, pool, p_present=0.7, p_junk=0.08, p_err=0.07, neg=0.15):
    r = rng.random()
    if r < p_present:
        return ["P", "N", rng.random() < neg, rng.choice(pool)]
    if r < p_present + p_junk:
        return ["P", "J", rng.choice(JUNK)]
    return unreadable(rng) if r < p_present + p_junk + p_err else ["A"]


def raw_num(rng):
    r = rng.random()
    if r < 0.15:
        return ["A"]
    if r < 0.22:
        return unreadable(rng, "E")
    return ["C", rng.choice(["45000\n", "45000", " 45000 \n", "+45\n", "-0\n", "4_5\n", "", "\n", "abc\n", "45.5\n", "1e3\n",
                             "nan\n", "0x10\n", "\udcff\n", "-5000\n", "0\n", "12 34\n", ".5\n", "5.\n", ".\n", "--5\n",
                             "1000\n", "inf\n", "45000\n\n", "\t7\n"])]


def raw_text(rng):
    r = rng.random()
    if r < 0.15:
        return ["A"]
    if r < 0.22:
        return unreadable(rng, "E")
    return ["C", rng.choice(["name\n", " name \n", "", "\n", "na me\n", "critical\n", "high\n", "Critical\n", "x", "name\n\n"])]


# ------------------------------------------------------------------ generators
def gen_temp_chip(rng, k, nested=None):
    ns = rng.choice([0, 1, 1, 2, 3, 5])
    nums = rng.sample([1, 2, 3, 4, 5, 10, 11], ns)
    return {"dir": "hwmon%d" % k, "nested": rng.random() < 0.3 if nested is None else nested,
            "name": kf_text(rng, NAMES, 0.85, 0.07),
            "sensors": [{"n": n, "input": kf_num(rng, MILLI, 0.8, 0.05, 0.07), "max": kf_num(rng, MILLI, 0.5),
                         "crit": kf_num(rng, MILLI, 0.5), "label": kf_text(rng, LABELS, 0.6, 0.08),
                         "other": rng.random() < 0.3} for n in nums]}


def gen_zone(rng, idx):
    nt = rng.choice([0, 1, 2, 2, 3, 4])
    types = ["critical", "high", "passive", "active", "hot", "passive", ""]
    rng.shuffle(types)
    # at most one 'critical' and one 'high' per zone (set-iteration order then cannot matter)
    seen = set()
    trips = []
    for j in range(nt):
        ty = types[j]
        if ty in ("critical", "high"):
            if ty in seen:
                ty = "passive"
            seen.add(ty)
        trips.append({"idx": j, "type": kf_text(rng, [ty], 0.85, 0.07), "temp": kf_num(rng, MILLI, 0.8, 0.07, 0.06)})
    return {"idx": idx, "temp": kf_num(rng, MILLI, 0.85, 0.05, 0.05), "type": kf_text(rng, NAMES, 0.85, 0.07), "trips": trips}


def gen_temps(rng):
    nchips = rng.choice([0, 0, 1, 1, 2, 3, 4])
    ks = rng.sample([0, 1, 2, 3, 10, 11], nchips)
    chips = [gen_temp_chip(rng, k) for k in ks]
    nz = rng.choice([0, 0, 1, 2, 3]) if nchips else rng.choice([0, 1, 2, 3, 3])
    zones = [gen_zone(rng, i) for i in rng.sample([0, 1, 2, 10], nz)]
    vis = any(visible(s, ("input", "max", "crit", "label")) for c in chips for s in c["sensors"])
    cls = "temps-hwmon" if vis else ("temps-thermal" if zones else "trivial")
    return {"kind": "temps", "cls": cls, "fahr": rng.random() < 0.4, "chips": chips, "zones": zones}


def gen_temps_coretemp(rng):
    c = gen_temps(rng)
    used = {ch["dir"] for ch in c["chips"]}
    ks = [k for k in (1, 2, 4, 5) if "hwmon%d" % k not in used]
    plat = []
    for k in rng.sample(ks, rng.choice([1, 1, 2])):
        ch = gen_temp_chip(rng, k, nested=False)
        ch["platform"] = "coretemp.%d" % rng.choice([0, 1])
        if rng.random() < 0.6:
            ch["name"] = ["P", "coretemp"]
        plat.append(ch)
    cls = "temps-coretemp"
    direct = [ch for ch in c["chips"] if not ch["nested"] and ch["sensors"]]
    if direct and rng.random() < 0.35:
        # the same hwmonK is also visible below /sys/class/hwmon: its common tempN are listed once (class copy)
        src = rng.choice(direct)
        ch = gen_temp_chip(rng, int(src["dir"][5:]), nested=False)
        ch["platform"] = "coretemp.0"
        ch["name"] = ["P", "coretemp"]
        ch["sensors"] = [dict(s, n=t["n"]) for s, t in zip(ch["sensors"], src["sensors"])] + [
            s for s in ch["sensors"][len(src["sensors"]):] if s["n"] not in {t["n"] for t in src["sensors"]}]
        plat.append(ch)
        cls = "temps-coretemp-shadowed"
    c.update(kind="temps_coretemp", cls=cls, plat=plat)
    return c


def both_nestings_cases():
    """one chip with temp files directly below hwmonN, another only below hwmonK/device: the answer is the union"""
    out = []
    mk = lambda n, v, lab: {"n": n, "input": ["P", "N", False, v], "max": ["P", "N", False, "80000"], "crit": ["A"],
                            "label": ["P", lab] if lab else ["A"], "other": False}
    for (d1, d2) in (("hwmon0", "hwmon1"), ("hwmon1", "hwmon0"), ("hwmon2", "hwmon10")):
        for same_name in (False, True):
            for fahr in (False, True):
                chips = [{"dir": d1, "nested": False, "name": ["P", "coretemp"], "sensors": [mk(1, "45000", "Core 0"), mk(2, "46000", "Core 1")]},
                         {"dir": d2, "nested": True, "name": ["P", "coretemp" if same_name else "nct6775"],
                          "sensors": [mk(1, "38000", "SYSTIN"), mk(3, "27500", "")]}]
                out.append({"kind": "temps", "cls": "temps-both-nestings", "fahr": fahr, "chips": chips, "zones": []})
    return out


def rename_history_cases(rng, k):
    """query; the same hwmonN directory now belongs to another chip (name file changed); query again, same process"""
    out = []
    for _ in range(k):
        a = gen_temps(rng)
        while not any(visible(s, ("input", "max", "crit", "label")) for c in a["chips"] for s in c["sensors"]):
            a = gen_temps(rng)
        b = {"kind": "temps", "cls": a["cls"], "fahr": a["fahr"], "zones": a["zones"],
             "chips": [dict(c, name=["P", rng.choice([n for n in NAMES if ["P", n] != c["name"]])]) for c in a["chips"]]}
        out.append({"kind": "history", "cls": "history-temps-rename", "steps": [a, b, a]})
        f = gen_fans(rng)
        while f["cls"] == "trivial":
            f = gen_fans(rng)
        g = {"kind": "fans", "cls": f["cls"],
             "chips": [dict(c, name=["P", rng.choice([n for n in NAMES if ["P", n] != c["name"]])]) for c in f["chips"]]}
        out.append({"kind": "history", "cls": "history-fans-rename", "steps": [f, g]})
    return out



def single_sensor_cases(values=("45000",), names=("P", "A", "R"), full=False):
    out = []
    st = {"P": None, "A": ["A"], "U": ["U"], "R": ["U", "EIO"]}
    for v in values:
        neg = v.startswith("-")
        ds = v.lstrip("-")
        for i in "PAUR":
            for m in "PAUR":
                for c in "PAUR":
                    for l in "PAUR":
                        if not full and i != "P" and (m, c, l) != ("P", "P", "P"):
                            continue        # quick tier: a sensor without reading is skipped whatever the rest is
                        for nm in names:
                            for fahr in (False, True):
                                num = lambda x, d: ["P", "N", neg, d] if x == "P" else st[x]
                                s = {"n": 1, "input": num(i, ds), "max": num(m, ds if ds == "0" else "80000"),
                                     "crit": num(c, ds if ds == "0" else "95000"),
                                     "label": ["P", "Core 0"] if l == "P" else st[l], "other": True}
                                chip = {"dir": "hwmon0", "nested": False, "name": ["P", "coretemp"] if nm == "P" else st[nm],
                                        "sensors": [s]}
                                out.append({"kind": "temps", "cls": "temps-exhaustive", "fahr": fahr, "chips": [chip], "zones": []})
    return out


def gen_temps_raw(rng):
    entries, zones = [], []
    nchips = rng.choice([0, 1, 1, 2])
    for k in rng.sample([0, 1, 2, 10], nchips):
        nested = rng.random() < 0.3
        prefix = "%s/hwmon%d/%s" % (HW, k, "device/" if nested else "")
        name = raw_text(rng)
        for n in rng.sample([1, 2, 3, 10], rng.choice([1, 2, 3])):
            entries.append({"base": prefix + "temp%d" % n, "namepath": prefix + "name", "input": raw_num(rng), "name": name,
                            "max": raw_num(rng), "crit": raw_num(rng), "label": raw_text(rng)})
    entries.sort(key=lambda e: e["base"])
    if rng.random() < 0.2:
        # coretemp platform files: psutil appends the FILE names, whose <name>_input never exists
        for f in rng.sample(["temp1_input", "temp1_label", "temp2_input"], rng.choice([1, 2])):
            entries.append({"base": "/sys/devices/platform/coretemp.0/hwmon/hwmon1/" + f, "namepath": None, "coretemp": True,
                            "input": ["A"], "name": ["A"], "max": ["A"], "crit": ["A"], "label": ["A"]})
    if not entries or rng.random() < 0.3:
        for i in rng.sample([0, 1, 2], rng.choice([1, 2])):
            trips = []
            types = ["critical\n", "high\n", "passive\n", "", " high \n", "Critical\n"]
            rng.shuffle(types)
            seen = set()
            for j in range(rng.choice([0, 1, 2, 3])):
                ty = types[j]
                key = ty.strip()
                if key in ("critical", "high"):
                    if key in seen:
                        ty = "passive\n"
                    seen.add(key)
                r = rng.random()
                trips.append({"idx": j, "type": ["C", ty] if r < 0.85 else (["A"] if r < 0.93 else unreadable(rng, "E")), "temp": raw_num(rng)})
            zones.append({"idx": i, "temp": raw_num(rng), "type": raw_text(rng), "trips": trips})
        zones.sort(key=lambda z: "%s/thermal_zone%d" % (TZ, z["idx"]))
    return {"kind": "temps_raw", "cls": "temps-raw", "fahr": rng.random() < 0.3, "entries": entries, "zones": zones}


def gen_fans(rng, uniform=True):
    nchips = rng.choice([0, 1, 1, 2, 3])
    nested = rng.random() < 0.3
    chips = []
    for k in rng.sample([0, 1, 2, 3, 10], nchips):
        nums = rng.sample([1, 2, 3, 10], rng.choice([0, 1, 2, 3]))
        chips.append({"dir": "hwmon%d" % k, "nested": nested if uniform else rng.random() < 0.5,
                      "name": kf_text(rng, NAMES, 0.8, 0.1),
                      "fans": [{"n": n, "input": kf_num(rng, RPM, 0.8, 0.0, 0.1, neg=0.0), "label": kf_text(rng, LABELS, 0.5, 0.1),
                                "other": rng.random() < 0.3} for n in nums]})
    eff = fans_effective(chips)
    vis = any(visible(f, ("input", "label")) for c in eff for f in c["fans"])
    return {"kind": "fans", "cls": ("fans" if uniform else "fans-mixed-nesting") if vis else "trivial", "chips": chips}


def single_fan_cases():
    out = []
    st = {"A": ["A"], "U": ["U"], "R": ["U", "ENODATA"]}
    for i in "PAUR":
        for l in "PAUR":
            for nm in "PAUR":
                f = {"n": 1, "input": ["P", "N", False, "1200"] if i == "P" else st[i],
                     "label": ["P", "CPU Fan"] if l == "P" else st[l], "other": True}
                out.append({"kind": "fans", "cls": "fans-exhaustive",
                            "chips": [{"dir": "hwmon2", "nested": False, "name": ["P", "it8728"] if nm == "P" else st[nm], "fans": [f]}]})
    return out


def gen_fans_raw(rng):
    entries = []
    for k in rng.sample([0, 1, 2], rng.choice([1, 1, 2])):
        prefix = "%s/hwmon%d/" % (HW, k)
        name = raw_text(rng)
        for n in rng.sample([1, 2, 3], rng.choice([1, 2])):
            entries.append({"base": prefix + "fan%d" % n, "namepath": prefix + "name", "input": raw_num(rng), "name": name,
                            "label": raw_text(rng)})
    entries.sort(key=lambda e: e["base"])
    return {"kind": "fans_raw", "cls": "fans-raw", "entries": entries}


def read_error_cases():
    """every file of every walker, one at a time, opening fine and failing in read() with each errno; all other files present"""
    out = []
    for e in READ_ERRNOS:
        bad = ["U", e]
        # temperatures (hwmon + thermal zone), fans
        for f in ("input", "max", "crit", "label", "name"):
            sen = {"n": 1, "input": ["P", "N", False, "45000"], "max": ["P", "N", False, "80000"], "crit": ["P", "N", False, "95000"],
                   "label": ["P", "Core 0"], "other": False}
            sen2 = dict(sen, n=2, input=["P", "N", False, "46000"])
            chip = {"dir": "hwmon0", "nested": False, "name": ["P", "coretemp"], "sensors": [sen, sen2]}
            if f == "name":
                chip["name"] = bad
            else:
                sen[f] = bad
            out.append({"kind": "temps", "cls": "read-error-temps", "fahr": False, "chips": [chip], "zones": []})
        for f in ("temp", "type", "trip_type", "trip_temp"):
            z = {"idx": 0, "temp": ["P", "N", False, "50000"], "type": ["P", "acpitz"],
                 "trips": [{"idx": 0, "type": ["P", "critical"], "temp": ["P", "N", False, "95000"]},
                           {"idx": 1, "type": ["P", "high"], "temp": ["P", "N", False, "80000"]}]}
            if f in ("temp", "type"):
                z[f] = bad
            else:
                z["trips"][0][f[5:]] = bad
            out.append({"kind": "temps", "cls": "read-error-thermal", "fahr": False, "chips": [],
                        "zones": [z, {"idx": 1, "temp": ["P", "N", False, "40000"], "type": ["P", "x86_pkg_temp"], "trips": []}]})
        for f in ("input", "label", "name"):
            fan = {"n": 1, "input": ["P", "N", False, "1200"], "label": ["P", "CPU Fan"], "other": False}
            chip = {"dir": "hwmon2", "nested": False, "name": ["P", "it8728"], "fans": [fan, dict(fan, n=2, input=["P", "N", False, "900"])]}
            if f == "name":
                chip["name"] = bad
            else:
                fan[f] = bad
            out.append({"kind": "fans", "cls": "read-error-fans", "chips": [chip]})
        # battery: each of the nine files, and the adapters
        for f in ("now0", "now1", "power0", "power1", "full0", "full1", "tte", "capacity", "status", "ac0", "ac"):
            bat = {"now": [["P", "36000000"], ["P", "3000000"]], "power": [["P", "12000000"], ["P", "1000000"]],
                   "full": [["P", "57000000"], ["P", "4000000"]], "tte": ["A"], "capacity": ["P", "63"], "status": ["P", "StDischarging"]}
            ac0, ac = ["P", False], ["P", True]
            if f in ("ac0", "ac"):
                ac0, ac = (bad, ac) if f == "ac0" else (["A"], bad)
            elif f[-1] in "01":
                bat[f[:-1]][int(f[-1])] = bad
            else:
                bat[f] = bad
            ents = [{"name": "BAT0", "bat": bat}, {"name": "AC0", "bat": None}, {"name": "AC", "bat": None}]
            out.append({"kind": "battery", "cls": "read-error-battery", "dir": True, "entries": ents, "ac0": ac0, "ac": ac})
        # cpufreq: scaling_cur_freq answers with an error, cpuinfo_cur_freq works
        for nest in ("policy", "cpu"):
            cpus = [{"idx": 0, "kind": "on", "cur": [bad, ["P", "2400000"]], "min": "800000", "max": "3600000"},
                    {"idx": 1, "kind": "on", "cur": [["P", "1200000"], ["A"]], "min": "800000", "max": "3600000"}]
            out.append({"kind": "cpufreq", "cls": "read-error-cpufreq", "nest": nest, "cpus": cpus, "blocks": []})
    return out


def signed_battery_cases():
    """signed power_supply values, one quantity at a time (fuel gauges: negative current while discharging, tte = -1)"""
    out = []
    forms = ["-1000000", "+1000000", " 1000000 ", "\t1000000", "0", "-0", "+0", "-12000000", " -1000000 ", "-1"]
    for which in ("power0", "power1", "now0", "full1", "tte"):
        for v in forms:
            for st in ("StDischarging", "StCharging", None):
                bat = {"now": [["P", "3000000"], ["A"]], "power": [["P", "1000000"], ["A"]], "full": [["A"], ["P", "4000000"]],
                       "tte": ["A"], "capacity": ["P", "75"], "status": ["P", st] if st else ["A"]}
                if which == "tte":
                    bat["tte"] = ["P", v]
                    bat["power"] = [["A"], ["A"]]
                else:
                    k, i = which[:-1], int(which[-1])
                    bat[k] = [["A"], ["A"]]
                    bat[k][i] = ["P", v]
                out.append({"kind": "battery", "cls": "battery-signed", "dir": True, "entries": [{"name": "BAT0", "bat": bat}],
                            "ac0": ["A"], "ac": ["A"]})
    return out


def kdec(rng, pool, p=0.6, pe=0.05):
    r = rng.random()
    if r < p:
        return ["P", rng.choice(pool)]
    return unreadable(rng) if r < p + pe else ["A"]


SIGNED_POWER = ["-12000000", "-1000000", "-1", "+1000000", " 12000000 ", "\t7", "-0", "0", "+0", " -3600000\t", "-57000000"]
SIGNED_OTHER = ["+36000000", " 4000000 ", "0", "-0", "\t57000000", "+0", "3000000 "]


def gen_alt(rng, p=0.6, signed=None):
    a = gen_alt_plain(rng, p)
    if signed:
        for x in a:
            if x[0] == "P" and rng.random() < (0.45 if signed is SIGNED_POWER else 0.15):
                x[1] = rng.choice(signed)
    return a


def gen_alt_plain(rng, p=0.6):
    m = rng.random()
    if m < 0.35:
        return [kdec(rng, MICRO, 1.0), ["A"]]
    if m < 0.6:
        return [["A"], kdec(rng, MICRO, 1.0)]
    return [kdec(rng, MICRO, p), kdec(rng, MICRO, p)]


def gen_bat(rng):
    st = rng.random()
    status = ["P", rng.choice(["StDischarging", "StCharging", "StFull", "StNotCharging", "StUnknown"])] if st < 0.75 else (
        ["A"] if st < 0.93 else unreadable(rng))
    return {"now": gen_alt(rng, signed=SIGNED_OTHER), "power": gen_alt(rng, signed=SIGNED_POWER), "full": gen_alt(rng, signed=SIGNED_OTHER),
            "tte": kdec(rng, ["0", "5", "120", "-1", "-1", " -1 ", "+7"], 0.2, 0.02), "capacity": kdec(rng, ["0", "1", "55", "88", "100"], 0.5),
            "status": status}


BAT_NAMES = ["BAT0", "BAT1", "BAT2", "BATT", "BAT", "hid-0018:04F3-battery", "CMB_BATTERY", "Battery0", "BATC"]
OTHER_NAMES = ["ADP1", "ucsi-source-psy-USBC000:001", "bat0", "ACAD", "usb", "BaT1"]


def gen_battery(rng):
    if rng.random() < 0.05:
        return {"kind": "battery", "cls": "battery-nodir", "dir": False, "entries": [], "ac0": ["A"], "ac": ["A"]}
    nb = rng.choice([0, 1, 1, 1, 1, 2, 3])
    entries = [{"name": n, "bat": gen_bat(rng)} for n in rng.sample(BAT_NAMES, nb)]
    entries += [{"name": n, "bat": None} for n in rng.sample(OTHER_NAMES, rng.choice([0, 0, 1, 2]))]
    ac0, ac = ["A"], ["A"]
    r = rng.random()
    if r < 0.35:
        entries.append({"name": "AC0", "bat": None})
        ac0 = kf_bool(rng)
    elif r < 0.6:
        entries.append({"name": "AC", "bat": None})
        ac = kf_bool(rng)
    elif r < 0.7:
        entries += [{"name": "AC0", "bat": None}, {"name": "AC", "bat": None}]
        ac0, ac = kf_bool(rng), kf_bool(rng)
    rng.shuffle(entries)
    return {"kind": "battery", "cls": "battery-%d" % min(nb, 2) if nb else "battery-none", "dir": True, "entries": entries,
            "ac0": ac0, "ac": ac}


def kf_bool(rng):
    r = rng.random()
    if r < 0.8:
        return ["P", rng.random() < 0.5]
    return unreadable(rng) if r < 0.88 else ["A"]


def battery_subset_cases():
    out = []
    for m in range(64):
        for st in ("StDischarging", "StCharging", None):
            f = lambda i, v: ["P", v] if m >> i & 1 else ["A"]
            bat = {"now": [f(0, "36000000"), f(1, "3000000")], "power": [f(2, "12000000"), f(3, "1000000")],
                   "full": [f(4, "57000000"), f(5, "4000000")], "tte": ["A"], "capacity": ["P", "63"],
                   "status": ["P", st] if st else ["A"]}
            out.append({"kind": "battery", "cls": "battery-exhaustive", "dir": True, "entries": [{"name": "BAT0", "bat": bat}],
                        "ac0": ["A"], "ac": ["A"]})
    return out


def raw_small(rng, pool):
    r = rng.random()
    if r < 0.3:
        return ["A"]
    if r < 0.36:
        return unreadable(rng, "E")
    return ["C", rng.choice(pool)]


def gen_battery_raw(rng):
    nums = ["36000000\n", "0\n", "12000000\n", "-12000000\n", "abc\n", "", " 5 \n", "1_0\n", "57000000\n", "7\n"]
    entries = []
    for n in rng.sample(BAT_NAMES + OTHER_NAMES, rng.choice([1, 1, 2, 3])):
        files = {f: raw_small(rng, nums) for f in battery_files}
        files["capacity"] = raw_small(rng, ["55\n", "-1\n", "x\n", "100\n", " 7\n", ""])
        files["status"] = raw_small(rng, ["Discharging\n", "Charging\n", "Full\n", "Unknown\n", "DISCHARGING\n", "  full \n", ""])
        entries.append({"name": n, "files": files})
    return {"kind": "battery_raw", "cls": "battery-raw", "dir": rng.random() < 0.95, "entries": entries,
            "ac0": raw_small(rng, ["1\n", "0\n", "2\n", "x\n", ""]), "ac": raw_small(rng, ["1\n", "0\n", "1"])}


def x86_block(rng, i):
    b = [["proc", str(i)], ["other", "vendor_id", False, "GenuineIntel"], ["other", "cpu family", False, "6"],
         ["other", "model name", False, "Some CPU @ 2.40GHz"],
         ["mhz", rng.choice(["800", "2400", "2893", "3600", "0", "1"]), rng.choice(["000", "202", "001", "999", "500"])],
         ["other", "cache size", False, "8192 KB"], ["pid", str(rng.choice([0, 0, 1, i // 2]))],
         ["other", "siblings", False, "8"], ["cid", str(i)], ["cores", str(rng.choice([1, 2, 4, 8]))],
         ["other", "flags", True, "fpu vme de pse"], ["other", "address sizes", False, "39 bits physical, 48 bits virtual"],
         ["other", "power management", False, ""]]
    r = rng.random()
    if r < 0.1:
        b = [l for l in b if l[0] != "pid"]
    elif r < 0.2:
        b = [l for l in b if l[0] != "cores"]
    elif r < 0.25:
        b.append(["cores", "3"])
    if rng.random() < 0.2:
        # keys that share a prefix with the scanned ones (MIPS "cpu model", x86 "cpuid level", "physical" ...)
        b.insert(rng.randrange(len(b)), rng.choice([["other", "cpu model", True, "MIPS 24Kc V5.5"], ["other", "cpuid level", False, "22"],
                                                    ["other", "cpu MH", False, "7"], ["other", "physical", False, "1"],
                                                    ["other", "processo", False, "9"]]))
    return b


def arm_blocks(rng, n, old):
    bl = [[["proc", str(i)], ["other", "model name", False, "ARMv7 Processor rev 4 (v7l)"], ["other", "BogoMIPS", False, "38.40"]]
          for i in range(n)]
    if old:
        # kernels < 3.8: the model line is spelled "Processor"; non-SMP kernels print no "processor" line at all
        hdr = ["other", "Processor", False, "ARMv7 Processor rev 4 (v7l)"]
        if bl:
            bl[0].insert(0, hdr)
        else:
            bl.append([hdr, ["other", "BogoMIPS", False, "697.95"]])
    bl.append([["other", "Features", False, "half thumb fastmult vfp edsp neon"], ["other", "CPU implementer", False, "0x41"],
               ["other", "Hardware", False, "BCM2835"], ["other", "Revision", True, "a02082"]])
    return bl


def gen_cpufreq(rng):
    n = rng.choice([0, 1, 2, 3, 4, 8])
    mode = rng.random()
    idxs = list(range(n))
    if mode < 0.12 and n:
        idxs = [i + 1 for i in idxs]            # no policy0 / cpu0: the cpuinfo implementation gets bound
    elif mode < 0.25 and n > 1:
        idxs = sorted(rng.sample(range(0, 12), n))
        if rng.random() < 0.7:
            idxs[0] = 0
    cpus = []
    for i in idxs:
        if rng.random() < 0.15:
            cpus.append({"idx": i, "kind": "off"})
        else:
            r = rng.random()
            cur = [["P", rng.choice(KHZ)], ["A"]] if r < 0.45 else ([["A"], ["P", rng.choice(KHZ)]] if r < 0.65 else (
                [unreadable(rng), ["P", rng.choice(KHZ)]] if r < 0.78 else (
                    [["P", rng.choice(KHZ)], ["P", rng.choice(KHZ)]] if r < 0.93 else [["A"], unreadable(rng)])))
            cpus.append({"idx": i, "kind": "on", "cur": cur, "min": rng.choice(KHZ), "max": rng.choice(KHZ)})
    r = rng.random()
    np_ = n if r < 0.35 else (0 if r < 0.6 else rng.choice([1, 2, 3, 5]))
    blocks = [x86_block(rng, i) for i in range(np_)]
    for b in blocks:
        if rng.random() < 0.1:
            b[:] = [l for l in b if l[0] != "mhz"]
    np_ = sum(1 for b in blocks for l in b if l[0] == "mhz")
    case = {"kind": "cpufreq", "nest": rng.choice(["policy", "cpu"]), "cpus": cpus, "blocks": blocks}
    sysfs = cpufreq_sysfs(case)
    if not cpus and not blocks:
        case["cls"] = "trivial"
    elif not sysfs:
        case["cls"] = "cpufreq-cpuinfo-impl"
    elif np_ == n:
        case["cls"] = "cpufreq-sysfs-cpuinfo-cur"
    else:
        case["cls"] = "cpufreq-sysfs" + ("-offline" if any(c["kind"] == "off" for c in cpus) else "")
    return case


def gen_cpufreq_raw(rng):
    n = rng.choice([1, 2, 3])
    nums = ["2400000\n", "800000", " 1200000 \n", "abc\n", "", "0\n", "1_000\n", "-5\n"]
    cpus = [{"idx": i, "scur": raw_small(rng, nums), "ccur": raw_small(rng, nums), "min": raw_small(rng, nums) if rng.random() < 0.3 else ["C", rng.choice(nums)],
             "max": raw_small(rng, nums) if rng.random() < 0.3 else ["C", rng.choice(nums)],
             "online": raw_small(rng, ["0\n", "1\n", "0", ""])} for i in range(n)]
    cpuinfo = rng.choice(["", "cpu MHz\t\t: 2400.000\n", "cpu MHz\t\t: 2400.000\ncpu MHz\t\t: 800.5\n", "CPU MHZ : 5\n",
                          "cpu MHz\n", "cpu MHz\t: abc\n", "processor\t: 0\nmodel name\t: x\n\n", "cpu MHz\t\t: 1e3\n",
                          "cpu MHz : 1 : 2\n", "cpu mhz static\t: 1000\n"])
    case = {"kind": "cpufreq_raw", "cls": "cpufreq-raw", "nest": rng.choice(["policy", "cpu"]), "cpus": cpus,
            "cpuinfo": ["C", cpuinfo] if rng.random() < 0.93 else ["A"]}
    if rng.random() < 0.15:
        for c in cpus:
            c["idx"] += 1
    return case


def gen_stat_lines(rng, ncpu=None):
    ncpu = rng.choice([0, 1, 2, 4, 12]) if ncpu is None else ncpu
    ls = [["cpu", "", " 10 0 10 100 0 0 0 0 0 0"]] + [["cpu", str(i), "1 2 3 4 5 6 7 8 9 10"] for i in range(ncpu)]
    body = [["intr", rng.choice(["5", "123456789", "0", "18446744073709551615"]), " 1 2 0 0 3"],
            ["ctxt", rng.choice(["7", "0", "987654321012"])],
            ["btime", rng.choice(["1500000000", "0", "1727700000", "4102444800"])],
            ["other", "processes", "345"], ["other", "procs_running", "1"], ["other", "procs_blocked", "0"],
            ["softirq", rng.choice(["9", "0", "55555555555"]), " 1 2 3 4 5 6 7 8 9 10"]]
    r = rng.random()
    if r < 0.2:
        rng.shuffle(body)
    elif r < 0.3:
        body.pop(rng.randrange(len(body)))
    elif r < 0.4:
        body.insert(rng.randrange(len(body)), list(rng.choice(body)))
    elif r < 0.45:
        body.append(["other", rng.choice(["page", "swap", "ctx_x", "int", "softirqs"]), "1 2"])
    return ls + body


def gen_stat(rng):
    return {"kind": "stat", "cls": "stat", "stat": gen_stat_lines(rng)}


def gen_stat_raw(rng):
    c = rng.choice(["", "btime 5\n", "btime\n", "btime x\n", "ctxt 1\nintr 2\nsoftirq 3\n", "ctxt\n", "ctxt 1 2\nintr x\n",
                    "cpu 1 2\nbtime  77 \n", "ctxt 1\nintr 2\nsoftirq 3\nctxt x\n", "btime 1.5\n", "ctxt 1_0\nbtime +7\n",
                    "intr 5", "softirq 9\nctxt 8\nintr 7\nbtime 6\n", "btime_x 9\nbtime 3\n", " ctxt 5\n"])
    return {"kind": "stat_raw", "cls": "stat-raw", "stat": ["C", c] if rng.random() < 0.9 else ["A"]}


def gen_cpucount(rng):
    sysconf = None if rng.random() < 0.65 else rng.choice([-1, 0, 1, 4, 64])
    shape = rng.choice(["x86", "x86", "x86", "arm", "arm_old", "arm_old"])
    n = rng.choice([0, 0, 1, 2, 4, 6])
    if shape == "x86":
        blocks = [x86_block(rng, i) for i in range(n)]
    else:
        blocks = arm_blocks(rng, n, shape == "arm_old")
    stat = gen_stat_lines(rng)
    nl = rng.choice([0, 0, 1, 2, 4])
    lists = [["P", rng.choice(["0", "0-1", "0,4", "1", "2-3", "0-1"])] for _ in range(nl)]
    return {"kind": "cpucount", "cls": "cpucount" + ("-sysconf" if sysconf is not None else "-fallback") + "-" + shape,
            "sysconf": sysconf, "blocks": blocks, "stat": stat, "lists": lists, "lists_kind": rng.choice(["core_cpus_list", "thread_siblings_list"])}


def gen_cpucount_raw(rng):
    cpuinfo = rng.choice(["", "processor\t: 0\n\nprocessor\t: 1\n\n", "Processor\t: ARMv7\nprocessor\t: 0\n",
                          "physical id\t: 0\ncpu cores\t: 4\n\n", "physical id\t: 0\ncpu cores\t: 4\n",
                          "physical id\t: 0\ncpu cores\t: 4\n\nphysical id\t: 1\ncpu cores\t: 2\n\n",
                          "physical id : 0\n", "cpu cores\t: x\n", "physical id\t: 0\n\n", "CPU CORES\t: 3\nPHYSICAL ID\t: 7\n\n",
                          "cpu cores\t: 2\t: 3\nphysical id\t: 0\n\n", "physical identity\t: 5\ncpu cores\t: 2\n\n",
                          "physical id\t: 0\ncpu cores\t: 0\n\n"])
    stat = rng.choice(["", "cpu  1 2\ncpu0 1 2\ncpu1 3 4\n", "cpu  1 2\n", "cpux 1\ncpu7\n", "cpu0\tx\n"])
    r = rng.random()
    lists = [raw_small(rng, ["0-1\n", "0\n", " 0-1 \n", "2-3\n", ""]) for _ in range(rng.choice([0, 0, 1, 2, 3]))]
    lists = [x for x in lists if x[0] != "A"]
    return {"kind": "cpucount_raw", "cls": "cpucount-raw", "sysconf": None if r < 0.8 else rng.choice([0, 2]),
            "cpuinfo": ["C", cpuinfo] if rng.random() < 0.93 else ["A"], "stat": ["C", stat] if rng.random() < 0.93 else ["A"],
            "lists": lists, "lists_kind": rng.choice(["core_cpus_list", "thread_siblings_list"])}


def gen_cases(rng, tier):
    n = {"quick": 1, "thorough": 14, "search": 2}[tier]
    cases = []
    cases += both_nestings_cases()
    cases += read_error_cases()
    cases += signed_battery_cases()
    cases += rename_history_cases(rng, {"quick": 20, "thorough": 200, "search": 20}[tier])
    if tier == "quick":
        cases += single_sensor_cases()
        cases += single_fan_cases()
    elif tier == "thorough":
        cases += single_sensor_cases(values=("45000", "0", "-5000"), names=("P", "A", "U", "R"), full=True)
        cases += single_fan_cases()
        cases += battery_subset_cases()
    cases += [gen_temps(rng) for _ in range(160 * n)]
    cases += [gen_temps_raw(rng) for _ in range(70 * n)]
    cases += [gen_temps_coretemp(rng) for _ in range(40 * n)]
    cases += [gen_fans(rng) for _ in range(100 * n)]
    cases += [gen_fans(rng, uniform=False) for _ in range(20 * n)]
    cases += [gen_fans_raw(rng) for _ in range(40 * n)]
    cases += [gen_battery(rng) for _ in range(190 * n)]
    cases += [gen_battery_raw(rng) for _ in range(70 * n)]
    cases += [gen_cpufreq(rng) for _ in range(120 * n)]
    cases += [gen_cpufreq_raw(rng) for _ in range(40 * n)]
    cases += [gen_cpucount(rng) for _ in range(90 * n)]
    cases += [gen_cpucount_raw(rng) for _ in range(40 * n)]
    cases += [gen_stat(rng) for _ in range(80 * n)]
    cases += [gen_stat_raw(rng) for _ in range(30 * n)]
    return cases
