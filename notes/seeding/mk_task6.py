import json, os
for i in range(1, 21):
    pid = "C%02d" % i
    t4 = open("/tmp/seedout/%s/TASK4.md" % pid).read()
    head = t4[:t4.index("## Already taken")]
    head = head.replace("(call it change 7)", "(call it change 9)").replace("/%s/7/" % pid, "/%s/9/" % pid)
    assert "/7/" not in head, pid
    prior = []
    for n in range(1, 9):
        mp = "/tmp/seedout/%s/%d/meta.json" % (pid, n)
        if not os.path.exists(mp):
            continue
        m = json.load(open(mp))
        prior.append("- %s (files: %s)" % (str(m.get("summary", ""))[:300].replace("\n", " "), ", ".join(m.get("files_changed", []))))
    body = """## Already taken — eight changes exist; find a ninth that is different IN KIND from all of them

A checker for this property already generates: kernel-formatted records with hostile bytes and sizes (files beyond 32 KiB, empty files), multi-step
histories on one object, fault injection at every OS access (double faults, every errno), thread interleavings at line granularity, free-running
threads and thread lifetimes, exception injection between state updates, warm caches, PID reuse, vanishing processes/devices, clock steps, start
times of 0, non-UTF-8 interpreters, PROCFS_PATH changes and foreign PID namespaces, psutil.Popen objects, keyword/positional call forms, falsy
and mixed-type arguments, values at 2^31/2^32/2^63 through the real C extension, in-place mutation of returned objects, debug mode with a failing
stderr, real kernel files of the running kernel. Ideas NOT yet used that you may consider (pick whichever fits this property best, or your own):

(a) the interpreter's own modes: `python -O` (assert statements vanish - code that validates with assert), `-X dev`, `-W error` (a warning turned
    into an exception on a path that warns), `sys.setrecursionlimit`/deep structures (recursion in a helper), `sys.setswitchinterval`;
(b) ORDER and MULTIPLICITY of results (a list that must keep kernel order, duplicates that must or must not be merged, stable sort keys,
    dict insertion order relied upon by callers, sets used where order matters);
(c) result TYPES the documentation promises (int vs float vs bool, str vs bytes, tuple vs list, named tuple class and field order, enum members vs
    plain ints, None vs 0 vs '' for "unknown") - a value that compares equal but is of another type, or an enum that no longer is one;
(d) helpers with their own caches or globals that outlive a call: functools.lru_cache / memoize on module-level functions, module constants
    recomputed or not after psutil.PROCFS_PATH / environment changes, `cache_clear()` functions that forget to clear one of two structures;
(e) arithmetic: rounding mode (round half even vs half up), float accumulation order (sum of many floats), integer vs true division on values not
    divisible, unit conversions (kB = 1024 vs 1000, pages, sectors = 512, jiffies), percentages above 100 or below 0 being clamped or not;
(f) string handling: str.strip()/split() without argument eating legal characters (\\x1c-\\x1f, \\x85, \\xa0), str.isdigit()/isalnum() on non-ASCII
    digits, case-insensitive comparisons, startswith on a prefix that is also a prefix of another key, splitlines() vs split('\\n');
(g) iteration over a collection that is modified during the loop, generators closed early by the caller (process_iter() abandoned mid-way, a
    `break` out of a for over a psutil generator) leaving state behind, `finally` blocks that assume a variable was bound;
(h) interplay with the STANDARD LIBRARY objects psutil returns or accepts: subprocess.Popen attributes, socket enums (AddressFamily/SocketKind),
    signal.Signals, resource constants, datetime/time functions used for conversions.

Make the change look like an ordinary commit (refactor, optimisation, clean-up, small feature). Avoid plain reverts of `fix:` commits and avoid
re-doing any of these:

%s

First make sure the worktree is clean (`git -C /tmp/seedwt/%s status --short`; `git -C /tmp/seedwt/%s checkout -- .` if needed) and build:
`cd /tmp/seedwt/%s && /venv/bin/python setup.py build_ext --inplace -q`. NEVER use `git stash` (the stash is shared with other worktrees
and other people use them concurrently), never run patch(1) or linters that leave files behind; undo with `git checkout -- .` only.
Your demo must NOT assert that psutil is imported from /tmp/seedwt (it is re-run from another copy with PYTHONPATH set), and it must behave the
same whether its stdout/stderr are a terminal, a file or /dev/null. Skip test_process_all.py; most of test_connections.py and test_users fail
here even unmodified. Never use pkill/killall with a pattern.
""" % ("\n".join(prior), pid, pid, pid)
    open("/tmp/seedout/%s/TASK6.md" % pid, "w").write(head + body)
    os.makedirs("/tmp/seedout/%s/9" % pid, exist_ok=True)
print("ok")
