import json, os
for i in range(1, 21):
    pid = "C%02d" % i
    t4 = open("/tmp/seedout/%s/TASK4.md" % pid).read()
    head = t4[:t4.index("## Already taken")]
    head = head.replace("(call it change 7)", "(call it change 10)").replace("/%s/7/" % pid, "/%s/10/" % pid)
    assert "/7/" not in head, pid
    prior = []
    for n in range(1, 10):
        mp = "/tmp/seedout/%s/%d/meta.json" % (pid, n)
        if not os.path.exists(mp):
            continue
        m = json.load(open(mp))
        prior.append("- %s (files: %s)" % (str(m.get("summary", ""))[:260].replace("\n", " "), ", ".join(m.get("files_changed", []))))
    body = """## Already taken — nine changes exist; find a tenth that is different IN KIND from all of them

A checker for this property already generates: kernel-formatted records with hostile bytes and sizes, multi-step histories on one or several
objects, fault injection at every OS access (double faults, every errno), thread interleavings at line granularity, free-running threads and
thread lifetimes, same-thread re-entrancy, exception injection between state updates, warm caches, PID reuse, vanishing processes/devices, clock
steps, start times of 0, deep/wide process trees, non-UTF-8 interpreters, interpreter modes (-O, -bb, -W error), PROCFS_PATH changes and foreign PID
namespaces, psutil.Popen objects, keyword/positional call forms, one-shot iterables, falsy and mixed-type arguments, values at 2^31/2^32/2^63
through the real C extension, in-place mutation of returned objects, result types (enum members vs ints, bool vs int, float vs int), module-level
caches that outlive a call, debug mode with a failing stderr, sysfs side files, real kernel files and real children of the running kernel.
Ideas NOT yet used that you may consider (pick whichever fits this property best, or your own):

(a) process-wide state captured once that goes stale after os.fork() (a cached own PID / own start time / page size / a lock held by another
    thread at fork time / an open descriptor shared with the child), or after os.setuid/setns/chroot;
(b) object protocols on the public objects: pickle / copy.copy / copy.deepcopy of Process and of the exceptions (NoSuchProcess, AccessDenied,
    ZombieProcess, TimeoutExpired: attributes, str(), repr(), __reduce__), user SUBCLASSES of Process (overridden methods, __init__ signature,
    what process_iter()/children()/parent() construct), weak references, objects compared with non-Process values, sorting;
(c) resource exhaustion and partial I/O: EMFILE/ENFILE/ENOMEM on open, EINTR, read() returning fewer bytes than the file holds (a /proc file read
    in two chunks that changed in between; a file larger than the one read buffer), files that change between the two reads a single method makes;
(d) partial visibility: hidepid-style mounts or LSM rules where /proc/<pid>/stat is readable but status/cmdline/fd/io/smaps are EACCES or ENOENT (or the
    other way round), /proc/<pid>/task unreadable, /sys missing entirely, /dev/pts missing;
(e) dependence on set/dict iteration order or on PYTHONHASHSEED (an answer, an exception choice or an order that changes with the hash seed);
(f) memoised module helpers that describe the MACHINE and can change at run time (terminal map after a new pty appears, CPU count after hot-plug,
    mounted filesystems list, /proc/filesystems, clock ticks), and their documented cache_clear();
(g) extreme but legal magnitudes: PIDs near 2^22 and 2^31-1, uid/gid 2^32-1 and 65534, tick counts near 2^63, sizes in the exabyte range,
    thousands of CPUs / NICs / mappings, 255-byte names, 4 KiB paths; times beyond 2038 and before 1970 (negative btime);
(h) text vs bytes at the API edge: str paths with surrogate escapes given BACK to psutil (disk_usage(path), Process(pid).cwd() passed to os.*),
    NUL bytes, non-normalised Unicode, os.PathLike arguments.

Make the change look like an ordinary commit (refactor, optimisation, clean-up, small feature). Avoid plain reverts of `fix:` commits and avoid
re-doing any of these:

%s

First make sure the worktree is clean (`git -C /tmp/seedwt/%s status --short`; `git -C /tmp/seedwt/%s checkout -- .` if needed) and build:
`cd /tmp/seedwt/%s && /venv/bin/python setup.py build_ext --inplace -q`. NEVER use `git stash` (the stash is shared with other worktrees
and other people use them concurrently), never run patch(1) or linters that leave files behind; undo with `git checkout -- .` only.
Your demo must NOT assert that psutil is imported from /tmp/seedwt (it is re-run from another copy with PYTHONPATH set), and it must behave the
same whether its stdout/stderr are a terminal, a file or /dev/null. Skip test_process_all.py; most of test_connections.py and test_users fail
here even unmodified. Never use pkill/killall with a pattern.
""" % ("\n".join(prior), pid, pid, pid)
    open("/tmp/seedout/%s/TASK7.md" % pid, "w").write(head + body)
    os.makedirs("/tmp/seedout/%s/10" % pid, exist_ok=True)
print("ok")
