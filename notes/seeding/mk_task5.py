import json, os, re
for i in range(1, 21):
    pid = "C%02d" % i
    t4 = open("/tmp/seedout/%s/TASK4.md" % pid).read()
    head = t4[:t4.index("## Already taken")]
    head = head.replace("(call it change 7)", "(call it change 8)").replace("/%s/7/" % pid, "/%s/8/" % pid)
    assert "/7/" not in head, pid
    prior = []
    for n in range(1, 8):
        mp = "/tmp/seedout/%s/%d/meta.json" % (pid, n)
        if not os.path.exists(mp):
            continue
        m = json.load(open(mp))
        prior.append("- %s (files: %s)" % (str(m.get("summary", ""))[:330].replace("\n", " "), ", ".join(m.get("files_changed", []))))
    body = """## Already taken — seven changes exist; find an eighth that is different IN KIND

A checker for this property already generates: kernel-formatted records with hostile bytes and sizes (files beyond 32 KiB), multi-step histories
on one object, fault injection at every OS access (including double faults), thread interleavings at line granularity and
thread lifetimes, warm caches, PID reuse, vanishing processes/devices, clock steps, non-UTF-8 interpreters, PROCFS_PATH
changes, psutil.Popen objects, unusual argument types. So look AWAY from the function the property most obviously lives in:

(a) shared helpers it depends on in _common.py / _psposix.py / _compat-style utilities (memoize and its cache_clear, decode, open_text/open_binary
    and their buffering/encoding/errors arguments, usage_percent, wrap_numbers, conversion helpers, debug());
(b) the package front end psutil/__init__.py (argument validation, decorators, oneshot interplay, __repr__/__str__/__eq__/__hash__,
    the ad_value / NoSuchProcess-ignoring paths of as_dict and process_iter, module-level caches and their clearing);
(c) import-time initialisation and constants computed once (page size, clock ticks, boot time, platform switches, enum tables, __all__);
(d) resource handling on error paths (descriptors left open, iterators consumed half-way, locks not released, state half-updated before a raise);
(e) numeric boundaries and representation (values at 2^31, 2^32, 2^53, 2^63, 2^64; round(); true vs floor division; ticks/pages/sectors
    conversions; float equality; negative values; bool where int is expected);
(f) legal kernel-output variants of older/newer kernels (optional lines or columns missing or added, different column widths / whitespace, empty file,
    no trailing newline, duplicated keys, CRLF);
(g) the C extension where the property's data flows through it (reference counts on error paths, buffer sizes, integer width/signedness of
    conversions, errno handling, format codes of Py_BuildValue/PyArg_ParseTuple);
(h) documented behaviour for unusual-but-legal ARGUMENTS of the public functions involved (keyword vs positional, generators/iterators instead of
    lists, subclasses of int/str, zero/negative/None).

Pick the one most likely to slip through, and make the change look like an ordinary commit. Avoid plain reverts of `fix:` commits and avoid
re-doing any of these:

%s

First make sure the worktree is clean (`git -C /tmp/seedwt/%s status --short`; `git -C /tmp/seedwt/%s checkout -- .` if needed) and build:
`cd /tmp/seedwt/%s && /venv/bin/python setup.py build_ext --inplace -q`. NEVER use `git stash` (the stash is shared with other worktrees
and other people use them concurrently), never run patch(1) or linters that leave files behind; undo with `git checkout -- .` only.
Your demo must NOT assert that psutil is imported from /tmp/seedwt (it is re-run from another copy with PYTHONPATH set). Skip
test_process_all.py; most of test_connections.py and test_users fail here even unmodified. Never use pkill/killall with a pattern.
""" % ("\n".join(prior), pid, pid, pid)
    open("/tmp/seedout/%s/TASK5.md" % pid, "w").write(head + body)
print("ok")
