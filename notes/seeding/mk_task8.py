import json, os, sys
IDS = sys.argv[1:]
for pid in IDS:
    t7 = open("/tmp/seedout/%s/TASK7.md" % pid).read()
    head, rest = t7.split("## Already taken", 1)
    head = head.replace("(call it change 10)", "(call it change 11)").replace("/%s/10/" % pid, "/%s/11/" % pid)
    assert "/10/" not in head, pid
    intro, tail = rest.split("re-doing any of these:\n", 1)
    tail = tail[tail.index("\nFirst make sure the worktree is clean"):]
    intro = intro.replace("nine changes exist; find a tenth", "ten changes exist; find an eleventh")
    prior = []
    for n in range(1, 11):
        mp = "/tmp/seedout/%s/%d/meta.json" % (pid, n)
        if not os.path.exists(mp):
            mp = "/verif/seeded/%s-%d/meta.json" % (pid, n)
        if not os.path.exists(mp):
            continue
        m = json.load(open(mp))
        prior.append("- %s (files: %s)" % (str(m.get("summary", ""))[:260].replace("\n", " "), ", ".join(m.get("files_changed", []))))
    open("/tmp/seedout/%s/TASK8.md" % pid, "w").write(head + "## Already taken" + intro + "re-doing any of these:\n\n" + "\n".join(prior) + "\n" + tail)
    os.makedirs("/tmp/seedout/%s/11" % pid, exist_ok=True)
print("ok")
