#!/bin/sh
# Regenerates coq/_CoqProject from the directory listing and (re)creates the Makefile.
set -e
cd "$(dirname "$0")/coq"
{ echo "-Q . PV"; echo "-arg -w -arg -notation-overridden,-deprecated-hint-without-locality,-deprecated-instance-without-locality,-ambiguous-paths"; find . -name '*.v' ! -path './scratch/*' | sed 's|^\./||' | LC_ALL=C sort; } > _CoqProject.new
if ! cmp -s _CoqProject.new _CoqProject 2>/dev/null || [ ! -f Makefile ]; then
  mv _CoqProject.new _CoqProject
  coq_makefile -f _CoqProject -o Makefile >/dev/null
else
  rm -f _CoqProject.new
fi
