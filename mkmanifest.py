#!/usr/bin/env python3
"""Assemble MANIFEST.json from the MANIFEST dict of every props/Cxx.py."""
import importlib
import json
import os
import sys

HERE = os.path.dirname(os.path.abspath(__file__))
sys.path.insert(0, HERE)
ids = [json.loads(l)["id"] for l in open(os.path.join(HERE, "properties.jsonl"))]
checks, na = [], []
for pid in ids:
    path = os.path.join(HERE, "props", pid + ".py")
    if not os.path.exists(path):
        na.append({"property_id": pid, "reason": "not claimed yet: model and theorems for this property are not built in this revision (planned in DESIGN.md section 5)"})
        continue
    P = importlib.import_module("props." + pid)
    M = P.MANIFEST
    checks.append({
        "property_id": pid,
        "quick_cmd": "./vcheck %s quick" % pid,
        "thorough_cmd": "./vcheck %s thorough" % pid,
        "evidence_file": "/verif/evidence/%s.json" % pid,
        "replay_cmd_template": "./vcheck %s --replay {path}" % pid,
        "engine": "rocq-proof+correspondence",
        "level_claimed": {"category": "proof", "text": M["text"], "design_ref": "DESIGN.md section 5, " + pid},
        "level_note": M["note"],
        "technique": M.get("technique", "machine-checked proof in Rocq/Coq 8.16 of model-vs-specification theorems"
                           + (" + definitions regenerated from the current source on every run by a fail-closed translator (coq/Gen/%s_Tables.v) with theorems tying them to the model" % ("C01" if pid == "C02" else pid) if hasattr(P, "gen_tables") else "")
                           + " + differential correspondence check of the model (vm_compute) against the implementation built from /repo"),
    })
man = {
    "version": 1,
    "setup_cmd": "./setup.sh",
    "hooks": {"guard": "GIAMPAOLO_PSUTIL_VERIF", "enable": "no hooks are needed: every observation point is reachable from outside the package (module attributes, PROCFS_PATH, monkeypatched os.* in the worker process)",
              "baseline_off_cmd": "cd /repo && /venv/bin/python -m pytest -ra -q -p no:cacheprovider --timeout=900 --continue-on-collection-errors",
              "source_commits": [], "add_only": True},
    "engines": [{"name": "rocq-proof+correspondence", "path": "/verif/vcheck", "serves_properties": [c["property_id"] for c in checks],
                 "kind_free_text": "Coq 8.16 development under coq/ (models, specifications, theorems; Properties/Cxx.v hold the statements) + pv/ driver that rebuilds /repo in a scratch copy, evaluates the Gallina model with vm_compute on generated cases and compares with the real psutil run over a simulated kernel; property oracle = the specification side of the theorems"}],
    "checks": checks,
    "not_applicable": na,
    "notes": "Known findings: known_findings.json. Seeded breaking changes used to test detection: seeded/. See DESIGN.md.",
}
json.dump(man, open(os.path.join(HERE, "MANIFEST.json"), "w"), indent=1)
print("checks:", [c["property_id"] for c in checks], "n/a:", len(na))
