(* C03 -- a process vanishing or being denied mid-call yields only psutil errors.

   MODEL.  A small deep-embedded language of "access scripts" and its interpreter [exec].
   A script is a hand transcription of the try/except structure of one psutil method
   (class Process of psutil/_pslinux.py and of psutil/__init__.py): every OS access the method
   performs is an [Acc], every try/except is a [Try], wrap_exceptions / _raise_if_zombie /
   _raise_if_not_alive / _readlink / memoize_when_activated are *derived* forms written with
   the same constructs (so nothing about them is assumed).
   No proofs in this file. *)
From PV Require Import Base.Prelude.
Local Open Scope string_scope.
Local Open Scope list_scope.

(* ------------------------------------------------------------------ accesses *)
Inductive akind := KOpen | KRead | KReadlink | KListdir | KStat | KLstat | KSys | KAccess.
(* whose path: the object's own /proc/<pid>/..; the OTHER process in focus (the current entry: a child, the
   parent, a pid of the listing); a global procfs file; [Any] = the current entry, which is the object's own
   pid or another one; [Ext] = a file outside procfs (refusable, belongs to no process) *)
Inductive who := Self | Other | Global | Any | Ext.
(* which file (scripts are closed terms: pids appear only when a log is rendered, see [render]);
   the *E files are those of the current loop entry *)
Inductive fid :=
| FStat | FStatus | FSmaps | FRollup | FCmdline | FEnviron | FStatm | FIo | FExe | FCwd   (* /proc/<pid>/<file> *)
| FDir                                   (* /proc/<pid> *)
| FTaskDir | FTaskStatE                  (* /proc/<pid>/task, /proc/<pid>/task/<entry>/stat *)
| FFdDir | FFdE | FFdinfoE               (* /proc/<pid>/fd, fd/<entry>, fdinfo/<entry> *)
| FSysPrio | FSysIoprio | FSysAffinity | FSysRlimit   (* per-process system calls of the C extension *)
| FStatE | FCmdlineE                     (* /proc/<entry>/stat, /proc/<entry>/cmdline *)
| FSysKill                               (* os.kill(pid, 0) of pid_exists() *)
| FRoot | FNetTcp | FNetTcp6 | FNetUdp | FNetUdp6 | FNetUnix    (* /proc, /proc/net/... *)
(* accesses OUTSIDE procfs that Process methods perform (whose = Ext: they can be refused, they do not vanish
   with a process) *)
| FExeDel | FCwdDel                      (* os.stat("<exe|cwd target> (deleted)") in readlink()'s clean-up *)
| FTargetDelE | FTargetE                 (* os.stat of fd/<entry>'s target: with " (deleted)" (clean-up), stripped (isfile_strict) *)
| FMapPathE                              (* os.stat("<mapped file> (deleted)") in memory_maps() *)
| FGuessExe                              (* os.stat / os.access of cmdline[0] in Process.exe()'s guess *)
| FDevDir | FDevE.                       (* get_terminal_map(): the /dev scan (not faulted), os.stat of each tty *)
Record label := { l_kind : akind; l_who : who; l_file : fid }.
(* what an access may answer while the process is alive, besides success and refusal:
   nothing else / also ENOENT, ESRCH (file may be gone) / also EINVAL (not a link) *)
Inductive oclass := Strict | MayVanish | MayVanishOrInval
| MayEnoent      (* a device node outside procfs: may be unlinked (ENOENT) while the process is still there *)
| DirSurvives.   (* /proc/<pid> itself: may still answer although the process is gone (half-removed, see w_half) *)

Inductive errno := ENOENT | ESRCH | EACCES | EPERM | EINVAL.
(* class of a link target: absolute regular file / the same with a " (deleted)" suffix / absolute, not a regular
   file / absolute dangling "... (deleted)" / socket:[..] / anything not absolute *)
Inductive lcls := LReg | LRegDel | LAbsOther | LDel | LSock | LOtherLink.
Record data := { d_empty : bool; d_zombie : bool; d_names : list string; d_link : lcls }.
Definition data0 := {| d_empty := false; d_zombie := false; d_names := []; d_link := LOtherLink |}.
Inductive res := Ok (d : data) | Err (e : errno).

(* exception classes as far as the handlers of the modelled code can tell them apart *)
Inductive xc :=
| XFnf            (* FileNotFoundError  *)
| XEsrch          (* ProcessLookupError *)
| XPerm           (* PermissionError    *)
| XOsOther        (* any other OSError (EINVAL, ENAMETOOLONG) *)
| XNSP (w : who) | XZombie (w : who) | XAD (w : who)   (* psutil errors, carrying which process's pid *)
| XTimeout        (* psutil.TimeoutExpired (wait(timeout) on a process that is still there) *)
| XPy.            (* any other Python exception *)

Definition xc_of (e : errno) : xc :=
  match e with ENOENT => XFnf | ESRCH => XEsrch | EACCES => XPerm | EPERM => XPerm | EINVAL => XOsOther end.

(* except-clause patterns; ZombieProcess is a subclass of NoSuchProcess *)
Inductive hpat := HFnf | HEsrch | HFnfEsrch | HPerm | HOSError | HEinval | HAD | HZombie | HNSP | HADZ | HAny.
Definition hmatch (h : hpat) (x : xc) : bool :=
  match h, x with
  | HFnf, XFnf | HEsrch, XEsrch | HFnfEsrch, XFnf | HFnfEsrch, XEsrch | HPerm, XPerm => true
  | HOSError, XFnf | HOSError, XEsrch | HOSError, XPerm | HOSError, XOsOther => true
  | HEinval, XOsOther => true
  | HAD, XAD _ | HZombie, XZombie _ | HNSP, XNSP _ | HNSP, XZombie _ => true
  | HADZ, XAD _ | HADZ, XZombie _ => true
  | HAny, _ => true
  | _, _ => false
  end.

Inductive test :=
| TEmpty | TZombie | TLink (c : lcls)     (* on the data returned by the last successful access *)
| TFlag (n : nat)                        (* local / object boolean *)
| TParam (n : nat)                       (* a fact about the world that is not an access *)
| TParamCur (n : nat)                    (* ... about the current entry *)
| TCur (h : hpat).                       (* inside a handler: does the exception being handled match h *)

Inductive prog :=
| Skip
| Ret                                    (* return <well-formed value> *)
| Raise (x : xc)
| Reraise                                (* bare raise / exception not matched by any clause *)
| Acc (l : label)                        (* one OS access; failure raises the OSError subclass of the errno *)
| Seq (p q : prog)
| If (t : test) (p q : prog)
| SetFlag (n : nat) (b : bool)
| Try (b h e : prog)                     (* try: b / except: h (run with the caught exception current) / else: e *)
| ForNames (b : prog)                    (* for <entry> in <names returned by the last access>: b *)
| Call (p : prog)                        (* function call boundary: return inside p ends p only *)
| Memo (n : nat) (p : prog)              (* memoize_when_activated slot n *)
| CacheOn | CacheOff                     (* oneshot enter / exit *)
| Collect                                (* remember the current loop entry (ppid_map: its stat could be read) *)
| LoadKids                               (* the remembered pids whose parent is this process become the list to iterate *)
| FocusParent                            (* the parent becomes the current entry *)
| Walk (b : prog).                       (* children(recursive=True): the stack walk over the remembered pids, see [walk] *)

(* except clauses in order; an exception no clause matches propagates *)
Fixpoint handlers (hs : list (hpat * prog)) : prog :=
  match hs with [] => Reraise | (h, q) :: r => If (TCur h) q (handlers r) end.
Fixpoint seqs (ps : list prog) : prog :=
  match ps with [] => Skip | [p] => p | p :: r => Seq p (seqs r) end.

(* ------------------------------------------------------------------ the world (fault model) *)
Record world := {
  w_base   : (string -> bool) -> akind -> who -> fid -> string -> res;
                                  (* answer without a fault: which pids are gone, kind, whose, file, current entry *)
  w_self   : string;                                  (* the object's pid as text (resolves [Any]) *)
  w_vanish : option nat;                              (* V: the process is removed just before this access index *)
  w_half   : bool;                                    (* V': half-removed (upstream issue 2418): from that index on every path
                                                         strictly below /proc/<pid> reports ENOENT/ESRCH while /proc/<pid>
                                                         itself still answers and the pid is still listed *)
  w_deny   : nat -> bool;                             (* D: these access indexes are refused (EACCES/EPERM) *)
  w_ovanish : string -> option nat;                   (* VO: another process is removed just before this index *)
  w_param  : nat -> bool;
  w_pcur   : nat -> string -> bool;
  w_parent : string;                                  (* the parent's pid *)
  w_kids   : string -> list string }.                 (* pids whose stat names the given pid as parent (listing order) *)

Definition gone_at (w : world) (i : nat) : bool :=
  match w_vanish w with Some v => Nat.leb v i | None => false end.
Definition ogone_at (w : world) (p : string) (i : nat) : bool :=
  match w_ovanish w p with Some v => Nat.leb v i | None => false end.
Definition gonef (w : world) (i : nat) (p : string) : bool :=
  if String.eqb p (w_self w) then gone_at w i else ogone_at w p i.
(* ... and no longer listed in /proc *)
Definition unlisted (w : world) (i : nat) (p : string) : bool :=
  if String.eqb p (w_self w) then gone_at w i && negb (w_half w) else ogone_at w p i.
Definition is_piddir (l : label) : bool := match l_file l with FDir => true | _ => false end.
Definition rwho (w : world) (l : label) (cur : string) : who :=
  match l_who l with Any => if String.eqb cur (w_self w) then Self else Other | x => x end.
Definition vanish_errno (k : akind) : errno := match k with KRead | KSys => ESRCH | _ => ENOENT end.
Definition is_global (x : who) := match x with Global => true | _ => false end.
(* does the access fail because the process it belongs to is gone ([Other]: the process named by the current
   entry -- which, in a walk over all pids, may be the object's own) *)
Definition vanished (w : world) (l : label) (r : who) (cur : string) (i : nat) : bool :=
  match r with
  | Self => gone_at w i && negb (w_half w && is_piddir l)
  | Other => gonef w i cur
  | _ => false
  end.

Definition answer (w : world) (i : nat) (l : label) (cur : string) : res :=
  let r := rwho w l cur in
  if vanished w l r cur i then Err (vanish_errno (l_kind l))
  else if negb (is_global r) && w_deny w i then Err EACCES
  else w_base w (unlisted w i) (l_kind l) r (l_file l) cur.

(* ------------------------------------------------------------------ interpreter *)
Record st := {
  s_idx : nat;                              (* number of accesses performed so far *)
  s_log : list (akind * fid * string);      (* ... and which: kind, file, loop entry (most recent first) *)
  s_data : data; s_cur : string;
  s_flags : list nat;                       (* flags that are set *)
  s_cache : bool; s_slots : list (nat * data);
  s_acc : list string }.                    (* entries collected so far (most recent first), see [Collect] *)
Definition st0 := {| s_idx := 0; s_log := []; s_data := data0; s_cur := ""; s_flags := [];
                     s_cache := false; s_slots := []; s_acc := [] |}.

Inductive sig := SNormal | SReturn | SRaise (x : xc).

Definition flag_on (s : st) (n : nat) := existsb (Nat.eqb n) (s_flags s).
Definition set_flag (s : st) (n : nat) (b : bool) : st :=
  {| s_idx := s_idx s; s_log := s_log s; s_data := s_data s; s_cur := s_cur s;
     s_flags := (if b then n :: s_flags s else filter (fun m => negb (Nat.eqb n m)) (s_flags s));
     s_cache := s_cache s; s_slots := s_slots s; s_acc := s_acc s |}.
Definition set_cur (s : st) (c : string) : st :=
  {| s_idx := s_idx s; s_log := s_log s; s_data := s_data s; s_cur := c; s_flags := s_flags s;
     s_cache := s_cache s; s_slots := s_slots s; s_acc := s_acc s |}.
Definition set_data (s : st) (d : data) : st :=
  {| s_idx := s_idx s; s_log := s_log s; s_data := d; s_cur := s_cur s; s_flags := s_flags s;
     s_cache := s_cache s; s_slots := s_slots s; s_acc := s_acc s |}.
Definition set_cache (s : st) (b : bool) : st :=
  {| s_idx := s_idx s; s_log := s_log s; s_data := s_data s; s_cur := s_cur s; s_flags := s_flags s;
     s_cache := b; s_slots := []; s_acc := s_acc s |}.
Definition put_slot (s : st) (n : nat) : st :=
  {| s_idx := s_idx s; s_log := s_log s; s_data := s_data s; s_cur := s_cur s; s_flags := s_flags s;
     s_cache := s_cache s; s_slots := (n, s_data s) :: s_slots s; s_acc := s_acc s |}.
Definition push_acc (s : st) : st :=
  {| s_idx := s_idx s; s_log := s_log s; s_data := s_data s; s_cur := s_cur s; s_flags := s_flags s;
     s_cache := s_cache s; s_slots := s_slots s; s_acc := s_cur s :: s_acc s |}.
Definition clear_acc (s : st) : st :=
  {| s_idx := s_idx s; s_log := s_log s; s_data := s_data s; s_cur := s_cur s; s_flags := s_flags s;
     s_cache := s_cache s; s_slots := s_slots s; s_acc := [] |}.
Definition tick (s : st) (k : akind) (f : fid) (cur : string) : st :=
  {| s_idx := S (s_idx s); s_log := (k, f, cur) :: s_log s; s_data := s_data s; s_cur := s_cur s;
     s_flags := s_flags s; s_cache := s_cache s; s_slots := s_slots s; s_acc := s_acc s |}.
Fixpoint find_slot (l : list (nat * data)) (n : nat) : option data :=
  match l with [] => None | (m, d) :: r => if Nat.eqb n m then Some d else find_slot r n end.

Definition lcls_eqb (a b : lcls) : bool :=
  match a, b with
  | LReg, LReg | LRegDel, LRegDel | LAbsOther, LAbsOther | LDel, LDel | LSock, LSock | LOtherLink, LOtherLink => true
  | _, _ => false
  end.
Definition eval_test (w : world) (t : test) (cx : xc) (s : st) : bool :=
  match t with
  | TEmpty => d_empty (s_data s) | TZombie => d_zombie (s_data s)
  | TLink c => lcls_eqb c (d_link (s_data s))
  | TFlag n => flag_on s n | TParam n => w_param w n | TParamCur n => w_pcur w n (s_cur s) | TCur h => hmatch h cx
  end.

Fixpoint iter_names (body : st -> sig * st) (ns : list string) (s : st) : sig * st :=
  match ns with
  | [] => (SNormal, s)
  | n :: r => match body (set_cur s n) with (SNormal, s1) => iter_names body r s1 | o => o end
  end.

(* children(recursive=True):  stack = [self]; while stack: pid = stack.pop(); skip if seen; for child in kids[pid]:
   body(child); if the body asked for it (flag [push]) stack.append(child).  [stack]: head = top.  Every pid is
   pushed at most once (it has one parent), [fuel] = number of remembered pids + 1 suffices. *)
Fixpoint visit (body : st -> sig * st) (push : nat) (kids : list string) (stack : list string) (s : st)
  : sig * st * list string :=
  match kids with
  | [] => (SNormal, s, stack)
  | k :: r => match body (set_cur s k) with
              | (SNormal, s1) => visit body push r (if flag_on s1 push then k :: stack else stack) s1
              | (sg, s1) => (sg, s1, stack)
              end
  end.
Fixpoint walk (body : st -> sig * st) (push : nat) (kids : string -> list string) (fuel : nat)
              (stack seen : list string) (s : st) : sig * st :=
  match fuel with
  | O => (SNormal, s)
  | S f =>
      match stack with
      | [] => (SNormal, s)
      | pid :: rest =>
          if existsb (String.eqb pid) seen then walk body push kids f rest seen s
          else match visit body push (kids pid) rest s with
               | (SNormal, s1, stack1) => walk body push kids f stack1 (pid :: seen) s1
               | (sg, s1, _) => (sg, s1)
               end
      end
  end.
Definition F_PUSH := 20%nat.    (* the walk body: push this child *)

Section Exec.
Variable w : world.
(* children of [pid] as ppid_map saw them: remembered pids, never the object itself *)
Definition kids_of (acc : list string) (pid : string) : list string :=
  filter (fun k => negb (String.eqb k (w_self w)) && existsb (String.eqb k) acc) (w_kids w pid).
(* [cx] = the exception currently being handled (meaningful inside handlers only) *)
Fixpoint exec (p : prog) (cx : xc) (s : st) {struct p} : sig * st :=
  match p with
  | Skip => (SNormal, s)
  | Ret => (SReturn, s)
  | Raise x => (SRaise x, s)
  | Reraise => (SRaise cx, s)
  | Acc l =>
      let s1 := tick s (l_kind l) (l_file l) (s_cur s) in
      match answer w (s_idx s) l (s_cur s) with
      | Ok d => (SNormal, set_data s1 d)
      | Err e => (SRaise (xc_of e), s1)
      end
  | Seq p q => match exec p cx s with (SNormal, s1) => exec q cx s1 | r => r end
  | If t p q => if eval_test w t cx s then exec p cx s else exec q cx s
  | SetFlag n b => (SNormal, set_flag s n b)
  | Try b h e =>
      match exec b cx s with
      | (SNormal, s1) => exec e cx s1
      | (SReturn, s1) => (SReturn, s1)
      | (SRaise x, s1) => exec h x s1
      end
  | ForNames b => iter_names (exec b cx) (d_names (s_data s)) s
  | Call p => match exec p cx s with (SReturn, s1) => (SNormal, s1) | r => r end
  | Memo n p =>
      if s_cache s then
        match find_slot (s_slots s) n with
        | Some d => (SNormal, set_data s d)
        | None => match exec p cx s with
                  | (SRaise x, s1) => (SRaise x, s1)
                  | (sg, s1) => (sg, if s_cache s1 then put_slot s1 n else s1)
                  end
        end
      else exec p cx s
  | CacheOn => (SNormal, set_cache s true)
  | CacheOff => (SNormal, set_cache s false)
  | Collect => (SNormal, push_acc s)
  | LoadKids =>
      (SNormal, set_data s {| d_empty := false; d_zombie := false; d_names := kids_of (s_acc s) (w_self w);
                              d_link := LOtherLink |})
  | FocusParent => (SNormal, set_cur s (w_parent w))
  | Walk b => walk (exec b cx) F_PUSH (kids_of (s_acc s)) (S (List.length (s_acc s))) [w_self w] [] s
  end.
End Exec.

(* what the caller of the method sees *)
Inductive result := RVal | RExc (x : xc).
Definition run (w : world) (p : prog) (s : st) : result * st :=
  match exec w p XPy s with (SRaise x, s1) => (RExc x, s1) | (_, s1) => (RVal, s1) end.

(* several calls on ONE object: between two calls only the object's fields (the flags), the access counter and
   the log persist; the registers of a call (data, entry, remembered pids) and the oneshot cache do not *)
Definition next_call (s : st) : st :=
  {| s_idx := s_idx s; s_log := s_log s; s_data := data0; s_cur := ""; s_flags := s_flags s;
     s_cache := false; s_slots := []; s_acc := [] |}.
Fixpoint run_hist (w : world) (ps : list prog) (s : st) : list (result * st) :=
  match ps with
  | [] => []
  | p :: r => let rs := run w p s in rs :: run_hist w r (next_call (snd rs))
  end.

(* ------------------------------------------------------------------ the modelled psutil code *)
(* (scripts are closed terms; which pid they talk about is the world's business) *)
Definition acc (k : akind) (x : who) (f : fid) := Acc {| l_kind := k; l_who := x; l_file := f |}.

(* flags *)
Definition F_HIT := 0%nat.      (* hit_enoent *)
Definition F_SOCK := 1%nat.     (* get_proc_inodes found a socket *)
Definition F_FALLBACK := 2%nat. (* _readlink returned its fallback '' *)
Definition F_GONE := 3%nat.     (* Process._gone *)
Definition F_REUSED := 4%nat.   (* Process._pid_reused *)
Definition F_NOIDENT := 5%nat.  (* fresh Process(pid)._ident == (pid, None) *)
Definition F_CTIME := 6%nat.    (* Process._create_time is cached *)
Definition F_NOCMD := 12%nat.   (* cmdline() returned [] *)
Definition F_DEL := 13%nat.     (* the link just read ends in " (deleted)" *)
Definition F_ABS := 14%nat.     (* ... is an absolute path *)
Definition F_SOCK_THIS := 16%nat. (* ... is socket:[inode] *)
Definition F_REG := 15%nat.     (* ... names a regular file (after the clean-up) *)
(* world facts *)
Definition W_GUESS := 0%nat.    (* cmdline[0] is an absolute path *)
Definition W_LONGNAME := 1%nat. (* len(name) >= 15 *)
Definition W_ISLOWEST := 2%nat. (* pid == lowest pid *)

(* bcat(path): with open(path) as f: return f.read() *)
Definition bcat (x : who) (f : fid) := Seq (acc KOpen x f) (acc KRead x f).

(* _pslinux.Process._raise_if_zombie for the process [x] whose stat file is [stat]:
   _is_zombie() reads stat, any OSError -> False *)
Definition raise_if_zombie (x : who) (stat : fid) :=
  Try (bcat x stat) (handlers [(HOSError, Skip)]) (If TZombie (Raise (XZombie x)) Skip).

(* _pslinux.wrap_exceptions around [p], for the process [x] *)
Definition wrapped_at (x : who) (stat : fid) (p : prog) :=
  Try p (handlers
    [ (HPerm, Raise (XAD x));
      (HEsrch, Seq (raise_if_zombie x stat) (Raise (XNSP x)));
      (HFnf, Seq (raise_if_zombie x stat)
                 (* if not os.path.exists(f"{procfs}/{pid}/stat"): raise NoSuchProcess ; raise *)
                 (Try (acc KStat x stat) (handlers [(HOSError, Raise (XNSP x))]) Reraise)) ]) Skip.
Definition wrapped := wrapped_at Self FStat.

(* _parse_stat_file / _read_status_file / _read_smaps_file: @wrap_exceptions @memoize_when_activated *)
Definition parse_stat := Call (wrapped (Memo 0 (bcat Self FStat))).
Definition read_status := Call (wrapped (Memo 1 (bcat Self FStatus))).
Definition read_smaps := Call (wrapped (Memo 2 (bcat Self FSmaps))).

(* path_exists_strict / isfile_strict: os.stat, PermissionError is re-raised, any other OSError means "no" *)
Definition stat_strict (f : fid) (yes : prog) :=
  Try (acc KStat Ext f) (handlers [(HPerm, Reraise); (HOSError, Skip)]) yes.
Definition link_in (cs : list lcls) (n : nat) : prog :=
  fold_right (fun c r => If (TLink c) (SetFlag n true) r) (SetFlag n false) cs.
(* _pslinux.readlink(path): os.readlink, then for a target ending in " (deleted)": path_exists_strict(target) *)
Definition rl (f del : fid) :=
  seqs [ acc KReadlink Self f;
         link_in [LDel; LRegDel] F_DEL; link_in [LReg; LRegDel; LAbsOther; LDel] F_ABS; link_in [LReg; LRegDel] F_REG;
         link_in [LSock] F_SOCK_THIS;
         If (TFlag F_DEL) (stat_strict del Skip) Skip ].

(* _readlink(path, fallback=''): on ENOENT/ESRCH probe [probe] with os.lstat -- /proc/<pid>/stat since commit 1195393:
   during teardown the directory may outlive its entries -- ([hs]: which errors of the probe mean "not there"; any
   other, e.g. a refusal, propagates to wrap_exceptions); still there: zombie check, fallback; else re-raise *)
Definition readlink_fb_with (probe : fid) (hs : list (hpat * prog)) (f del : fid) :=
  Call (Seq (SetFlag F_FALLBACK false)
    (Try (rl f del)
       (handlers [(HFnfEsrch,
          Seq (Try (acc KLstat Self probe) (handlers hs)
                   (Seq (raise_if_zombie Self FStat) (Seq (SetFlag F_FALLBACK true) Ret)))
              Reraise)])
       Ret)).
Definition readlink_fb := readlink_fb_with FStat [(HFnfEsrch, Skip)].
(* the code before commit 1195393: the probe was /proc/<pid> itself *)
Definition legacy_dir_readlink_fb := readlink_fb_with FDir [(HFnfEsrch, Skip)].
(* the code before commit 4ee76b0: os.path.lexists('/proc/<pid>') swallowed every OSError of the probe *)
Definition legacy_readlink_fb := readlink_fb_with FDir [(HOSError, Skip)].

(* ---- _pslinux.Process methods *)
Definition i_stat_based := Call (wrapped parse_stat).       (* name status ppid cpu_times cpu_num terminal create_time *)
Definition i_status_based := Call (wrapped read_status).    (* uids gids num_threads num_ctx_switches *)
Definition i_exe := Call (wrapped (readlink_fb FExe FExeDel)).
Definition i_cwd := Call (wrapped (readlink_fb FCwd FCwdDel)).
Definition legacy_i_exe := Call (wrapped (legacy_readlink_fb FExe FExeDel)).
Definition legacy_i_cwd := Call (wrapped (legacy_readlink_fb FCwd FCwdDel)).
Definition legacy_dir_i_cwd := Call (wrapped (legacy_dir_readlink_fb FCwd FCwdDel)).
Definition i_cmdline :=
  Call (wrapped (seqs [acc KOpen Self FCmdline; acc KRead Self FCmdline;
                       If TEmpty (seqs [SetFlag F_NOCMD true; raise_if_zombie Self FStat; Ret])
                                 (Seq (SetFlag F_NOCMD false) Ret)])).
Definition i_file (f : fid) := Call (wrapped (bcat Self f)).   (* environ io statm *)
Definition i_memory_info := i_file FStatm.
Definition i_parse_smaps := Call (wrapped read_smaps).
Definition i_memory_full_info :=
  Call (wrapped (seqs [ Try (bcat Self FRollup) (handlers [(HFnfEsrch, i_parse_smaps)]) Skip;
                        i_memory_info ])).
Definition i_memory_maps :=
  Call (wrapped (seqs [read_smaps;
                       If TEmpty (Seq (raise_if_zombie Self FStat) Ret)
                          (* for every mapping whose path ends in " (deleted)": path_exists_strict(path); since commit
                             b718f0c a PermissionError of that probe is caught too ("cannot be shown to exist") *)
                          (Seq (ForNames (Try (acc KStat Ext FMapPathE) (handlers [(HOSError, Skip)]) Skip)) Ret)])).
Definition raise_if_not_alive := acc KStat Self FDir.
Definition i_threads :=
  Call (wrapped (seqs
    [ acc KListdir Self FTaskDir; SetFlag F_HIT false;
      ForNames (Try (bcat Self FTaskStatE) (handlers [(HFnfEsrch, SetFlag F_HIT true)]) Skip);
      If (TFlag F_HIT) raise_if_not_alive Skip; Ret ])).
Definition i_open_files :=
  Call (wrapped (seqs
    [ acc KListdir Self FFdDir; SetFlag F_HIT false;
      ForNames (Try (rl FFdE FTargetDelE)
                    (handlers [(HFnfEsrch, SetFlag F_HIT true); (HEinval, Skip)])     (* other OSErrors: raise *)
                    (* if path.startswith('/') and isfile_strict(path): *)
                    (If (TFlag F_ABS)
                        (stat_strict FTargetE
                           (If (TFlag F_REG)
                               (Try (bcat Self FFdinfoE) (handlers [(HFnfEsrch, SetFlag F_HIT true)]) Skip)
                               Skip))
                        Skip));
      If (TFlag F_HIT) raise_if_not_alive Skip; Ret ])).
Definition i_num_fds := Call (wrapped (acc KListdir Self FFdDir)).
(* NetConnections.retrieve(kind, pid): get_proc_inodes, then the /proc/net files of the kind *)
Definition net_inet (f : fid) := bcat Global f.
Definition net_inet6 (f : fid) :=
  Try (acc KStat Global f) (handlers [(HOSError, Skip)]) (net_inet f).
Definition net_files (kind : nat) : prog :=
  match kind with
  | 0%nat => seqs [net_inet FNetTcp; net_inet6 FNetTcp6; net_inet FNetUdp; net_inet6 FNetUdp6]              (* inet *)
  | 1%nat => net_inet FNetUnix                                                                          (* unix *)
  | _ => seqs [net_inet FNetTcp; net_inet6 FNetTcp6; net_inet FNetUdp; net_inet6 FNetUdp6; net_inet FNetUnix]  (* all *)
  end.
Definition i_net_connections (kind : nat) :=
  Call (wrapped (seqs
    [ Call (seqs [ acc KListdir Self FFdDir; SetFlag F_SOCK false;
                   ForNames (Try (rl FFdE FTargetDelE)
                                 (handlers [(HFnfEsrch, Skip); (HEinval, Skip)])
                                 (If (TFlag F_SOCK_THIS) (SetFlag F_SOCK true) Skip));
                   If (TFlag F_SOCK) (net_files kind) Ret ]);
      raise_if_not_alive; Ret ])).
(* terminal(): tty_nr from stat, then _psposix.get_terminal_map(): scan /dev, os.stat every tty (ENOENT tolerated) *)
Definition i_terminal :=
  Call (wrapped (seqs [ parse_stat; acc KListdir Global FDevDir;
                        ForNames (Try (acc KStat Ext FDevE) (handlers [(HFnf, Skip)]) Skip); Ret ])).
(* ... with the terminal map already memoised (possibly STALE: a pty allocated later is not in it, a pty freed by the
   exiting process still is): the lookup is a dictionary access -- world fact W_TTYHIT says whether tty_nr is a key --
   and terminal() touches nothing but /proc/<pid>/stat *)
Definition W_TTYHIT := 4%nat.
Definition i_terminal_warm :=
  Call (wrapped (seqs [ parse_stat; If (TParam W_TTYHIT) Ret Ret ])).
Definition i_sys (f : fid) := Call (wrapped (acc KSys Self f)).    (* nice_get ionice_get cpu_affinity_get *)
Definition i_rlimit := Call (wrapped (Try (acc KSys Self FSysRlimit) (handlers [(HOSError, Reraise)]) Skip)).

(* ---- psutil.Process (front end) *)
Definition f_name :=
  seqs [ i_stat_based;
         If (TParam W_LONGNAME) (Try i_cmdline (handlers [(HADZ, Skip)]) Skip) Skip; Ret ].
(* guess_it: cmdline(); if cmdline and isabs(cmdline[0]) and os.path.isfile(..) and os.access(.., X_OK): return it.
   os.path.isfile swallows every OSError, os.access answers False when refused *)
Definition guess_it (on_fail : prog) :=
  seqs [ i_cmdline;
         If (TFlag F_NOCMD) on_fail
           (If (TParam W_GUESS)
               (Try (acc KStat Ext FGuessExe) (handlers [(HOSError, on_fail)])
                    (Try (acc KAccess Ext FGuessExe) (handlers [(HOSError, on_fail)]) Ret))
               on_fail) ].
(* memoised front-end accessors: `if self._x is None: self._x = ...; return self._x` *)
Definition cached (f : nat) (body : prog) := If (TFlag f) Skip body.
Definition F_EXE := 17%nat.      (* Process._exe is set *)
Definition F_EXITCODE := 18%nat. (* Process._exitcode is set *)
Definition exe_body_with (ie : prog) :=
  seqs [ Try ie (handlers [(HAD, guess_it (Raise (XAD Self)))])
             (Seq (If (TFlag F_FALLBACK) (Try (Call (guess_it Ret)) (handlers [(HAD, Skip)]) Skip) Skip)
                  (SetFlag F_EXE true));          (* self._exe = exe *)
         Ret ].
Definition exe_body := exe_body_with i_exe.
Definition f_exe := cached F_EXE exe_body.
Definition legacy_f_exe := cached F_EXE (exe_body_with legacy_i_exe).
Definition f_status := Try i_stat_based (handlers [(HZombie, Ret)]) Ret.
(* Process(pid) for the process [x]: _init -> _get_ident -> _proc.create_time(monotonic=True) on a NEW
   platform object (no oneshot cache) *)
Definition new_process (x : who) (stat : fid) :=
  seqs [ SetFlag F_NOIDENT false;
         Try (Call (wrapped_at x stat (bcat x stat)))
             (handlers [(HAD, SetFlag F_NOIDENT true); (HZombie, SetFlag F_NOIDENT true); (HNSP, Raise (XNSP x))]) Skip ].
(* is_running() / _raise_if_pid_reused() of the object for process [x]; [k_gone] = what follows `self._gone = True`
   inside is_running (normally `return False`).  The scripts describe a call on a
   FRESH object (created just before the call, as the harness does): _gone = _pid_reused = False on entry, so
   the two entry tests of _raise_if_pid_reused are omitted.  [fo] = the flag saying that this object's _ident is
   (pid, None); None = the object is known to have a create time (the object under test is created before any
   fault), in which case `self != Process(self.pid)` is False whenever the probe object has one too (PID reuse
   itself is C01/C02's subject and not in this fault model) and the never-taken branches are not emitted. *)
Definition is_running_of (legacy : bool) (x : who) (stat : fid) (fg fr : nat) (fo : option nat) (k_gone : prog) :=
  let reuse := Seq (SetFlag fr true) (Raise (XNSP x)) in
  let has_ident := match fo with Some f => If (TFlag f) reuse Ret | None => Ret end in
  Call (If (TFlag fg) Ret (If (TFlag fr) Ret
    (Try (seqs [ new_process x stat;
                 (* self._pid_reused = self != Process(self.pid) *)
                 if legacy then
                    If (TFlag F_NOIDENT)
                       (match fo with Some f => If (TFlag f) Ret reuse | None => reuse end)
                       has_ident
                 else
                    (* since commit a4fac6f: an unreadable create time of the probe object is not PID reuse *)
                    If (TFlag F_NOIDENT) Ret has_ident ])
         (handlers [(HZombie, Ret); (HNSP, Seq (SetFlag fg true) k_gone)]) Skip))).
Definition raise_if_pid_reused_of (legacy : bool) (x : who) (stat : fid) (fg fr : nat) (fo : option nat) (k_gone : prog) :=
  Seq (is_running_of legacy x stat fg fr fo k_gone)
      (match legacy, fo with
       | false, None => Skip                       (* _pid_reused cannot have been set *)
       | _, _ => If (TFlag fr) (Raise (XNSP x)) Skip
       end).
Definition NOW := false.         (* the current code *)
Definition LEGACY := true.       (* the code before the C03 repairs (kept for the _refuted theorems only) *)
Definition f_is_running := is_running_of NOW Self FStat F_GONE F_REUSED None Ret.
Definition raise_if_pid_reused := raise_if_pid_reused_of NOW Self FStat F_GONE F_REUSED None Ret.
Definition legacy_raise_if_pid_reused := raise_if_pid_reused_of LEGACY Self FStat F_GONE F_REUSED None Ret.
Definition f_ppid := Call (Memo 3 (Seq raise_if_pid_reused i_stat_based)).
Definition legacy_f_ppid := Call (Memo 3 (Seq legacy_raise_if_pid_reused i_stat_based)).
Definition create_time_body := Seq i_stat_based (SetFlag F_CTIME true).
Definition f_create_time := cached F_CTIME create_time_body.
Definition f_uids := Call (Memo 4 i_status_based).
Definition f_cpu_times := Call (Memo 5 i_stat_based).
Definition f_memory_info := Call (Memo 6 i_memory_info).
(* parent(): ppid(); create_time(); Process(ppid); parent.create_time() -- NoSuchProcess -> None *)
Definition F_HASPARENT := 7%nat. (* parent() returned a Process *)
Definition F_PGONE := 8%nat.     (* the parent object's _gone / _pid_reused *)
Definition F_PREUSED := 9%nat.
Definition F_PNOIDENT := 11%nat. (* the parent object's _ident is (ppid, None) *)
(* parent() calls _raise_if_pid_reused() itself and again through ppid(): when the first one found the process
   gone (_gone = True) the second raises NoSuchProcess at once -- unless pid == lowest pid returned None before *)
Definition parent_with (check ppid : prog) :=
  Call (seqs [ check;
    If (TParam W_ISLOWEST) Ret
    (seqs [ ppid;
            (* since commit e49a6c9 the age test uses self._ident[1] (no access: the object under test has it) and
               parent._proc.create_time(monotonic=True) *)
            FocusParent;
            Try (seqs [ new_process Other FStatE;
                        If (TFlag F_NOIDENT) (SetFlag F_PNOIDENT true) (SetFlag F_PNOIDENT false);
                        SetFlag F_PGONE false; SetFlag F_PREUSED false;     (* a NEW parent object *)
                        Call (wrapped_at Other FStatE (bcat Other FStatE));
                        SetFlag F_HASPARENT true; Ret ])
                (handlers [(HNSP, Skip)]) Skip;
            Ret ]) ]).
Definition f_parent :=
  parent_with (raise_if_pid_reused_of NOW Self FStat F_GONE F_REUSED None
                 (If (TParam W_ISLOWEST) Ret (Raise (XNSP Self)))) f_ppid.
(* parents(): parent(), then parent() of the parent -- which is init, the lowest pid: only its
   _raise_if_pid_reused() touches the OS; since commit 671469c `try: proc = proc.parent() except NoSuchProcess: break`:
   an ancestor that vanished (or whose probe makes it look reused) ends the chain *)
Definition parents_with (parent : prog) :=
  Call (seqs [ SetFlag F_HASPARENT false; parent;
               If (TFlag F_HASPARENT)
                  (Try (raise_if_pid_reused_of NOW Other FStatE F_PGONE F_PREUSED (Some F_PNOIDENT) Ret)
                       (handlers [(HNSP, Skip)]) Skip)
                  Skip;
               Ret ]).
Definition f_parents := parents_with f_parent.
(* children(recursive=False): _raise_if_pid_reused(); ppid_map(); for each child: Process(child), create times *)
(* ppid_map(): a pid whose stat cannot be read (gone, or refused since commit 1c63e73) is left out *)
Definition ppid_map_with (hs : list (hpat * prog)) :=
  seqs [ acc KListdir Global FRoot;
         ForNames (Try (bcat Any FStatE) (handlers hs) Collect) ].
Definition ppid_map := ppid_map_with [(HFnfEsrch, Skip); (HPerm, Skip)].
(* one child: Process(child); _start_times(child): self._ident[1] (no access) <= child._proc.create_time(monotonic=True)
   (commit e49a6c9; before: self.create_time() <= child.create_time()) *)
Definition child_body :=
  seqs [ new_process Other FStatE; Call (wrapped_at Other FStatE (bcat Other FStatE)) ].
Definition children_with (check pmap : prog) :=
  Call (seqs [ check; pmap; LoadKids;
               ForNames (Try child_body (handlers [(HNSP, Skip)]) Skip);
               Ret ]).
Definition f_children := children_with raise_if_pid_reused ppid_map.
Definition legacy_f_children := children_with legacy_raise_if_pid_reused (ppid_map_with [(HFnfEsrch, Skip)]).
(* children(recursive=True): the stack walk; a child that could be queried is appended and pushed *)
Definition children_rec_with (check : prog) :=
  Call (seqs [ check; ppid_map;
               Walk (Seq (SetFlag F_PUSH false)
                         (Try (Seq child_body (SetFlag F_PUSH true)) (handlers [(HNSP, Skip)]) Skip));
               Ret ]).
Definition f_children_rec := children_rec_with raise_if_pid_reused.

(* as_dict(attrs): with self.oneshot(): for name in attrs: try meth() except (AccessDenied, ZombieProcess): ad_value *)
Definition as_dict (ms : list prog) :=
  seqs [ CacheOn;
         Try (seqs (map (fun m => Try (Call m) (handlers [(HADZ, Skip)]) Skip) ms))
             (handlers [(HAny, Seq CacheOff Reraise)]) CacheOff;
         Ret ].

(* `with p.oneshot(): m1(); m2(); ...` -- the first exception leaves the block *)
Definition oneshot_block (ms : list prog) :=
  seqs [ CacheOn; Try (seqs (map Call ms)) (handlers [(HAny, Seq CacheOff Reraise)]) CacheOff; Ret ].
(* ... and the same with every call in `try: ... except psutil.Error: pass` *)
Definition oneshot_block_c (ms : list prog) :=
  seqs [ CacheOn;
         Try (seqs (map (fun m => Try (Call m) (handlers [(HNSP, Skip); (HAD, Skip)]) Skip) ms))
             (handlers [(HAny, Seq CacheOff Reraise)]) CacheOff;
         Ret ].

(* wait(timeout=0) on a process that is not our child: os.waitpid says ECHILD (whatever the process does: not an
   access point), then pid_exists(): os.kill(pid, 0); ESRCH -> return None, else (EPERM included) the process is
   there -> TimeoutExpired *)
Definition i_wait :=
  Call (wrapped (Try (acc KSys Self FSysKill) (handlers [(HEsrch, Ret); (HPerm, Raise XTimeout)]) (Raise XTimeout))).
Definition wait_body := Seq i_wait (SetFlag F_EXITCODE true).
Definition f_wait := cached F_EXITCODE wait_body.

(* ---- the same queries on the Process object of the CURRENT ENTRY (process_iter): files of /proc/<entry>/ *)
Definition parse_stat_of (x : who) (st : fid) := Call (wrapped_at x st (Memo 0 (bcat x st))).
Definition stat_based_of (x : who) (st : fid) := Call (wrapped_at x st (parse_stat_of x st)).
Definition cmdline_of (x : who) (st cm : fid) :=
  Call (wrapped_at x st (seqs [acc KOpen x cm; acc KRead x cm;
                               If TEmpty (seqs [SetFlag F_NOCMD true; raise_if_zombie x st; Ret])
                                         (Seq (SetFlag F_NOCMD false) Ret)])).
Definition name_of (x : who) (st cm : fid) :=
  seqs [ stat_based_of x st;
         If (TParamCur W_LONGNAME) (Try (cmdline_of x st cm) (handlers [(HADZ, Skip)]) Skip) Skip; Ret ].
Definition F_EGONE := 21%nat.    (* the entry object's _gone / _pid_reused / _ident == (pid, None) *)
Definition F_EREUSED := 22%nat.
Definition F_ENOIDENT := 23%nat.
Definition ppid_of (x : who) (st : fid) :=
  Call (Memo 3 (Seq (raise_if_pid_reused_of NOW x st F_EGONE F_EREUSED (Some F_ENOIDENT) Ret) (stat_based_of x st))).
Definition status_of (x : who) (st : fid) := Try (stat_based_of x st) (handlers [(HZombie, Ret)]) Ret.
(* process_iter(attrs) with an empty cache: pids(); for each pid: Process(pid); proc.as_dict(attrs);
   NoSuchProcess (ZombieProcess included) -> the pid is skipped *)
Definition f_iter (ms : list prog) :=
  Call (seqs [ acc KListdir Global FRoot;
               ForNames (Try (seqs [ new_process Any FStatE;
                                     If (TFlag F_NOIDENT) (SetFlag F_ENOIDENT true) (SetFlag F_ENOIDENT false);
                                     SetFlag F_EGONE false; SetFlag F_EREUSED false;
                                     Call (as_dict ms) ])
                             (handlers [(HNSP, Skip)]) Skip);
               Ret ]).

(* ---- the same front-end calls on an object with a HISTORY: _gone / _pid_reused may have been set by earlier calls
   (nothing partially evaluated), and the pid may by now belong to ANOTHER process (other start time: world fact
   W_REUSED, PID reuse).  On a fresh object of an unrecycled pid these behave exactly as the f_ scripts. *)
Definition W_REUSED := 3%nat.
Definition h_is_running :=
  Call (If (TFlag F_GONE) Ret (If (TFlag F_REUSED) Ret
    (Try (seqs [ new_process Self FStat;
                 (* self._pid_reused = self != Process(self.pid) *)
                 If (TFlag F_NOIDENT) Ret
                    (If (TParam W_REUSED) (Seq (SetFlag F_REUSED true) (Raise (XNSP Self))) Ret) ])
         (handlers [(HZombie, Ret); (HNSP, Seq (SetFlag F_GONE true) Ret)]) Skip))).
(* _raise_if_pid_reused(): `if self._gone and not self._pid_reused: raise NoSuchProcess`;
   `if self._pid_reused or (not self.is_running() and self._pid_reused): raise NoSuchProcess` *)
Definition h_check :=
  Seq (If (TFlag F_GONE) (If (TFlag F_REUSED) Skip (Raise (XNSP Self))) Skip)
      (If (TFlag F_REUSED) (Raise (XNSP Self))
          (Seq h_is_running (If (TFlag F_REUSED) (Raise (XNSP Self)) Skip))).
Definition h_ppid := Call (Memo 3 (Seq h_check i_stat_based)).
Definition h_parent := parent_with h_check h_ppid.
Definition h_parents := parents_with h_parent.
Definition h_children := children_with h_check ppid_map.
Definition h_children_rec := children_rec_with h_check.

Definition terminal_of (x : who) (st : fid) :=      (* process_iter(['terminal']) with a memoised map *)
  Call (wrapped_at x st (seqs [ parse_stat_of x st; If (TParamCur W_TTYHIT) Ret Ret ])).
