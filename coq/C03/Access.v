(* C03 -- the accesses a script can make are the accesses written in it: every entry a run adds to the access log
   names a file that occurs in an [Acc] of the script. *)
From PV Require Import Base.Prelude C03.Model.
Local Open Scope list_scope.

Fixpoint files_of (p : prog) : list fid :=
  match p with
  | Acc l => [l_file l]
  | Seq p q => files_of p ++ files_of q
  | If _ p q => files_of p ++ files_of q
  | Try b h e => files_of b ++ files_of h ++ files_of e
  | ForNames b | Call b | Memo _ b | Walk b => files_of b
  | _ => []
  end.

Definition grows (P : fid -> Prop) (s s' : st) : Prop :=
  exists l', s_log s' = l' ++ s_log s /\ Forall (fun e => P (snd (fst e))) l'.

Lemma grows_refl : forall P s s', s_log s' = s_log s -> grows P s s'.
Proof. intros. exists []. split; auto. Qed.
Lemma grows_trans : forall P s1 s2 s3, grows P s1 s2 -> grows P s2 s3 -> grows P s1 s3.
Proof.
  intros P s1 s2 s3 [a [Ha Fa]] [b [Hb Fb]]. exists (b ++ a). split.
  - rewrite Hb, Ha. apply app_assoc.
  - apply Forall_app. auto.
Qed.
Lemma grows_weaken : forall (P Q : fid -> Prop) s s', (forall f, P f -> Q f) -> grows P s s' -> grows Q s s'.
Proof.
  intros P Q s s' H [a [Ha Fa]]. exists a. split; auto.
  eapply Forall_impl; [| exact Fa]. intros e; apply H.
Qed.
Lemma grows_log_eq : forall P s s0 s', s_log s0 = s_log s -> grows P s0 s' -> grows P s s'.
Proof. intros P s s0 s' E [a [Ha Fa]]. exists a. rewrite <- E. auto. Qed.

Section W.
Variable w : world.

Lemma iter_grows : forall (P : fid -> Prop) body,
  (forall s sg s', body s = (sg, s') -> grows P s s') ->
  forall ns s sg s', iter_names body ns s = (sg, s') -> grows P s s'.
Proof.
  intros P body Hb. induction ns as [|n r IH]; intros s sg s' H; simpl in H.
  - inversion H; subst. apply grows_refl. reflexivity.
  - destruct (body (set_cur s n)) as [sg1 s1] eqn:E. apply Hb in E.
    assert (G1 : grows P s s1) by (eapply grows_log_eq; [| exact E]; reflexivity).
    destruct sg1.
    + eapply grows_trans; [exact G1 | eapply IH; eauto].
    + inversion H; subst; auto.
    + inversion H; subst; auto.
Qed.
Lemma visit_grows : forall (P : fid -> Prop) body push,
  (forall s sg s', body s = (sg, s') -> grows P s s') ->
  forall ks stack s sg s' st', visit body push ks stack s = (sg, s', st') -> grows P s s'.
Proof.
  intros P body push Hb. induction ks as [|k r IH]; intros stack s sg s' st' H; simpl in H.
  - inversion H; subst. apply grows_refl. reflexivity.
  - destruct (body (set_cur s k)) as [sg1 s1] eqn:E. apply Hb in E.
    assert (G1 : grows P s s1) by (eapply grows_log_eq; [| exact E]; reflexivity).
    destruct sg1.
    + eapply grows_trans; [exact G1 | eapply IH; eauto].
    + inversion H; subst; auto.
    + inversion H; subst; auto.
Qed.
Lemma walk_grows : forall (P : fid -> Prop) body push kids,
  (forall s sg s', body s = (sg, s') -> grows P s s') ->
  forall fuel stack seen s sg s', walk body push kids fuel stack seen s = (sg, s') -> grows P s s'.
Proof.
  intros P body push kids Hb. induction fuel as [|f IH]; intros stack seen s sg s' H; simpl in H.
  - inversion H; subst. apply grows_refl. reflexivity.
  - destruct stack as [|pid rest]; [inversion H; subst; apply grows_refl; reflexivity|].
    destruct (existsb (String.eqb pid) seen); [eapply IH; eauto|].
    destruct (visit body push (kids pid) rest s) as [[sg1 s1] st1] eqn:E.
    apply (visit_grows P body push Hb) in E.
    destruct sg1.
    + eapply grows_trans; [exact E | eapply IH; eauto].
    + inversion H; subst; auto.
    + inversion H; subst; auto.
Qed.

Theorem exec_files : forall p cx s sg s',
  exec w p cx s = (sg, s') -> grows (fun f => In f (files_of p)) s s'.
Proof.
  induction p; intros cx s sg s' H; simpl in H; simpl files_of;
    try (inversion H; subst; apply grows_refl; reflexivity).
  - (* Acc *)
    destruct (answer w (s_idx s) l (s_cur s)); inversion H; subst;
      exists [(l_kind l, l_file l, s_cur s)]; simpl; split; auto; constructor; simpl; auto.
  - (* Seq *)
    destruct (exec w p1 cx s) as [sg1 s1] eqn:E1. apply IHp1 in E1.
    assert (G1 : grows (fun f => In f (files_of p1 ++ files_of p2)) s s1)
      by (eapply grows_weaken; [| exact E1]; intros; apply in_or_app; auto).
    destruct sg1; try (inversion H; subst; exact G1).
    eapply grows_trans; [exact G1|]. apply IHp2 in H.
    eapply grows_weaken; [| exact H]. intros; apply in_or_app; auto.
  - (* If *)
    destruct (eval_test w t cx s); [apply IHp1 in H | apply IHp2 in H];
      (eapply grows_weaken; [| exact H]; intros; apply in_or_app; auto).
  - (* Try *)
    destruct (exec w p1 cx s) as [sg1 s1] eqn:E1. apply IHp1 in E1.
    assert (G1 : grows (fun f => In f (files_of p1 ++ files_of p2 ++ files_of p3)) s s1)
      by (eapply grows_weaken; [| exact E1]; intros; apply in_or_app; auto).
    destruct sg1.
    + eapply grows_trans; [exact G1|]. apply IHp3 in H.
      eapply grows_weaken; [| exact H]. intros; apply in_or_app; right; apply in_or_app; auto.
    + inversion H; subst; exact G1.
    + eapply grows_trans; [exact G1|]. apply IHp2 in H.
      eapply grows_weaken; [| exact H]. intros; apply in_or_app; right; apply in_or_app; auto.
  - (* ForNames *)
    eapply iter_grows; [| exact H]. intros; eapply IHp; eauto.
  - (* Call *)
    destruct (exec w p cx s) as [sg1 s1] eqn:E1. apply IHp in E1.
    destruct sg1; inversion H; subst; auto.
  - (* Memo *)
    destruct (s_cache s).
    + destruct (find_slot (s_slots s) n).
      * inversion H; subst. apply grows_refl. reflexivity.
      * destruct (exec w p cx s) as [sg1 s1] eqn:E1. apply IHp in E1.
        destruct sg1; destruct (s_cache s1); inversion H; subst; auto;
          (eapply grows_trans; [exact E1 | apply grows_refl; reflexivity]).
    + eauto.
  - (* Walk *)
    exact (walk_grows _ (exec w p cx) F_PUSH (kids_of w (s_acc s)) (fun s0 sg0 s0' E => IHp cx s0 sg0 s0' E)
             (S (List.length (s_acc s))) [w_self w] [] s sg s' H).
Qed.
End W.

(* terminal() with a memoised terminal map touches /proc/<pid>/stat only -- in every world *)
Theorem terminal_warm_only_stat : forall w s,
  grows (fun f => f = FStat) s (snd (run w i_terminal_warm s)).
Proof.
  intros w s. unfold run.
  destruct (exec w i_terminal_warm XPy s) as [sg s'] eqn:E. apply exec_files in E.
  assert (G : grows (fun f => f = FStat) s s').
  { eapply grows_weaken; [| exact E]. vm_compute. intuition. }
  destruct sg; exact G.
Qed.
