(* C03 -- SPECIFICATION, written from the property text and the fault model of its quantifier
   (not from psutil's code):
     - what a call may end with ([allowed]);
     - what "the process is gone" means ([gone]);
     - what the kernel may answer when no fault is injected ([base_ok]): while the process (the object's, or
       the other one in focus) is alive a
       per-process file that is not optional answers or is refused (EACCES/EPERM), it does not report
       ENOENT/ESRCH/EINVAL; global procfs files answer;
     - the classes of optional files for the base kinds of the quantifier. *)
From PV Require Import Base.Prelude C03.Model.
Local Open Scope list_scope.

(* V happened at or before the last access performed *)
Definition gone (w : world) (s : st) : bool :=
  match w_vanish w with Some v => Nat.ltb v (s_idx s) | None => false end.

(* the process in focus (named by the current entry; it may be the object's own) was removed at or before the
   last access performed *)
Definition ogone (w : world) (s : st) : bool :=
  if String.eqb (s_cur s) (w_self w) then gone w s
  else match w_ovanish w (s_cur s) with Some v => Nat.ltb v (s_idx s) | None => false end.

(* "the call either returns a well-formed value or raises NoSuchProcess (gone), ZombieProcess or
   AccessDenied, carrying the object's pid; never a bare OSError nor a parsing error" *)
Definition allowed (r : result) (gone_at_end : bool) : Prop :=
  match r with
  | RVal => True
  | RExc (XNSP Self) => gone_at_end = true
  | RExc (XZombie Self) | RExc (XAD Self) => True
  | RExc _ => False
  end.
(* the same without the demand that NoSuchProcess means gone *)
Definition allowed_weak (r : result) : Prop :=
  match r with
  | RVal | RExc (XNSP Self) | RExc (XZombie Self) | RExc (XAD Self) => True
  | RExc _ => False
  end.
(* tree calls (parent, parents, children, process_iter): an AccessDenied raised by a query on another Process object
   may carry that process's pid; nothing else about another process escapes *)
Definition allowed_tree (r : result) (gone_at_end : bool) : Prop :=
  match r with
  | RExc (XAD Other) | RExc (XAD Any) => True
  | _ => allowed r gone_at_end
  end.
(* wait(timeout): TimeoutExpired for a process that is still there *)
Definition allowed_wait (r : result) (gone_at_end : bool) : Prop :=
  match r with RExc XTimeout => gone_at_end = false | _ => allowed r gone_at_end end.
Definition allowedb (r : result) (gone_at_end : bool) : bool :=
  match r with
  | RVal => true
  | RExc (XNSP Self) => gone_at_end
  | RExc (XZombie Self) | RExc (XAD Self) => true
  | RExc _ => false
  end.

Definition ok_self (r : res) : bool := match r with Ok _ | Err EACCES | Err EPERM => true | _ => false end.
Definition ok_other (r : res) : bool := match r with Err EINVAL => false | _ => true end.
Definition is_ok (r : res) : bool := match r with Ok _ => true | _ => false end.
Definition ok_class (o : oclass) (r : res) : bool :=
  match o with
  | Strict | DirSurvives => ok_self r
  | MayEnoent => match r with Err ENOENT => true | _ => ok_self r end
  | MayVanish => ok_other r | MayVanishOrInval => true
  end.
(* [gf]: which pids are gone at the moment of the access (the base answers of listings depend on it) *)
Definition base_ok (opt : label -> oclass) (w : world) : Prop :=
  forall gf l cur,
    match rwho w l cur with
    | Global => is_ok (w_base w gf (l_kind l) Global (l_file l) cur) = true
    | Self => ok_class (opt l) (w_base w gf (l_kind l) Self (l_file l) cur) = true
              /\ (w_half w = true -> is_piddir l = true -> opt l = DirSurvives)
    | Other => ok_class (opt l) (w_base w gf (l_kind l) Other (l_file l) cur) = true
    | Ext => ok_class (opt l) (w_base w gf (l_kind l) Ext (l_file l) cur) = true
    | Any => True
    end.

(* optional / racing files.
   live process: a descriptor may be closed, a thread may exit, and smaps_rollup may report
   ESRCH/ENOENT for a live process (psutil/_pslinux.py says so) at any moment *)
Definition opt_none (l : label) : oclass := Strict.
Definition opt_race (l : label) : oclass :=
  match l_file l with
  | FFdE => MayVanishOrInval
  | FFdinfoE | FTaskStatE | FRollup => MayVanish
  (* files outside procfs: a "(deleted)" path normally does not exist, a target may be unlinked
     (a /dev node: ENOENT only) *)
  | FExeDel | FCwdDel | FTargetDelE | FTargetE | FMapPathE | FGuessExe => MayVanish
  | FDevE => MayEnoent        (* a pty node is removed when the (exiting) process closes its descriptors *)
  | _ => Strict
  end.
(* kernel thread / zombie: in addition the exe and cwd links report ENOENT while the process is listed *)
Definition opt_links (l : label) : oclass :=
  match l_file l with FExe | FCwd => MayVanish | _ => opt_race l end.
(* ... and the half-removed vanish mode is possible: /proc/<pid> may survive its entries *)
Definition opt_half (l : label) : oclass :=
  match l_file l with FDir => DirSurvives | _ => opt_links l end.
(* exe only: a kernel thread (its cwd link is there) *)
Definition opt_exe (l : label) : oclass :=
  match l_file l with FExe => MayVanish | _ => opt_race l end.
