(* Entry points evaluated by the correspondence harness (props/C03.py): the concrete worlds of the
   fault model (base kind x vanish index x denied indexes), rendering of access logs, outcomes. *)
From PV Require Export Base.Prelude C03.Model C03.Spec C03.Guard C03.Native.
Local Open Scope string_scope.
Local Open Scope list_scope.
Local Notation "a +++ b" := (String.append a b) (at level 60, right associativity).

(* ---- base kinds of the quantifier: 0 live, 1 kernel thread, 2 zombie, 3 live with racing files *)
Record layout := {
  y_self : string; y_parent : string;
  y_fds : list (string * lcls);      (* descriptor table of a live process: entry, class of the link target *)
  y_tasks : list string;             (* /proc/<pid>/task of a live process *)
  y_pids : list string;              (* /proc listing while the process is there (sorted) *)
  y_kids : list (string * list string);  (* pid -> the pids whose stat names it as parent (listing order) *)
  y_zombies : list string;           (* other pids that are zombies *)
  y_race_fd : string; y_race_task : string;   (* kind 3: this descriptor / thread is gone when looked at *)
  y_del_fd : string;                 (* kind 0: this descriptor's target, the exe and the cwd end in " (deleted)" *)
  y_maps_del : list string;          (* kind 0: mapped files of smaps whose path ends in " (deleted)" *)
  y_devs : list string;              (* tty nodes found by get_terminal_map() *)
  y_gone_dev : string }.             (* kind 3: this node is unlinked between the scan's glob and its stat *)

Definition dat (e z : bool) (ns : list string) (c : lcls) : data :=
  {| d_empty := e; d_zombie := z; d_names := ns; d_link := c |}.
Fixpoint link_of (t : list (string * lcls)) (n : string) : lcls :=
  match t with [] => LOtherLink | (m, c) :: r => if String.eqb n m then c else link_of r n end.
Definition mem (n : string) (l : list string) := existsb (String.eqb n) l.

Definition base (y : layout) (kind : nat) (gf : string -> bool) (k : akind) (x : who) (f : fid) (cur : string) : res :=
  let live := match kind with 0%nat | 3%nat => true | _ => false end in
  let zomb := Nat.eqb kind 2 in
  let race := Nat.eqb kind 3 in
  match x with
  | Self =>
      match f, k with
      | FStat, KRead | FStatE, KRead => Ok (dat false zomb [] LOtherLink)
      | FSmaps, KRead => Ok (dat (negb live) false (if Nat.eqb kind 0 then y_maps_del y else []) LOtherLink)
      | FCmdline, KRead | FCmdlineE, KRead | FEnviron, KRead => Ok (dat (negb live) false [] LOtherLink)
      | FExe, KReadlink => if live then Ok (dat false false [] (if Nat.eqb kind 0 then LDel else LAbsOther)) else Err ENOENT
      | FCwd, KReadlink => if zomb then Err ENOENT else Ok (dat false false [] (if Nat.eqb kind 0 then LDel else LAbsOther))
      | FFdDir, KListdir => if zomb then Err EACCES else Ok (dat false false (if live then map fst (y_fds y) else []) LOtherLink)
      | FIo, KOpen => if zomb then Err EACCES else Ok data0
      | FTaskDir, KListdir => Ok (dat false false (if zomb then [y_self y] else y_tasks y) LOtherLink)
      | FFdE, KReadlink => if race && String.eqb cur (y_race_fd y) then Err ENOENT
                           else Ok (dat false false [] (if Nat.eqb kind 0 && String.eqb cur (y_del_fd y) then LRegDel else link_of (y_fds y) cur))
      | FTaskStatE, KOpen => if race && String.eqb cur (y_race_task y) then Err ENOENT else Ok data0
      | FRollup, KOpen => if race then Err ENOENT else Ok data0
      | FRollup, KRead => Ok (dat (negb live) false [] LOtherLink)
      | _, _ => Ok data0
      end
  | Other =>
      match k with
      | KRead => Ok (dat false (mem cur (y_zombies y)) [] LOtherLink)
      | _ => Ok data0
      end
  | Ext =>
      match f with
      | FExeDel | FCwdDel | FTargetDelE | FMapPathE => Err ENOENT      (* nothing at "<path> (deleted)" *)
      | FDevE => if Nat.eqb kind 3 && String.eqb cur (y_gone_dev y) then Err ENOENT else Ok data0   (* pty node freed *)
      | _ => Ok data0
      end
  | _ =>
      match f, k with
      | FDevDir, KListdir => Ok (dat false false (y_devs y) LOtherLink)
      | FRoot, KListdir => Ok (dat false false (filter (fun n => negb (gf n)) (y_pids y)) LOtherLink)
      | _, _ => Ok data0
      end
  end.

Fixpoint assoc {A} (d : A) (t : list (string * A)) (n : string) : A :=
  match t with [] => d | (m, c) :: r => if String.eqb n m then c else assoc d r n end.
(* [ov]: other processes that vanish, with the access index *)
Definition mk_world (y : layout) (kind : nat) (v : option nat) (half : bool) (denied : list nat) (ov : list (string * nat))
                    (longname guess : bool) : world :=
  {| w_base := base y kind; w_self := y_self y; w_vanish := v; w_half := half;
     w_deny := fun i => existsb (Nat.eqb i) denied;
     w_ovanish := fun p => assoc None (map (fun e => (fst e, Some (snd e))) ov) p;
     w_param := fun n => match n with 0%nat => guess | 1%nat => longname | 4%nat => Nat.eqb kind 3 | _ => false end;
     w_pcur := fun n cur => match n with 1%nat => longname && String.eqb cur (y_self y)
                                    | 4%nat => Nat.eqb kind 3 && String.eqb cur (y_self y) | _ => false end;
     w_parent := y_parent y;
     w_kids := assoc [] (y_kids y) |}.

(* ---- rendering *)
Definition kind_name (k : akind) : string :=
  match k with KOpen => "open" | KRead => "read" | KReadlink => "readlink" | KListdir => "listdir"
             | KStat => "stat" | KLstat => "lstat" | KSys => "sys" | KAccess => "access" end.
Definition render (y : layout) (f : fid) (cur : string) : string :=
  let P := y_self y in
  let sub s := P +++ "/" +++ s in
  match f with
  | FStat => sub "stat" | FStatus => sub "status" | FSmaps => sub "smaps" | FRollup => sub "smaps_rollup"
  | FCmdline => sub "cmdline" | FEnviron => sub "environ" | FStatm => sub "statm" | FIo => sub "io"
  | FExe => sub "exe" | FCwd => sub "cwd" | FDir => P
  | FTaskDir => sub "task" | FTaskStatE => sub ("task/" +++ cur +++ "/stat")
  | FFdDir => sub "fd" | FFdE => sub ("fd/" +++ cur) | FFdinfoE => sub ("fdinfo/" +++ cur)
  | FSysPrio => sub "@getpriority" | FSysIoprio => sub "@proc_ioprio_get"
  | FSysAffinity => sub "@proc_cpu_affinity_get" | FSysRlimit => sub "@prlimit"
  | FStatE => cur +++ "/stat" | FCmdlineE => cur +++ "/cmdline" | FSysKill => sub "@kill"
  | FRoot => "" | FNetTcp => "net/tcp" | FNetTcp6 => "net/tcp6" | FNetUdp => "net/udp"
  | FNetUdp6 => "net/udp6" | FNetUnix => "net/unix"
  (* outside procfs: "^" = the directory of the fake world's ordinary files *)
  | FExeDel => "^exe-target (deleted)" | FCwdDel => "^cwd-dir (deleted)"
  | FTargetDelE => "^t" +++ cur +++ " (deleted)" | FTargetE => "^t" +++ cur
  | FMapPathE => "^" +++ cur | FGuessExe => "^exe-target"
  | FDevDir => "^dev" | FDevE => "^dev/" +++ cur
  end.
Definition jv_access (y : layout) (e : akind * fid * string) : jv :=
  let '(k, f, cur) := e in JC (kind_name k +++ "|" +++ render y f cur) [].
Definition who_name (x : who) : string :=
  match x with Self => "self" | Other => "other" | Global => "global" | Any => "any" | Ext => "ext" end.
Definition jv_result (r : result) : jv :=
  match r with
  | RVal => JC "Val" []
  | RExc x =>
      match x with
      | XFnf => JC "Exc" [JC "FileNotFoundError" []; jnone]
      | XEsrch => JC "Exc" [JC "ProcessLookupError" []; jnone]
      | XPerm => JC "Exc" [JC "PermissionError" []; jnone]
      | XOsOther => JC "Exc" [JC "OSError" []; jnone]
      | XNSP x => JC "Exc" [JC "NoSuchProcess" []; JC (who_name x) []]
      | XZombie x => JC "Exc" [JC "ZombieProcess" []; JC (who_name x) []]
      | XAD x => JC "Exc" [JC "AccessDenied" []; JC (who_name x) []]
      | XTimeout => JC "Exc" [JC "TimeoutExpired" []; JC "self" []]
      | XPy => JC "Exc" [JC "PythonError" []; jnone]
      end
  end.

(* [low]: the object's pid equals the cached lowest pid (psutil._LOWEST_PID); [reu]: the pid now belongs to another process *)
Definition with_params (w : world) (low reu : bool) : world :=
  {| w_base := w_base w; w_self := w_self w; w_vanish := w_vanish w; w_half := w_half w; w_deny := w_deny w;
     w_ovanish := w_ovanish w;
     w_param := fun n => match n with 2%nat => low | 3%nat => reu | _ => w_param w n end;   (* 4 (W_TTYHIT): see mk_world *)
     w_pcur := w_pcur w; w_parent := w_parent w; w_kids := w_kids w |}.

(* a history of calls on ONE fresh Process object: [outcomes; whole access log; gone at the end?] *)
Definition run_hist_case (y : layout) (ps : list prog) (kind : nat) (v : option nat) (half : bool) (denied : list nat)
                         (ov : list (string * nat)) (longname guess low reu : bool) : jv :=
  let w := with_params (mk_world y kind v half denied ov longname guess) low reu in
  let rs := run_hist w ps st0 in
  let s := last (map snd rs) st0 in
  JL [ JL (map (fun x => jv_result (fst x)) rs); JL (map (jv_access y) (rev (s_log s))); jbool (gone w s) ].

(* one call of script [p] on a fresh Process object in the given world:
   [outcome; access log; gone at the end?; outcome allowed by the property?] *)
Definition run_case (y : layout) (p : prog) (kind : nat) (v : option nat) (half : bool) (denied : list nat)
                    (ov : list (string * nat)) (longname guess low : bool) : jv :=
  let w := with_params (mk_world y kind v half denied ov longname guess) low false in
  let '(r, s) := run w p st0 in
  JL [ jv_result r; JL (map (jv_access y) (rev (s_log s))); jbool (gone w s); jbool (allowedb r (gone w s)) ].
