(* C03 -- the script table of the Linux Process queries and the closed (vm_compute) guard results,
   lifted through the soundness theorems of Proofs.v; refutations with concrete fault schedules. *)
From PV Require Import Base.Prelude C03.Model C03.Spec C03.Guard C03.Proofs C03.Run.
Local Open Scope string_scope.
Local Open Scope list_scope.

(* every query of one process (psutil._pslinux.Process methods and the psutil.Process front ends over them) *)
Definition backend_scripts : list prog :=
  [ i_stat_based; i_status_based; i_cmdline; i_file FEnviron; i_file FIo; i_memory_info; i_parse_smaps;
    i_memory_full_info; i_memory_maps; i_threads; i_open_files; i_num_fds;
    i_net_connections 0; i_net_connections 1; i_net_connections 2;
    i_sys FSysPrio; i_sys FSysIoprio; i_sys FSysAffinity; i_rlimit;
    f_name; f_status; f_uids; f_cpu_times; f_memory_info ].
Definition link_scripts : list prog := [ i_cwd ].
Definition exe_scripts : list prog := [ i_exe; f_exe ].
Definition linux_scripts : list prog := backend_scripts ++ link_scripts ++ exe_scripts ++ [ f_create_time; f_is_running ].
(* queries that consult the OS on every call (f_create_time memoises, f_is_running answers False) *)
Definition consulting_scripts : list prog := backend_scripts ++ link_scripts ++ exe_scripts ++ [ f_ppid ].
(* as_dict() over every attribute that does not go through ppid() *)
Definition as_dict_all : prog := as_dict (backend_scripts ++ link_scripts ++ exe_scripts ++ [ f_create_time; Skip ]).
Definition as_dict_all_ppid : prog := as_dict (f_ppid :: backend_scripts ++ link_scripts ++ exe_scripts ++ [ f_create_time; Skip ]).

Lemma live_table : forallb (well_guarded opt_race) (as_dict_all :: linux_scripts) = true.
Proof. vm_compute. reflexivity. Qed.
Lemma kthread_table : forallb (well_guarded opt_exe) (backend_scripts ++ link_scripts ++ [ f_create_time; f_is_running ]) = true.
Proof. vm_compute. reflexivity. Qed.
Lemma zombie_table : forallb (well_guarded opt_links) (backend_scripts ++ [ f_create_time; f_is_running ]) = true.
Proof. vm_compute. reflexivity. Qed.
Lemma sticky_table : forallb (gone_guarded opt_links) consulting_scripts = true.
Proof. vm_compute. reflexivity. Qed.
Lemma ppid_table : forallb (weakly_guarded opt_links) [ f_ppid ] = true /\ forallb (weakly_guarded opt_race) [ as_dict_all_ppid ] = true.
Proof. split; vm_compute; reflexivity. Qed.
Lemma tree_table : forallb (tree_guarded opt_race) [ f_parent; f_parents ] = true.
Proof. vm_compute. reflexivity. Qed.

Theorem live_methods_sound : forall w, base_ok opt_race w -> forall p, In p (as_dict_all :: linux_scripts) ->
  forall s, s_cache s = false -> allowed (fst (run w p s)) (gone w (snd (run w p s))).
Proof.
  intros w Hb p Hp s Hc.
  exact (well_guarded_sound_w w opt_race Hb p (proj1 (forallb_forall _ _) live_table p Hp) s Hc).
Qed.
Theorem kthread_methods_sound : forall w, base_ok opt_exe w ->
  forall p, In p (backend_scripts ++ link_scripts ++ [ f_create_time; f_is_running ]) ->
  forall s, s_cache s = false -> allowed (fst (run w p s)) (gone w (snd (run w p s))).
Proof.
  intros w Hb p Hp s Hc.
  exact (well_guarded_sound_w w opt_exe Hb p (proj1 (forallb_forall _ _) kthread_table p Hp) s Hc).
Qed.
Theorem zombie_methods_sound : forall w, base_ok opt_links w ->
  forall p, In p (backend_scripts ++ [ f_create_time; f_is_running ]) ->
  forall s, s_cache s = false -> allowed (fst (run w p s)) (gone w (snd (run w p s))).
Proof.
  intros w Hb p Hp s Hc.
  exact (well_guarded_sound_w w opt_links Hb p (proj1 (forallb_forall _ _) zombie_table p Hp) s Hc).
Qed.
Theorem gone_sticky : forall w, base_ok opt_links w -> forall p, In p consulting_scripts ->
  forall s, s_cache s = false -> gone w s = true -> fst (run w p s) = RExc (XNSP Self).
Proof.
  intros w Hb p Hp s Hc Hg.
  exact (gone_guarded_sound_w w opt_links Hb p (proj1 (forallb_forall _ _) sticky_table p Hp) s Hc Hg).
Qed.
Theorem ppid_partial : forall w, base_ok opt_links w ->
  forall s, s_cache s = false -> allowed_weak (fst (run w f_ppid s)).
Proof.
  intros w Hb s Hc.
  exact (weakly_guarded_sound_w w opt_links Hb f_ppid
           (proj1 (forallb_forall _ _) (proj1 ppid_table) f_ppid (or_introl eq_refl)) s Hc).
Qed.
Theorem as_dict_ppid_partial : forall w, base_ok opt_race w ->
  forall s, s_cache s = false -> allowed_weak (fst (run w as_dict_all_ppid s)).
Proof.
  intros w Hb s Hc.
  exact (weakly_guarded_sound_w w opt_race Hb as_dict_all_ppid
           (proj1 (forallb_forall _ _) (proj2 ppid_table) as_dict_all_ppid (or_introl eq_refl)) s Hc).
Qed.

(* ---- the harness's concrete worlds satisfy the hypotheses (so the theorems are not vacuous) *)
Definition y0 : layout :=
  {| y_self := "4242"; y_parent := "1";
     y_fds := [("0", LOtherLink); ("3", LReg); ("4", LSock); ("5", LReg); ("6", LOtherLink)];
     y_tasks := ["4242"; "4243"]; y_pids := ["1"; "77"; "4242"; "5001"; "5002"];
     y_children := ["5001"; "5002"]; y_zombies := ["5002"]; y_race_fd := "5"; y_race_task := "4243" |}.

Ltac ifs := repeat match goal with |- context [if ?c then _ else _] => destruct c end.
Lemma base_ok_worlds : forall y v d ln gu,
  base_ok opt_none (mk_world y 0 v d ln gu) /\ base_ok opt_exe (mk_world y 1 v d ln gu) /\
  base_ok opt_links (mk_world y 2 v d ln gu) /\ base_ok opt_race (mk_world y 3 v d ln gu).
Proof.
  intros. repeat split; intros g [k x f] cur; unfold rwho; simpl;
    destruct x; simpl; try exact I; ifs; destruct f, k; simpl; ifs; reflexivity.
Qed.
Lemma base_ok_none_race : forall w, base_ok opt_none w -> base_ok opt_race w.
Proof.
  intros w H g l cur. specialize (H g l cur). destruct (rwho w l cur); auto;
    unfold opt_none in H; simpl in H; unfold ok_class, ok_self, ok_other in *;
    destruct (opt_race l); auto;
    match goal with |- context [match ?r with _ => _ end] => destruct r as [?|[]]; auto; discriminate end.
Qed.

(* ---- refutations: the faithful scripts on concrete single-fault schedules *)
(* kernel thread, the lexists probe of _readlink refused: exe() lets a bare FileNotFoundError out *)
Theorem exe_kthread_refuted :
  fst (run (mk_world y0 1 None [1%nat] true false) f_exe st0) = RExc XFnf.
Proof. vm_compute. reflexivity. Qed.
(* another pid's stat refused while ppid_map() walks the process list: bare PermissionError *)
Theorem children_refuted :
  fst (run (mk_world y0 0 None [5%nat] true false) f_children st0) = RExc XPerm.
Proof. vm_compute. reflexivity. Qed.
(* the identity re-check of is_running() refused: NoSuchProcess for a process that is there *)
Theorem ppid_refuted :
  let w := mk_world y0 0 None [0%nat] true false in
  fst (run w f_ppid st0) = RExc (XNSP Self) /\ gone w (snd (run w f_ppid st0)) = false.
Proof. vm_compute. split; reflexivity. Qed.
(* outside the quantifier (two refusals): a zombie's cwd() then also lets FileNotFoundError out *)
Theorem cwd_zombie_two_refusals_refuted :
  fst (run (mk_world y0 2 None [1%nat; 2%nat] true false) i_cwd st0) = RExc XFnf.
Proof. vm_compute. reflexivity. Qed.
(* ... while a guarded method under the same kind of schedule is an instance of the theorem *)
Example cmdline_example :
  let w := mk_world y0 2 (Some 1%nat) [0%nat] true false in
  allowed (fst (run w i_cmdline st0)) (gone w (snd (run w i_cmdline st0))).
Proof.
  intro w. apply zombie_methods_sound; auto.
  - apply base_ok_worlds.
  - unfold backend_scripts. simpl. auto.
Qed.
