(* C03 -- the script table of the Linux Process queries and the closed (vm_compute) guard results,
   lifted through the soundness theorems of Proofs.v; refutations about the code before the repairs. *)
From PV Require Import Base.Prelude C03.Model C03.Spec C03.Guard C03.Proofs C03.Run.
Local Open Scope string_scope.
Local Open Scope list_scope.

(* every query of one process (psutil._pslinux.Process methods and the psutil.Process front ends over them) *)
Definition backend_scripts : list prog :=
  [ i_stat_based; i_terminal; i_status_based; i_cmdline; i_file FEnviron; i_file FIo; i_memory_info; i_parse_smaps;
    i_memory_full_info; i_memory_maps; i_threads; i_open_files; i_num_fds;
    i_net_connections 0; i_net_connections 1; i_net_connections 2;
    i_sys FSysPrio; i_sys FSysIoprio; i_sys FSysAffinity; i_rlimit;
    f_name; f_status; f_uids; f_cpu_times; f_memory_info ].
(* queries that consult the OS on every call *)
Definition consulting_scripts : list prog := backend_scripts ++ [ i_cwd; i_exe; f_exe; f_ppid ].
(* ... plus create_time() (memoised after its first success) and is_running() (answers False once gone) *)
Definition linux_scripts : list prog := consulting_scripts ++ [ f_create_time; f_is_running ].
(* as_dict() over every attribute ([Skip] = pid) *)
Definition as_dict_all : prog := as_dict (consulting_scripts ++ [ f_create_time; Skip ]).
(* calls that also query other Process objects *)
Definition tree_scripts : list prog := [ f_parent; f_parents; f_children ].

Lemma methods_table : forallb (well_guarded opt_links) (as_dict_all :: linux_scripts) = true.
Proof. vm_compute. reflexivity. Qed.
Lemma sticky_table : forallb (gone_guarded opt_links) consulting_scripts = true.
Proof. vm_compute. reflexivity. Qed.
Lemma tree_table : forallb (tree_guarded opt_links) tree_scripts = true.
Proof. vm_compute. reflexivity. Qed.

Theorem linux_methods_sound : forall w, base_ok opt_links w -> forall p, In p (as_dict_all :: linux_scripts) ->
  forall s, s_cache s = false -> allowed (fst (run w p s)) (gone w (snd (run w p s))).
Proof.
  intros w Hb p Hp s Hc.
  exact (well_guarded_sound_w w opt_links Hb p (proj1 (forallb_forall _ _) methods_table p Hp) s Hc).
Qed.
Theorem gone_sticky : forall w, base_ok opt_links w -> forall p, In p consulting_scripts ->
  forall s, s_cache s = false -> gone w s = true -> fst (run w p s) = RExc (XNSP Self).
Proof.
  intros w Hb p Hp s Hc Hg.
  exact (gone_guarded_sound_w w opt_links Hb p (proj1 (forallb_forall _ _) sticky_table p Hp) s Hc Hg).
Qed.
Theorem tree_methods_sound : forall w, base_ok opt_links w -> forall p, In p tree_scripts ->
  forall s, s_cache s = false -> allowed_tree (fst (run w p s)) (gone w (snd (run w p s))).
Proof.
  intros w Hb p Hp s Hc.
  exact (tree_guarded_sound_w w opt_links Hb p (proj1 (forallb_forall _ _) tree_table p Hp) s Hc).
Qed.

(* ---- the harness's concrete worlds satisfy the hypothesis (so the theorems are not vacuous) *)
Definition y0 : layout :=
  {| y_self := "4242"; y_parent := "1";
     y_fds := [("0", LAbsOther); ("3", LReg); ("4", LSock); ("5", LReg); ("6", LOtherLink)];
     y_tasks := ["4242"; "4243"]; y_pids := ["1"; "77"; "4242"; "5001"; "5002"];
     y_children := ["5001"; "5002"]; y_zombies := ["5002"]; y_race_fd := "5"; y_race_task := "4243";
     y_del_fd := "3"; y_maps_del := ["lib.so (deleted)"]; y_devs := ["pts0"; "tty1"] |}.

Ltac ifs := repeat match goal with |- context [if ?c then _ else _] => destruct c end.
(* all four base kinds are within opt_links, the class of the theorems *)
Lemma base_ok_worlds_links : forall y kind v d ln gu, (kind <= 3)%nat -> base_ok opt_links (mk_world y kind v d ln gu).
Proof.
  intros y kind v d ln gu Hk.
  assert (kind = 0 \/ kind = 1 \/ kind = 2 \/ kind = 3)%nat as [-> | [-> | [-> | ->]]] by lia;
    intros g [k x f] cur; unfold rwho; simpl;
    destruct x; simpl; try exact I; ifs; destruct f, k; simpl; ifs; reflexivity.
Qed.

Example cmdline_example :
  let w := mk_world y0 2 (Some 1%nat) [0%nat] true false in
  allowed (fst (run w i_cmdline st0)) (gone w (snd (run w i_cmdline st0))).
Proof.
  intro w. apply linux_methods_sound; auto.
  - apply base_ok_worlds_links. lia.
  - unfold linux_scripts, consulting_scripts, backend_scripts. simpl. auto 10.
Qed.

(* ---- the defects that were repaired (commits 1c63e73, 4ee76b0, a4fac6f): the scripts of the code BEFORE
        the repairs ([legacy_*] in Model.v) break the property on single-refusal schedules *)
(* kernel thread, the lexists probe of _readlink refused: exe() let a bare FileNotFoundError out *)
Theorem legacy_exe_kthread_refuted :
  fst (run (mk_world y0 1 None [1%nat] true false) legacy_f_exe st0) = RExc XFnf.
Proof. vm_compute. reflexivity. Qed.
(* another pid's stat refused while ppid_map() walks the process list: bare PermissionError *)
Theorem legacy_children_refuted :
  fst (run (mk_world y0 0 None [5%nat] true false) legacy_f_children st0) = RExc XPerm.
Proof. vm_compute. reflexivity. Qed.
(* the identity re-check of is_running() refused: NoSuchProcess for a process that is there *)
Theorem legacy_ppid_refuted :
  let w := mk_world y0 0 None [0%nat] true false in
  fst (run w legacy_f_ppid st0) = RExc (XNSP Self) /\ gone w (snd (run w legacy_f_ppid st0)) = false.
Proof. vm_compute. split; reflexivity. Qed.
(* ... and the same schedules on the current scripts are instances of the theorems *)
Example repaired_schedules :
  fst (run (mk_world y0 1 None [1%nat] true false) f_exe st0) = RExc (XAD Self) /\
  fst (run (mk_world y0 0 None [5%nat] true false) f_children st0) = RVal /\
  fst (run (mk_world y0 0 None [0%nat] true false) f_ppid st0) = RVal.
Proof. vm_compute. repeat split; reflexivity. Qed.
