(* C03 -- the script table of the Linux Process queries and the closed (vm_compute) guard results,
   lifted through the soundness theorems of Proofs.v; refutations about the code before the repairs. *)
From PV Require Import Base.Prelude C03.Model C03.Spec C03.Guard C03.Proofs C03.Run C03.History.
Local Open Scope string_scope.
Local Open Scope list_scope.

(* every query of one process (psutil._pslinux.Process methods and the psutil.Process front ends over them) *)
Definition backend_scripts : list prog :=
  [ i_stat_based; i_terminal; i_terminal_warm; i_status_based; i_cmdline; i_file FEnviron; i_file FIo; i_memory_info; i_parse_smaps;
    i_memory_full_info; i_memory_maps; i_threads; i_open_files; i_num_fds;
    i_net_connections 0; i_net_connections 1; i_net_connections 2;
    i_sys FSysPrio; i_sys FSysIoprio; i_sys FSysAffinity; i_rlimit;
    f_name; f_status; f_uids; f_cpu_times; f_memory_info ].
(* queries that consult the OS on EVERY call: the above, cwd(), ppid(), and what exe() / create_time() do when their
   memo is empty *)
Definition link_scripts : list prog := [ i_cwd; i_exe; exe_body ].        (* those that go through _readlink() *)
Definition core_scripts : list prog := backend_scripts ++ [ create_time_body; f_ppid ].
Definition consulting_scripts : list prog := core_scripts ++ link_scripts.
(* front-end accessors that memoise their first answer: (flag of the memo, what they do when it is empty) *)
Definition cached_table : list (nat * prog) :=
  [ (F_EXE, exe_body); (F_CTIME, create_time_body); (F_EXITCODE, wait_body) ].
(* every single-process query as the caller sees it *)
Definition linux_scripts : list prog := consulting_scripts ++ [ f_exe; f_create_time; f_is_running ].
(* as_dict() over every attribute ([Skip] = pid), and oneshot() blocks around all of them *)
Definition attr_scripts : list prog := backend_scripts ++ [ i_cwd; f_exe; f_create_time; f_ppid; Skip ].
Definition as_dict_all : prog := as_dict attr_scripts.
Definition oneshot_all : prog := oneshot_block attr_scripts.
Definition oneshot_all_c : prog := oneshot_block_c attr_scripts.
Definition block_scripts : list prog :=
  [ as_dict_all; oneshot_all; oneshot_all_c;
    oneshot_block [f_cpu_times; f_name; f_ppid; f_status]; oneshot_block_c [f_cpu_times; f_name; f_ppid; f_status];
    oneshot_block [f_uids; i_status_based; f_uids]; oneshot_block_c [i_memory_full_info; i_memory_maps; f_memory_info] ].
(* calls that also query other Process objects *)
Definition iter_attrs : list prog := [ ppid_of Any FStatE; name_of Any FStatE FCmdlineE; status_of Any FStatE; terminal_of Any FStatE ].
Definition tree_scripts : list prog :=
  [ f_parent; f_parents; f_children; f_children_rec; f_iter iter_attrs;
    f_iter [ppid_of Any FStatE; name_of Any FStatE FCmdlineE] ].

(* [opt_half]: the widest class -- optional links and racing files, and /proc/<pid> may survive its entries *)
Lemma methods_table : forallb (well_guarded opt_half) (block_scripts ++ linux_scripts) = true.
Proof. vm_compute. reflexivity. Qed.
Lemma sticky_table : forallb (gone_guarded opt_half) consulting_scripts = true.
Proof. vm_compute. reflexivity. Qed.
Lemma tree_table : forallb (tree_guarded opt_half) tree_scripts = true.
Proof. vm_compute. reflexivity. Qed.
Lemma wait_table : wait_guarded opt_half f_wait = true /\ wait_guarded opt_half wait_body = true.
Proof. split; vm_compute; reflexivity. Qed.
Lemma exempt_table : forallb (gone_value opt_half) [ f_is_running; wait_body ] = true.
Proof. vm_compute. reflexivity. Qed.

Theorem linux_methods_sound : forall w, base_ok opt_half w -> forall p, In p (block_scripts ++ linux_scripts) ->
  forall s, s_cache s = false -> allowed (fst (run w p s)) (gone w (snd (run w p s))).
Proof.
  intros w Hb p Hp s Hc.
  exact (well_guarded_sound_w w opt_half Hb p (proj1 (forallb_forall _ _) methods_table p Hp) s Hc).
Qed.
Theorem gone_sticky : forall w, base_ok opt_half w -> forall p, In p consulting_scripts ->
  forall s, s_cache s = false -> gone w s = true -> fst (run w p s) = RExc (XNSP Self).
Proof.
  intros w Hb p Hp s Hc Hg.
  exact (gone_guarded_sound_w w opt_half Hb p (proj1 (forallb_forall _ _) sticky_table p Hp) s Hc Hg).
Qed.
Theorem tree_methods_sound : forall w, base_ok opt_half w -> forall p, In p tree_scripts ->
  forall s, s_cache s = false -> allowed_tree (fst (run w p s)) (gone w (snd (run w p s))).
Proof.
  intros w Hb p Hp s Hc.
  exact (tree_guarded_sound_w w opt_half Hb p (proj1 (forallb_forall _ _) tree_table p Hp) s Hc).
Qed.
Theorem wait_sound : forall w, base_ok opt_half w ->
  forall s, s_cache s = false -> allowed_wait (fst (run w f_wait s)) (gone w (snd (run w f_wait s))).
Proof. intros w Hb s Hc. exact (wait_guarded_sound_w w opt_half Hb f_wait (proj1 wait_table) s Hc). Qed.

Theorem terminal_sound : forall w, base_ok opt_half w -> forall p, In p [ i_terminal; i_terminal_warm ] ->
  forall s, s_cache s = false -> allowed (fst (run w p s)) (gone w (snd (run w p s))).
Proof.
  intros w Hb p Hp s Hc. apply linux_methods_sound; auto.
  apply in_or_app. right. unfold linux_scripts, consulting_scripts, core_scripts, backend_scripts.
  simpl in Hp. destruct Hp as [<- | [<- | []]]; simpl; auto 10.
Qed.

(* any HISTORY of calls on one object (each call started from whatever the earlier ones left in the object's fields;
   faults anywhere in the history): every call of it ends as the property allows *)
Theorem history_sound : forall w, base_ok opt_half w -> forall ps, (forall p, In p ps -> In p (block_scripts ++ linux_scripts)) ->
  forall s, s_cache s = false ->
  Forall (fun rs => allowed (fst rs) (gone w (snd rs))) (run_hist w ps s).
Proof.
  intros w Hb. induction ps as [|p r IH]; intros Hin s Hc; simpl.
  - constructor.
  - constructor.
    + apply linux_methods_sound; auto. apply Hin. left. reflexivity.
    + apply IH; [intros q Hq; apply Hin; right; exact Hq | reflexivity].
Qed.

(* the memoising accessors: with the memo set they answer without touching the OS (that is why a later call on a
   vanished process may still answer); with the memo empty they are ordinary OS-consulting queries *)
Theorem cached_accessors : forall f body, In (f, body) cached_table ->
  (forall w s, flag_on s f = true -> run w (cached f body) s = (RVal, s)) /\
  (forall w s, flag_on s f = false -> run w (cached f body) s = run w body s) /\
  (f <> F_EXITCODE -> In body consulting_scripts).
Proof.
  intros f body Hin. repeat split.
  - intros w s Hf. unfold run, cached. simpl. rewrite Hf. reflexivity.
  - intros w s Hf. unfold run, cached. simpl. rewrite Hf. reflexivity.
  - intros Hne. unfold cached_table in Hin. simpl in Hin.
    destruct Hin as [E | [E | [E | []]]]; inversion E; subst;
      try (exfalso; apply Hne; reflexivity);
      unfold consulting_scripts, core_scripts, link_scripts, backend_scripts; simpl;
      repeat (first [ left; reflexivity | right ]).
Qed.
(* is_running() and wait() are the two queries that answer (False / None) instead of raising once the process is gone *)
Theorem gone_exempt : forall w, base_ok opt_half w -> forall p, In p [ f_is_running; wait_body ] ->
  forall s, s_cache s = false -> gone w s = true -> fst (run w p s) = RVal.
Proof.
  intros w Hb p Hp s Hc Hg.
  exact (gone_value_sound_w w opt_half Hb p (proj1 (forallb_forall _ _) exempt_table p Hp) s Hc Hg).
Qed.

(* ---- the harness's concrete worlds satisfy the hypothesis (so the theorems are not vacuous) *)
Definition y0 : layout :=
  {| y_self := "4242"; y_parent := "1";
     y_fds := [("0", LAbsOther); ("3", LReg); ("4", LSock); ("5", LReg); ("6", LOtherLink)];
     y_tasks := ["4242"; "4243"]; y_pids := ["1"; "77"; "4242"; "5001"; "5002"; "5003"];
     y_kids := [("4242", ["5001"; "5002"]); ("5001", ["5003"]); ("1", ["77"; "4242"])]; y_zombies := ["5002"];
     y_race_fd := "5"; y_race_task := "4243";
     y_del_fd := "3"; y_maps_del := ["lib.so (deleted)"]; y_devs := ["tty1"; "pts/0"]; y_gone_dev := "pts/0" |}.

Ltac ifs := repeat match goal with |- context [if ?c then _ else _] => destruct c end.
(* all four base kinds, every schedule of vanishing (whole directory or half-removed; other processes) and refusals *)
Lemma base_ok_worlds_half : forall y kind v h d ov ln gu, (kind <= 3)%nat -> base_ok opt_half (mk_world y kind v h d ov ln gu).
Proof.
  intros y kind v h d ov ln gu Hk.
  assert (kind = 0 \/ kind = 1 \/ kind = 2 \/ kind = 3)%nat as [-> | [-> | [-> | ->]]] by lia;
    intros g [k x f] cur; unfold rwho; simpl;
    destruct x; simpl; try exact I; ifs;
    try (split; [| intros _ Hp; destruct f; try discriminate Hp; reflexivity]);
    destruct f, k; simpl; ifs; reflexivity.
Qed.

Example cmdline_example :
  let w := mk_world y0 2 (Some 1%nat) false [0%nat] [] true true in
  allowed (fst (run w i_cmdline st0)) (gone w (snd (run w i_cmdline st0))).
Proof.
  intro w. apply linux_methods_sound; auto.
  - apply base_ok_worlds_half. lia.
  - unfold linux_scripts, consulting_scripts, core_scripts, backend_scripts. apply in_or_app. right. simpl. auto 10.
Qed.
(* a child vanishing between the ppid_map snapshot and its Process() construction is simply left out *)
Example child_vanishes_example :
  fst (run (mk_world y0 0 None false [] [("5001", 12%nat)] true true) f_children_rec st0) = RVal.
Proof. vm_compute. reflexivity. Qed.

(* ---- the defects that were repaired (commits 1c63e73, 4ee76b0, a4fac6f): the scripts of the code BEFORE
        the repairs ([legacy_*] in Model.v) break the property on single-refusal schedules *)
(* kernel thread, the lexists probe of _readlink refused: exe() let a bare FileNotFoundError out *)
Theorem legacy_exe_kthread_refuted :
  fst (run (mk_world y0 1 None false [1%nat] [] true true) legacy_f_exe st0) = RExc XFnf.
Proof. vm_compute. reflexivity. Qed.
(* another pid's stat refused while ppid_map() walks the process list: bare PermissionError *)
Theorem legacy_children_refuted :
  fst (run (mk_world y0 0 None false [5%nat] [] true true) legacy_f_children st0) = RExc XPerm.
Proof. vm_compute. reflexivity. Qed.
(* the identity re-check of is_running() refused: NoSuchProcess for a process that is there *)
Theorem legacy_ppid_refuted :
  let w := mk_world y0 0 None false [0%nat] [] true true in
  fst (run w legacy_f_ppid st0) = RExc (XNSP Self) /\ gone w (snd (run w legacy_f_ppid st0)) = false.
Proof. vm_compute. split; reflexivity. Qed.
(* ... and the same schedules on the current scripts are instances of the theorems *)
Example repaired_schedules :
  fst (run (mk_world y0 1 None false [1%nat] [] true true) f_exe st0) = RExc (XAD Self) /\
  fst (run (mk_world y0 0 None false [5%nat] [] true true) f_children st0) = RVal /\
  fst (run (mk_world y0 0 None false [0%nat] [] true true) f_ppid st0) = RVal.
Proof. vm_compute. repeat split; reflexivity. Qed.

(* ---- repaired by commit 1195393: in the half-removed state (upstream issue 2418: the entries below /proc/<pid> are
        gone, the directory still answers) the os.lstat('/proc/<pid>') probe of _readlink() succeeded, so cwd()
        returned its fallback '' for a process that is gone instead of raising NoSuchProcess *)
Theorem legacy_cwd_half_removed_refuted :
  let w := mk_world y0 0 (Some 0%nat) true [] [] true true in
  fst (run w legacy_dir_i_cwd st0) = RVal /\ gone w (snd (run w legacy_dir_i_cwd st0)) = true.
Proof. vm_compute. split; reflexivity. Qed.
(* ... the current script in the same state, and any other query in the half-removed state *)
Example half_removed_examples :
  fst (run (mk_world y0 0 (Some 0%nat) true [] [] true true) i_cwd st0) = RExc (XNSP Self) /\
  fst (run (mk_world y0 0 (Some 0%nat) false [] [] true true) i_cwd st0) = RExc (XNSP Self) /\
  fst (run (mk_world y0 0 (Some 0%nat) true [] [] true true) f_name st0) = RExc (XNSP Self) /\
  fst (run (mk_world y0 0 (Some 0%nat) true [] [] true true) f_exe st0) = RExc (XNSP Self).
Proof. vm_compute. repeat split; reflexivity. Qed.

(* ---- histories on the object whose pid is the CACHED LOWEST pid (psutil._LOWEST_PID), concrete worlds of the harness:
        the early `return None` of parent() never bypasses the gone / reused guard *)
Definition wlow (kind : nat) (v : option nat) (half reu : bool) : world :=
  with_params (mk_world y0 kind v half [] [] true true) true reu.
Example lowest_pid_histories :
  (* vanish (whole directory / half-removed) ; is_running() ; parent() / parents() / children() *)
  map fst (run_hist (wlow 0 (Some 0%nat) false false) [h_is_running; h_parent] st0) = [RVal; RExc (XNSP Self)] /\
  map fst (run_hist (wlow 0 (Some 0%nat) true false) [h_is_running; h_parents] st0) = [RVal; RExc (XNSP Self)] /\
  map fst (run_hist (wlow 0 (Some 0%nat) false false) [h_is_running; h_children] st0) = [RVal; RExc (XNSP Self)] /\
  (* the pid was recycled (another start time): the very first guarded call already raises *)
  map fst (run_hist (wlow 0 None false true) [h_parent] st0) = [RExc (XNSP Self)] /\
  map fst (run_hist (wlow 0 None false true) [h_parents] st0) = [RExc (XNSP Self)] /\
  map fst (run_hist (wlow 0 None false true) [h_children] st0) = [RExc (XNSP Self)] /\
  map fst (run_hist (wlow 0 None false true) [h_is_running; h_parent] st0) = [RVal; RExc (XNSP Self)] /\
  (* while alive and unrecycled the lowest pid has no parent *)
  map fst (run_hist (wlow 0 None false false) [h_parent; h_parents] st0) = [RVal; RVal].
Proof. vm_compute. repeat split; reflexivity. Qed.
Lemma base_ok_with_params : forall opt w low reu, base_ok opt w -> base_ok opt (with_params w low reu).
Proof. intros opt w low reu H gf l cur. exact (H gf l cur). Qed.
