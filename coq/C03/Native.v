(* C03 -- the native (C extension) part behind Process.nice(): psutil/_psutil_posix.c psutil_posix_getpriority,
   transcribed line by line, with the C library's errno made explicit.  getpriority(2) legitimately returns -1 for a
   process whose nice value is -1, so failure can only be told from errno -- which is per thread and keeps whatever an
   EARLIER, unrelated failed call left in it unless the function clears it first.
   Model and specification only (Run.v depends on this file); proofs are in NativeProofs.v. *)
From PV Require Import Base.Prelude.

(* what the kernel does for the target: answer its nice value, or fail with an errno (<> 0) *)
Inductive kans := KNice (n : Z) | KFail (e : Z).
(* the libc call: return value and errno afterwards, given errno before (success leaves errno alone) *)
Definition sys_getpriority (k : kans) (errno : Z) : Z * Z :=
  match k with KNice n => (n, errno) | KFail e => (-1, e) end.

(* variants of the C function: does it clear errno first / how does it detect failure *)
Inductive ctest := TestErrno | TestRetMinus1 | TestBoth.
Definition c_getpriority (reset : bool) (t : ctest) (errno0 : Z) (k : kans) : Z * option Z :=   (* value | errno raised *)
  let errno1 := if reset then 0 else errno0 in                       (* errno = 0; *)
  let (ret, errno2) := sys_getpriority k errno1 in                   (* priority = getpriority(PRIO_PROCESS, pid); *)
  let failed := match t with
                | TestErrno => negb (errno2 =? 0)                     (* if (errno != 0) *)
                | TestRetMinus1 => ret =? -1
                | TestBoth => (ret =? -1) && negb (errno2 =? 0)
                end in
  if failed then (ret, Some errno2)                                   (* return PyErr_SetFromErrno(PyExc_OSError); *)
  else (ret, None).                                                   (* return Py_BuildValue("i", priority); *)
(* the code as it is *)
Definition posix_getpriority := c_getpriority true TestErrno.

(* _pslinux.Process.nice_get under wrap_exceptions, psutil.Process.nice() on top: OSError classes by errno *)
Definition ESRCH_ := 3. Definition EPERM_ := 1. Definition EACCES_ := 13.
Definition raise_of (e : Z) : exn :=
  if e =? ESRCH_ then NoSuchProcess else if (e =? EPERM_) || (e =? EACCES_) then AccessDenied else OSError.
Definition nice_with (cget : Z -> kans -> Z * option Z) (errno0 : Z) (k : kans) : outcome Z :=
  match cget errno0 k with (v, None) => Val v | (_, Some e) => Exc (raise_of e) end.
Definition nice_query := nice_with posix_getpriority.

(* SPECIFICATION (from the property: the answer is a fact of the target alone): the nice value the kernel holds, or the
   psutil error of the kernel's refusal -- whatever the calling thread did before *)
Definition spec_nice (k : kans) : outcome Z :=
  match k with KNice n => Val n | KFail e => Exc (raise_of e) end.
Definition wf_kans (k : kans) : Prop := match k with KNice _ => True | KFail e => e <> 0 end.

Definition jv_nice (o : outcome Z) : jv := jv_outcome JZ o.
(* [model; spec] for a live target at nice value n queried by a thread whose errno is errno0 *)
Definition run_nice (errno0 n : Z) : jv := JL [ jv_nice (nice_query errno0 (KNice n)); jv_nice (spec_nice (KNice n)) ].
