(* C03 -- soundness of the guard analysis for every world of the fault model. *)
From PV Require Import Base.Prelude C03.Model C03.Guard C03.Spec.
Local Open Scope list_scope.

Ltac inl := simpl; repeat (first [ left; reflexivity | right ]); fail.

Lemma reach_spec : forall a a1, In a1 (reach a) <-> (fst a = true -> fst a1 = true).
Proof.
  intros [g c] [g1 c1]; unfold reach; simpl; destruct g, g1, c1; simpl; split; intros H;
    try (intuition congruence); try (clear H; inl).
Qed.

Section Sound.
Variable w : world.
Variable opt : label -> oclass.
Hypothesis Hb : base_ok opt w.

Definition alpha (s : st) : astate := (gone w s, s_cache s).
Definition abs_sig (sg : sig) : asig :=
  match sg with SNormal => ANormal | SReturn => AReturn | SRaise x => ARaise x end.

Lemma iter_idx_le : forall body,
  (forall s sg s', body s = (sg, s') -> s_idx s <= s_idx s')%nat ->
  forall ns s sg s', iter_names body ns s = (sg, s') -> (s_idx s <= s_idx s')%nat.
Proof.
  intros body Hbody. induction ns as [|n r IH]; intros s sg s' H; simpl in H.
  - inversion H; subst; auto.
  - destruct (body (set_cur s n)) as [sg1 s1] eqn:E. apply Hbody in E. simpl in E.
    destruct sg1.
    + apply IH in H. lia.
    + inversion H; subst; auto.
    + inversion H; subst; auto.
Qed.

Lemma exec_idx_le : forall p cx s sg s', exec w p cx s = (sg, s') -> (s_idx s <= s_idx s')%nat.
Proof.
  induction p; intros cx s sg s' H; simpl in H.
  - inversion H; subst; auto.
  - inversion H; subst; auto.
  - inversion H; subst; auto.
  - inversion H; subst; auto.
  - destruct (answer w (s_idx s) l (s_cur s)); inversion H; subst; simpl; lia.
  - destruct (exec w p1 cx s) as [sg1 s1] eqn:E1. apply IHp1 in E1.
    destruct sg1; [apply IHp2 in H; lia | inversion H; subst; auto | inversion H; subst; auto].
  - destruct (eval_test w t cx s); eauto.
  - inversion H; subst; simpl; auto.
  - destruct (exec w p1 cx s) as [sg1 s1] eqn:E1. apply IHp1 in E1.
    destruct sg1; [apply IHp3 in H; lia | inversion H; subst; auto | apply IHp2 in H; lia].
  - eapply iter_idx_le; [ | exact H]. intros; eapply IHp; eauto.
  - destruct (exec w p cx s) as [sg1 s1] eqn:E1. apply IHp in E1.
    destruct sg1; inversion H; subst; auto.
  - destruct (s_cache s).
    + destruct (find_slot (s_slots s) n).
      * inversion H; subst; simpl; auto.
      * destruct (exec w p cx s) as [sg1 s1] eqn:E1. apply IHp in E1.
        destruct sg1; destruct (s_cache s1); inversion H; subst; simpl; auto.
    + eauto.
  - inversion H; subst; simpl; auto.
  - inversion H; subst; simpl; auto.
  - inversion H; subst. destruct (existsb (String.eqb (s_cur s)) (w_names w n)); simpl; auto.
  - inversion H; subst; simpl; auto.
Qed.

Lemma gone_mono : forall s s', (s_idx s <= s_idx s')%nat -> gone w s = true -> gone w s' = true.
Proof.
  unfold gone; intros s s' Hle H. destruct (w_vanish w); [|discriminate].
  apply Nat.ltb_lt in H. apply Nat.ltb_lt. lia.
Qed.

Lemma gone_tick : forall s k f c, gone w (tick s k f c) = gone_at w (s_idx s).
Proof. intros. unfold gone, gone_at. simpl. destruct (w_vanish w); reflexivity. Qed.

Lemma gone_gone_at : forall s, gone w s = true -> gone_at w (s_idx s) = true.
Proof.
  unfold gone, gone_at; intros s H. destruct (w_vanish w); [|discriminate].
  apply Nat.ltb_lt in H. apply Nat.leb_le. lia.
Qed.

(* one access *)
Lemma acc_sound : forall l s sg s',
  exec w (Acc l) XPy s = (sg, s') ->
  In (abs_sig sg, alpha s') (an opt (Acc l) XPy (alpha s)).
Proof.
  intros l s sg s' H. simpl in H. simpl.
  assert (G : gone w s = true -> gone_at w (s_idx s) = true) by apply gone_gone_at.
  assert (A1 : forall d, alpha (set_data (tick s (l_kind l) (l_file l) (s_cur s)) d) = (gone_at w (s_idx s), s_cache s)).
  { intros. unfold alpha, gone, gone_at. simpl. destruct (w_vanish w); reflexivity. }
  assert (A2 : alpha (tick s (l_kind l) (l_file l) (s_cur s)) = (gone_at w (s_idx s), s_cache s)).
  { unfold alpha, gone, gone_at. simpl. destruct (w_vanish w); reflexivity. }
  pose proof (Hb (gone_at w (s_idx s)) l (s_cur s)) as B.
  unfold answer in H. change (alpha s) with (gone w s, s_cache s).
  unfold rwho in *.
  destruct (l_who l) eqn:Hw.
  - (* Self *)
    simpl in H. destruct (gone_at w (s_idx s)) eqn:Ga.
    + inversion H; subst. rewrite A2. unfold vx. destruct (gone w s); inl.
    + assert (Gs : gone w s = false) by (destruct (gone w s); auto; specialize (G eq_refl); discriminate).
      rewrite Gs. destruct (w_deny w (s_idx s)).
      * inversion H; subst. rewrite A2. inl.
      * destruct (opt l) eqn:Ho; simpl in B;
          destruct (w_base w false (l_kind l) Self (l_file l) (s_cur s)) as [d|e];
          inversion H; subst; [rewrite A1 | rewrite A2 | rewrite A1 | rewrite A2 | rewrite A1 | rewrite A2];
          try inl; destruct e; try discriminate; inl.
  - (* Other *)
    simpl in H.
    assert (R : forall x, (x = ANormal \/ x = ARaise XPerm \/ (opt l <> Strict /\ x = ARaise XFnf) \/ (opt l <> Strict /\ x = ARaise XEsrch)
                           \/ (opt l = MayVanishOrInval /\ x = ARaise XOsOther)) ->
                In (x, (gone_at w (s_idx s), s_cache s)) (acc_other (opt l) (gone w s, s_cache s))).
    { intros x Hx. unfold acc_other.
      destruct (opt l) eqn:Hol; destruct (gone w s) eqn:Gs;
        try rewrite (G eq_refl); destruct (gone_at w (s_idx s));
        destruct Hx as [-> | [-> | [[Ho ->] | [[Ho ->] | [Ho ->]]]]]; try discriminate; try congruence; inl. }
    destruct (w_deny w (s_idx s)).
    + inversion H; subst. rewrite A2. apply R. auto.
    + destruct (w_base w (gone_at w (s_idx s)) (l_kind l) Other (l_file l) (s_cur s)) as [d|e] eqn:Eb;
        inversion H; subst; [rewrite A1 | rewrite A2]; apply R; auto.
      try rewrite Eb in B.
      destruct e; simpl; auto 6; destruct (opt l) eqn:Ho2; simpl in B; try discriminate;
        first [ right; right; left; split; [congruence | reflexivity]
              | right; right; right; left; split; [congruence | reflexivity]
              | right; right; right; right; split; reflexivity ].
  - (* Global *)
    simpl in H.
    destruct (w_base w (gone_at w (s_idx s)) (l_kind l) Global (l_file l) (s_cur s)) as [d|e] eqn:Eb;
      [|discriminate].
    inversion H; subst. rewrite A1. unfold acc_global.
    destruct (gone w s) eqn:Gs.
    + rewrite (G eq_refl). inl.
    + destruct (gone_at w (s_idx s)); inl.
  - (* Any: the current entry is the object's own pid, or another one *)
    apply in_or_app.
    destruct (String.eqb (s_cur s) (w_self w)).
    + left. simpl in H. destruct (gone_at w (s_idx s)) eqn:Ga.
      * inversion H; subst. rewrite A2. unfold vx. destruct (gone w s); inl.
      * assert (Gs : gone w s = false) by (destruct (gone w s); auto; specialize (G eq_refl); discriminate).
        rewrite Gs. destruct (w_deny w (s_idx s)).
        -- inversion H; subst. rewrite A2. inl.
        -- destruct (opt l) eqn:Ho; simpl in B;
             destruct (w_base w false (l_kind l) Self (l_file l) (s_cur s)) as [d|e];
             inversion H; subst; [rewrite A1 | rewrite A2 | rewrite A1 | rewrite A2 | rewrite A1 | rewrite A2];
             try inl; destruct e; try discriminate; inl.
    + right. simpl in H.
      assert (R : forall x, (x = ANormal \/ x = ARaise XPerm \/ (opt l <> Strict /\ x = ARaise XFnf) \/ (opt l <> Strict /\ x = ARaise XEsrch)
                             \/ (opt l = MayVanishOrInval /\ x = ARaise XOsOther)) ->
                  In (x, (gone_at w (s_idx s), s_cache s)) (acc_other (opt l) (gone w s, s_cache s))).
      { intros x Hx. unfold acc_other.
        destruct (opt l) eqn:Hol; destruct (gone w s) eqn:Gs;
          try rewrite (G eq_refl); destruct (gone_at w (s_idx s));
          destruct Hx as [-> | [-> | [[Ho ->] | [[Ho ->] | [Ho ->]]]]]; try discriminate; try congruence; inl. }
      destruct (w_deny w (s_idx s)).
      * inversion H; subst. rewrite A2. apply R. auto.
      * destruct (w_base w (gone_at w (s_idx s)) (l_kind l) Other (l_file l) (s_cur s)) as [d|e] eqn:Eb;
          inversion H; subst; [rewrite A1 | rewrite A2]; apply R; auto.
        try rewrite Eb in B.
        destruct e; simpl; auto 6; destruct (opt l) eqn:Ho2; simpl in B; try discriminate;
          first [ right; right; left; split; [congruence | reflexivity]
                | right; right; right; left; split; [congruence | reflexivity]
                | right; right; right; right; split; reflexivity ].
Qed.

Theorem an_sound : forall p cx s sg s',
  exec w p cx s = (sg, s') -> In (abs_sig sg, alpha s') (an opt p cx (alpha s)).
Proof.
  induction p; intros cx s sg s' H.
  - simpl in H; inversion H; subst; simpl; auto.
  - simpl in H; inversion H; subst; simpl; auto.
  - simpl in H; inversion H; subst; simpl; auto.
  - simpl in H; inversion H; subst; simpl; auto.
  - apply (acc_sound l s sg s'). exact H.
  - (* Seq *)
    simpl in H. destruct (exec w p1 cx s) as [sg1 s1] eqn:E1. apply IHp1 in E1.
    simpl. apply nodup_In. apply in_flat_map. exists (abs_sig sg1, alpha s1). split; auto.
    destruct sg1; simpl; [apply IHp2; auto | inversion H; subst; simpl; auto | inversion H; subst; simpl; auto].
  - (* If *)
    simpl in H.
    destruct t; simpl in H |- *;
      try (apply nodup_In; apply in_or_app;
           match type of H with (if ?c then _ else _) = _ => destruct c end; [left | right]; eauto).
    destruct (hmatch h cx); eauto.
  - simpl in H; inversion H; subst; simpl; auto.
  - (* Try *)
    simpl in H. destruct (exec w p1 cx s) as [sg1 s1] eqn:E1. apply IHp1 in E1.
    simpl. apply nodup_In. apply in_flat_map. exists (abs_sig sg1, alpha s1). split; auto.
    destruct sg1; simpl; [apply IHp3; auto | inversion H; subst; simpl; auto | apply IHp2; auto].
  - (* ForNames *)
    simpl in H. simpl. apply nodup_In.
    assert (L : forall ns s1, In (alpha s1) (reach (alpha s)) ->
              iter_names (exec w p cx) ns s1 = (sg, s') ->
              In (abs_sig sg, alpha s')
                 (map (fun a1 => (ANormal, a1)) (reach (alpha s))
                  ++ flat_map (fun a1 => filter nonnormal (an opt p cx a1)) (reach (alpha s)))).
    { induction ns as [|n r IH]; intros s1 Hin H1; simpl in H1.
      - inversion H1; subst. apply in_or_app. left. apply in_map_iff. exists (alpha s'). auto.
      - destruct (exec w p cx (set_cur s1 n)) as [sg1 s2] eqn:E.
        pose proof (exec_idx_le _ _ _ _ _ E) as Hle. simpl in Hle.
        apply IHp in E. change (alpha (set_cur s1 n)) with (alpha s1) in E.
        destruct sg1.
        + apply (IH s2); auto. apply reach_spec. intros Hg.
          apply reach_spec in Hin; [ | exact Hg ]. simpl in Hin |- *.
          eapply gone_mono; [ | exact Hin]. exact Hle.
        + inversion H1; subst. apply in_or_app. right. apply in_flat_map. exists (alpha s1). split; auto.
          apply filter_In. split; auto.
        + inversion H1; subst. apply in_or_app. right. apply in_flat_map. exists (alpha s1). split; auto.
          apply filter_In. split; auto. }
    apply (L (d_names (s_data s)) s); auto. apply reach_spec. auto.
  - (* Call *)
    simpl in H. destruct (exec w p cx s) as [sg1 s1] eqn:E1. apply IHp in E1.
    simpl. apply in_map_iff. exists (abs_sig sg1, alpha s1). split; auto.
    destruct sg1; inversion H; subst; simpl; auto.
  - (* Memo *)
    simpl in H. simpl. apply in_or_app.
    destruct (s_cache s) eqn:Ec.
    + destruct (find_slot (s_slots s) n).
      * left. inversion H; subst. unfold alpha. simpl. rewrite Ec. simpl. auto.
      * right. destruct (exec w p cx s) as [sg1 s1] eqn:E1. apply IHp in E1.
        destruct sg1; destruct (s_cache s1) eqn:Ec1; inversion H; subst; auto.
    + right. apply IHp; auto.
  - simpl in H; inversion H; subst; simpl; auto.
  - simpl in H; inversion H; subst; simpl; auto.
  - simpl in H; inversion H; subst. simpl.
    destruct (existsb (String.eqb (s_cur s)) (w_names w n)); left; reflexivity.
  - simpl in H; inversion H; subst; simpl; auto.
Qed.

(* ---- the theorems about guarded scripts *)
Lemma entry_cases : forall s, s_cache s = false -> alpha s = (false, false) \/ alpha s = (true, false).
Proof. intros s Hc. unfold alpha. rewrite Hc. destruct (gone w s); auto. Qed.

Theorem well_guarded_sound_w : forall p, well_guarded opt p = true ->
  forall s, s_cache s = false -> allowed (fst (run w p s)) (gone w (snd (run w p s))).
Proof.
  intros p Hg s Hc. unfold run.
  destruct (exec w p XPy s) as [sg s'] eqn:E. apply an_sound in E.
  unfold well_guarded in Hg. apply andb_true_iff in Hg. destruct Hg as [H0 H1].
  assert (Ho : ok_end (abs_sig sg, alpha s') = true).
  { destruct (entry_cases s Hc) as [Ha | Ha]; rewrite Ha in E;
      [ eapply forallb_forall in H0; eauto | eapply forallb_forall in H1; eauto ]. }
  destruct sg; simpl; auto.
  unfold alpha in Ho. simpl in Ho.
  destruct x; try discriminate; simpl; auto; destruct w0; try discriminate; auto.
Qed.

Theorem weakly_guarded_sound_w : forall p, weakly_guarded opt p = true ->
  forall s, s_cache s = false -> allowed_weak (fst (run w p s)).
Proof.
  intros p Hg s Hc. unfold run.
  destruct (exec w p XPy s) as [sg s'] eqn:E. apply an_sound in E.
  unfold weakly_guarded in Hg. apply andb_true_iff in Hg. destruct Hg as [H0 H1].
  assert (Ho : ok_end_weak (abs_sig sg, alpha s') = true).
  { destruct (entry_cases s Hc) as [Ha | Ha]; rewrite Ha in E;
      [ eapply forallb_forall in H0; eauto | eapply forallb_forall in H1; eauto ]. }
  destruct sg; simpl; auto.
  unfold alpha in Ho. simpl in Ho.
  destruct x; try discriminate; simpl; auto; destruct w0; try discriminate; auto.
Qed.

Theorem tree_guarded_sound_w : forall p, tree_guarded opt p = true ->
  forall s, s_cache s = false -> allowed_tree (fst (run w p s)) (gone w (snd (run w p s))).
Proof.
  intros p Hg s Hc. unfold run.
  destruct (exec w p XPy s) as [sg s'] eqn:E. apply an_sound in E.
  unfold tree_guarded in Hg. apply andb_true_iff in Hg. destruct Hg as [H0 H1].
  assert (Ho : ok_end_tree (abs_sig sg, alpha s') = true).
  { destruct (entry_cases s Hc) as [Ha | Ha]; rewrite Ha in E;
      [ eapply forallb_forall in H0; eauto | eapply forallb_forall in H1; eauto ]. }
  destruct sg; simpl; auto.
  unfold alpha in Ho. simpl in Ho.
  destruct x; try discriminate; simpl; auto; destruct w0; try discriminate; simpl; auto.
Qed.

Theorem gone_guarded_sound_w : forall p, gone_guarded opt p = true ->
  forall s, s_cache s = false -> gone w s = true -> fst (run w p s) = RExc (XNSP Self).
Proof.
  intros p Hg s Hc Hgone. unfold run.
  destruct (exec w p XPy s) as [sg s'] eqn:E. apply an_sound in E.
  unfold alpha at 2 in E. rewrite Hc, Hgone in E.
  unfold gone_guarded in Hg. eapply forallb_forall in Hg; eauto.
  destruct sg; simpl in Hg; try discriminate.
  destruct x; try discriminate. destruct w0; try discriminate. reflexivity.
Qed.
End Sound.
