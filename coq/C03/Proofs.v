(* C03 -- soundness of the guard analysis for every world of the fault model. *)
From PV Require Import Base.Prelude C03.Model C03.Guard C03.Spec.
Local Open Scope list_scope.

Ltac inl := simpl; repeat (first [ left; reflexivity | right ]); fail.

Lemma gs_spec : forall g g', In g' (gs g) <-> (g = true -> g' = true).
Proof. intros [] []; simpl; split; intros H; try (intuition congruence); try (clear H; inl). Qed.

Lemma reach_spec : forall a a1, In a1 (reach a) <-> (ag a = true -> ag a1 = true).
Proof.
  intros [[g c] o] [[g1 c1] o1]; unfold reach, ag; destruct g, g1, c1, o1; simpl; split; intros H;
    try reflexivity; try (clear H; inl); try (intuition congruence).
Qed.

Lemma acc_gen_in : forall fb sigs k a g' o' sg,
  In g' (gs (ag a)) -> In o' (gs (ao a)) ->
  (failed fb g' o' = true -> sg = ARaise (vx k)) -> (failed fb g' o' = false -> In sg sigs) ->
  In (sg, (g', ac a, o')) (acc_gen fb sigs k a).
Proof.
  intros fb sigs k a g' o' sg Hg Ho Hf Hn. unfold acc_gen.
  apply in_flat_map. exists g'. split; auto. apply in_flat_map. exists o'. split; auto.
  apply in_map_iff. exists sg. split; auto.
  destruct (failed fb g' o'); [left; symmetry; auto | auto].
Qed.

(* what a base answer can be, given the class of the access *)
Lemma class_sig : forall o r, ok_class o r = true ->
  match r with Ok _ => True | Err e => In (ARaise (xc_of e)) (live_sigs o) end.
Proof. intros o [d|e] H; auto. destruct o, e; simpl in H; try discriminate; inl. Qed.

Lemma in_normals : forall (r : ares) a, In (ANormal, a) r -> In a (normals r).
Proof.
  intros r a H. unfold normals, dds. apply nodup_In. apply in_flat_map. exists (ANormal, a). split; auto. simpl; auto.
Qed.
Lemma in_raised : forall (r : ares) x a, In (ARaise x, a) r -> In a (raised x r).
Proof.
  intros r x a H. unfold raised, dds. apply nodup_In. apply in_flat_map. exists (ARaise x, a). split; auto.
  simpl. destruct (xc_eq_dec x x); [simpl; auto | congruence].
Qed.
Lemma all_who_complete : forall x : who, In x all_who.
Proof. destruct x; inl. Qed.
Lemma all_xc_complete : forall x : xc, In x all_xc.
Proof.
  intros x. unfold all_xc. destruct x; try inl.
  - apply in_or_app. right. apply in_or_app. left. apply in_map. apply all_who_complete.
  - apply in_or_app. right. apply in_or_app. right. apply in_or_app. left. apply in_map. apply all_who_complete.
  - apply in_or_app. right. apply in_or_app. right. apply in_or_app. right. apply in_map. apply all_who_complete.
Qed.
Lemma in_reachS : forall A a a1, In a A -> In a1 (reach a) -> In a1 (reachS A).
Proof. intros. unfold reachS, dds. apply nodup_In. apply in_flat_map. exists a. auto. Qed.
Lemma in_tag : forall sg A a, In a A -> In (sg, a) (tag sg A).
Proof. intros. unfold tag. apply in_map_iff. exists a. auto. Qed.

Section Sound.
Variable w : world.
Variable opt : label -> oclass.
Hypothesis Hb : base_ok opt w.

Definition alpha (s : st) : astate := (gone w s, s_cache s, ogone w s).
Definition abs_sig (sg : sig) : asig :=
  match sg with SNormal => ANormal | SReturn => AReturn | SRaise x => ARaise x end.

Lemma iter_idx_le : forall body,
  (forall s sg s', body s = (sg, s') -> s_idx s <= s_idx s')%nat ->
  forall ns s sg s', iter_names body ns s = (sg, s') -> (s_idx s <= s_idx s')%nat.
Proof.
  intros body Hbody. induction ns as [|n r IH]; intros s sg s' H; simpl in H.
  - inversion H; subst; auto.
  - destruct (body (set_cur s n)) as [sg1 s1] eqn:E. apply Hbody in E. simpl in E.
    destruct sg1.
    + apply IH in H. lia.
    + inversion H; subst; auto.
    + inversion H; subst; auto.
Qed.

Lemma visit_idx_le : forall body push,
  (forall s sg s', body s = (sg, s') -> s_idx s <= s_idx s')%nat ->
  forall ks stack s sg s' st', visit body push ks stack s = (sg, s', st') -> (s_idx s <= s_idx s')%nat.
Proof.
  intros body push Hbody. induction ks as [|k r IH]; intros stack s sg s' st' H; simpl in H.
  - inversion H; subst; auto.
  - destruct (body (set_cur s k)) as [sg1 s1] eqn:E. apply Hbody in E. simpl in E.
    destruct sg1.
    + apply IH in H. lia.
    + inversion H; subst; auto.
    + inversion H; subst; auto.
Qed.

Lemma walk_idx_le : forall body push kids,
  (forall s sg s', body s = (sg, s') -> s_idx s <= s_idx s')%nat ->
  forall fuel stack seen s sg s', walk body push kids fuel stack seen s = (sg, s') -> (s_idx s <= s_idx s')%nat.
Proof.
  intros body push kids Hbody. induction fuel as [|f IH]; intros stack seen s sg s' H; simpl in H.
  - inversion H; subst; auto.
  - destruct stack as [|pid rest]; [inversion H; subst; auto|].
    destruct (existsb (String.eqb pid) seen); [eapply IH; eauto|].
    destruct (visit body push (kids pid) rest s) as [[sg1 s1] st1] eqn:E.
    apply (visit_idx_le body push Hbody) in E.
    destruct sg1.
    + apply IH in H. lia.
    + inversion H; subst; auto.
    + inversion H; subst; auto.
Qed.

Lemma exec_idx_le : forall p cx s sg s', exec w p cx s = (sg, s') -> (s_idx s <= s_idx s')%nat.
Proof.
  induction p; intros cx s sg s' H; simpl in H.
  - inversion H; subst; auto.
  - inversion H; subst; auto.
  - inversion H; subst; auto.
  - inversion H; subst; auto.
  - destruct (answer w (s_idx s) l (s_cur s)); inversion H; subst; simpl; lia.
  - destruct (exec w p1 cx s) as [sg1 s1] eqn:E1. apply IHp1 in E1.
    destruct sg1; [apply IHp2 in H; lia | inversion H; subst; auto | inversion H; subst; auto].
  - destruct (eval_test w t cx s); eauto.
  - inversion H; subst; simpl; auto.
  - destruct (exec w p1 cx s) as [sg1 s1] eqn:E1. apply IHp1 in E1.
    destruct sg1; [apply IHp3 in H; lia | inversion H; subst; auto | apply IHp2 in H; lia].
  - eapply iter_idx_le; [ | exact H]. intros; eapply IHp; eauto.
  - destruct (exec w p cx s) as [sg1 s1] eqn:E1. apply IHp in E1.
    destruct sg1; inversion H; subst; auto.
  - destruct (s_cache s).
    + destruct (find_slot (s_slots s) n).
      * inversion H; subst; simpl; auto.
      * destruct (exec w p cx s) as [sg1 s1] eqn:E1. apply IHp in E1.
        destruct sg1; destruct (s_cache s1); inversion H; subst; simpl; auto.
    + eauto.
  - inversion H; subst; simpl; auto.
  - inversion H; subst; simpl; auto.
  - inversion H; subst; simpl; auto.
  - inversion H; subst; simpl; auto.
  - inversion H; subst; simpl; auto.
  - exact (walk_idx_le (exec w p cx) F_PUSH (kids_of w (s_acc s)) (fun s0 sg0 s0' E => IHp cx s0 sg0 s0' E)
             (S (List.length (s_acc s))) [w_self w] [] s sg s' H).
Qed.

Lemma gone_mono : forall s s', (s_idx s <= s_idx s')%nat -> gone w s = true -> gone w s' = true.
Proof.
  unfold gone; intros s s' Hle H. destruct (w_vanish w); [|discriminate].
  apply Nat.ltb_lt in H. apply Nat.ltb_lt. lia.
Qed.

Lemma gone_gone_at : forall s, gone w s = true -> gone_at w (s_idx s) = true.
Proof.
  unfold gone, gone_at; intros s H. destruct (w_vanish w); [|discriminate].
  apply Nat.ltb_lt in H. apply Nat.leb_le. lia.
Qed.
Lemma ogone_gonef : forall s, ogone w s = true -> gonef w (s_idx s) (s_cur s) = true.
Proof.
  unfold ogone, gonef; intros s H. destruct (String.eqb (s_cur s) (w_self w)).
  - apply gone_gone_at. exact H.
  - unfold ogone_at. destruct (w_ovanish w (s_cur s)); [|discriminate].
    apply Nat.ltb_lt in H. apply Nat.leb_le. lia.
Qed.

(* one access *)
Lemma acc_sound : forall l cx s sg s',
  exec w (Acc l) cx s = (sg, s') ->
  In (abs_sig sg, alpha s') (acc_who (l_who l) (opt l) (l_kind l) (alpha s)).
Proof.
  intros l cx s sg s' H. simpl in H.
  set (i := s_idx s) in *. set (cur := s_cur s) in *.
  set (G' := gone_at w i). set (O' := gonef w i cur).
  assert (A1 : forall d, alpha (set_data (tick s (l_kind l) (l_file l) cur) d) = (G', s_cache s, O')).
  { intros. unfold alpha, ogone; unfold gone, G', O', gonef, gone_at, ogone_at. simpl. fold cur. fold i.
    destruct (String.eqb cur (w_self w)); destruct (w_vanish w); destruct (w_ovanish w cur); reflexivity. }
  assert (A2 : alpha (tick s (l_kind l) (l_file l) cur) = (G', s_cache s, O')).
  { unfold alpha, ogone; unfold gone, G', O', gonef, gone_at, ogone_at. simpl. fold cur. fold i.
    destruct (String.eqb cur (w_self w)); destruct (w_vanish w); destruct (w_ovanish w cur); reflexivity. }
  assert (HG : In G' (gs (ag (alpha s)))).
  { apply gs_spec. unfold alpha, ag. simpl. apply gone_gone_at. }
  assert (HO : In O' (gs (ao (alpha s)))).
  { apply gs_spec. unfold alpha, ao. simpl. apply ogone_gonef. }
  assert (AC : ac (alpha s) = s_cache s) by reflexivity.
  pose proof (Hb (unlisted w i) l cur) as B.
  unfold answer in H. unfold rwho in *.
  (* the generic argument for a refusable, class-driven access whose failure is decided by [fb] *)
  assert (GEN : forall fb x,
            vanished w l x cur i = failed fb G' O' ->
            is_global x = false ->
            ok_class (opt l) (w_base w (unlisted w i) (l_kind l) x (l_file l) cur) = true ->
            match (if vanished w l x cur i then Err (vanish_errno (l_kind l))
                   else if negb (is_global x) && w_deny w i then Err EACCES
                   else w_base w (unlisted w i) (l_kind l) x (l_file l) cur) with
            | Ok d => (SNormal, set_data (tick s (l_kind l) (l_file l) cur) d)
            | Err e => (SRaise (xc_of e), tick s (l_kind l) (l_file l) cur)
            end = (sg, s') ->
            In (abs_sig sg, alpha s') (acc_gen fb (live_sigs (opt l)) (l_kind l) (alpha s))).
  { intros fb x Hv Hgl Hc Ha. rewrite Hgl in Ha. simpl in Ha.
    destruct (vanished w l x cur i) eqn:V.
    - inversion Ha; subst. rewrite A2. rewrite <- AC.
      apply acc_gen_in; [exact HG | exact HO | intros F; first [reflexivity | congruence | (simpl in F; discriminate)] | intros F; first [congruence | inl | exact Hc | discriminate]].
    - destruct (w_deny w i).
      + inversion Ha; subst. rewrite A2. rewrite <- AC.
        apply acc_gen_in; [exact HG | exact HO | intros F; first [reflexivity | congruence | (simpl in F; discriminate)] | intros F; first [congruence | inl | exact Hc | discriminate]].
      + apply class_sig in Hc.
        destruct (w_base w (unlisted w i) (l_kind l) x (l_file l) cur) as [d|e].
        * inversion Ha; subst. rewrite A1. rewrite <- AC.
          apply acc_gen_in; [exact HG | exact HO | intros F; first [reflexivity | congruence | (simpl in F; discriminate)] | intros F; first [congruence | inl | exact Hc | discriminate]].
        * inversion Ha; subst. rewrite A2. rewrite <- AC.
          apply acc_gen_in; [exact HG | exact HO | intros F; first [reflexivity | congruence | (simpl in F; discriminate)] | intros F; first [congruence | inl | exact Hc | discriminate]]. }
  (* accesses on the object's own paths: /proc/<pid> itself may survive (half-removed mode) *)
  assert (SELF : forall fb, gone_at w i = failed fb G' O' ->
            ok_class (opt l) (w_base w (unlisted w i) (l_kind l) Self (l_file l) cur) = true /\
            (w_half w = true -> is_piddir l = true -> opt l = DirSurvives) ->
            match (if vanished w l Self cur i then Err (vanish_errno (l_kind l))
                   else if negb (is_global Self) && w_deny w i then Err EACCES
                   else w_base w (unlisted w i) (l_kind l) Self (l_file l) cur) with
            | Ok d => (SNormal, set_data (tick s (l_kind l) (l_file l) cur) d)
            | Err e => (SRaise (xc_of e), tick s (l_kind l) (l_file l) cur)
            end = (sg, s') ->
            In (abs_sig sg, alpha s')
               (acc_gen fb (live_sigs (opt l)) (l_kind l) (alpha s)
                ++ match opt l with DirSurvives => acc_gen ByNone (live_sigs (opt l)) (l_kind l) (alpha s) | _ => [] end)).
  { intros fb Hfb [Hc Hd] Ha. apply in_or_app.
    destruct (w_half w && is_piddir l) eqn:HD.
    - apply andb_true_iff in HD. destruct HD as [Hh Hp]. pose proof (Hd Hh Hp) as Ho. rewrite Ho. right. rewrite <- Ho.
      apply (GEN ByNone Self); auto.
      simpl. rewrite Hh, Hp. simpl. apply andb_false_r.
    - left. apply (GEN fb Self); auto.
      simpl. rewrite HD. simpl. rewrite andb_true_r. exact Hfb. }
  unfold acc_who.
  destruct (l_who l) eqn:Hw.
  - (* Self *) apply (SELF ByG); auto.
  - (* Other *) apply (GEN ByO Other); auto.
  - (* Global *)
    simpl in H.
    destruct (w_base w (unlisted w i) (l_kind l) Global (l_file l) cur) as [d|e] eqn:Eb; [|discriminate].
    inversion H; subst. rewrite A1. rewrite <- AC.
    apply acc_gen_in; [exact HG | exact HO | intros F; first [reflexivity | congruence | (simpl in F; discriminate)] | intros F; first [congruence | inl | exact Hc | discriminate]].
  - (* Any *)
    destruct (String.eqb cur (w_self w)) eqn:E.
    + apply (SELF ByO); auto. simpl. unfold O', gonef. rewrite E. reflexivity.
    + apply in_or_app. left. apply (GEN ByO Other); auto.
  - (* Ext *) apply (GEN ByNone Ext); auto.
Qed.

(* loops: any number of body runs, each started in a state of [reachS A] *)
Definition loop_out (body : list astate -> ares) (A : list astate) : ares :=
  dd (tag ANormal (reachS A) ++ filter nonnormal (body (reachS A))).
Lemma loop_in_normal : forall body A a1, In a1 (reachS A) -> In (ANormal, a1) (loop_out body A).
Proof. intros. unfold loop_out, dd. apply nodup_In. apply in_or_app. left. apply in_tag. auto. Qed.
Lemma loop_in_body : forall body A r, In r (body (reachS A)) -> nonnormal r = true -> In r (loop_out body A).
Proof. intros. unfold loop_out, dd. apply nodup_In. apply in_or_app. right. apply filter_In. auto. Qed.
Lemma alpha_reach : forall A s0 s, In (alpha s0) A -> (gone w s0 = true -> gone w s = true) -> In (alpha s) (reachS A).
Proof. intros A s0 s Hin H. eapply in_reachS; [exact Hin|]. apply reach_spec. exact H. Qed.

Lemma an_try : forall b h e cx A,
  an opt (Try b h e) cx A =
  dd (filter isret (an opt b cx A) ++ an opt e cx (normals (an opt b cx A))
      ++ flat_map (fun x => match raised x (an opt b cx A) with [] => [] | a0 :: S0 => an opt h x (a0 :: S0) end) all_xc).
Proof. reflexivity. Qed.

Theorem an_sound : forall p cx A s sg s',
  In (alpha s) A -> exec w p cx s = (sg, s') -> In (abs_sig sg, alpha s') (an opt p cx A).
Proof.
  induction p; intros cx A s sg s' HA H.
  - simpl in H; inversion H; subst; simpl; apply in_tag; auto.
  - simpl in H; inversion H; subst; simpl; apply in_tag; auto.
  - simpl in H; inversion H; subst; simpl; apply in_tag; auto.
  - simpl in H; inversion H; subst; simpl; apply in_tag; auto.
  - simpl. apply nodup_In. apply in_flat_map. exists (alpha s). split; auto.
    apply (acc_sound l cx s sg s'). exact H.
  - (* Seq *)
    simpl in H. destruct (exec w p1 cx s) as [sg1 s1] eqn:E1. apply (IHp1 cx A) in E1; auto.
    simpl. apply nodup_In. apply in_or_app.
    destruct sg1.
    + right. eapply IHp2; [| exact H]. apply in_normals. exact E1.
    + left. inversion H; subst. apply filter_In. split; auto.
    + left. inversion H; subst. apply filter_In. split; auto.
  - (* If *)
    simpl in H.
    destruct t; simpl in H |- *;
      try (apply nodup_In; apply in_or_app;
           match type of H with (if ?c then _ else _) = _ => destruct c end; [left | right]; eauto).
    destruct (hmatch h cx); eauto.
  - simpl in H; inversion H; subst; simpl; apply in_tag; auto.
  - (* Try *)
    simpl in H. destruct (exec w p1 cx s) as [sg1 s1] eqn:E1. apply (IHp1 cx A) in E1; auto.
    rewrite an_try. apply nodup_In. apply in_or_app.
    destruct sg1.
    + right. apply in_or_app. left. eapply IHp3; [| exact H]. apply in_normals. exact E1.
    + left. inversion H; subst. apply filter_In. split; auto.
    + right. apply in_or_app. right. apply in_flat_map. exists x. split; [apply all_xc_complete|].
      pose proof (in_raised _ _ _ E1) as Hr.
      destruct (raised x (an opt p1 cx A)) as [|a0 S0] eqn:ER; [destruct Hr|].
      eapply IHp2; [| exact H]. exact Hr.
  - (* ForNames *)
    simpl in H. simpl. change (In (abs_sig sg, alpha s') (loop_out (an opt p cx) A)).
    assert (L : forall ns s1, (gone w s = true -> gone w s1 = true) ->
              iter_names (exec w p cx) ns s1 = (sg, s') ->
              In (abs_sig sg, alpha s') (loop_out (an opt p cx) A)).
    { induction ns as [|n r IH]; intros s1 Hin H1; simpl in H1.
      - inversion H1; subst. apply loop_in_normal. eapply alpha_reach; eauto.
      - destruct (exec w p cx (set_cur s1 n)) as [sg1 s2] eqn:E.
        pose proof (exec_idx_le _ _ _ _ _ E) as Hle. simpl in Hle.
        assert (R1 : In (alpha (set_cur s1 n)) (reachS A)) by (eapply alpha_reach; eauto).
        apply (IHp cx (reachS A)) in E; auto.
        destruct sg1.
        + apply (IH s2); auto. intros Hg. eapply gone_mono; [exact Hle | auto].
        + inversion H1; subst. eapply loop_in_body; eauto.
        + inversion H1; subst. eapply loop_in_body; eauto. }
    apply (L (d_names (s_data s)) s); auto.
  - (* Call *)
    simpl in H. destruct (exec w p cx s) as [sg1 s1] eqn:E1. apply (IHp cx A) in E1; auto.
    simpl. apply in_map_iff. exists (abs_sig sg1, alpha s1). split; auto.
    destruct sg1; inversion H; subst; simpl; auto.
  - (* Memo *)
    simpl in H. simpl. apply in_or_app.
    destruct (s_cache s) eqn:Ec.
    + destruct (find_slot (s_slots s) n).
      * left. inversion H; subst. apply in_tag. apply filter_In. split.
        -- assert (EA : alpha (set_data s d) = alpha s) by reflexivity. rewrite EA. exact HA.
        -- unfold alpha, ac. simpl. exact Ec.
      * right. destruct (exec w p cx s) as [sg1 s1] eqn:E1. apply (IHp cx A) in E1; auto.
        destruct sg1; destruct (s_cache s1) eqn:Ec1; inversion H; subst; auto.
    + right. eapply IHp; eauto.
  - simpl in H; inversion H; subst; simpl. apply in_map_iff. exists (alpha s). split; auto.
  - simpl in H; inversion H; subst; simpl. apply in_map_iff. exists (alpha s). split; auto.
  - simpl in H; inversion H; subst; simpl; apply in_tag; exact HA.
  - simpl in H; inversion H; subst; simpl; apply in_tag; exact HA.
  - (* FocusParent *)
    simpl in H; inversion H; subst. simpl. apply in_flat_map. exists (alpha s). split; auto.
    unfold alpha, ag, ac. simpl. destruct (ogone w (set_cur s (w_parent w))); inl.
  - (* Walk *)
    simpl in H. simpl. change (In (abs_sig sg, alpha s') (loop_out (an opt p cx) A)).
    assert (V : forall ks stack s1 sg1 s2 st2, (gone w s = true -> gone w s1 = true) ->
              visit (exec w p cx) F_PUSH ks stack s1 = (sg1, s2, st2) ->
              (s_idx s1 <= s_idx s2)%nat /\
              match sg1 with
              | SNormal => True
              | _ => In (abs_sig sg1, alpha s2) (loop_out (an opt p cx) A)
              end).
    { induction ks as [|k r IH]; intros stack s1 sg1 s2 st2 Hin H1; simpl in H1.
      - inversion H1; subst. split; auto.
      - destruct (exec w p cx (set_cur s1 k)) as [sg2 s3] eqn:E.
        pose proof (exec_idx_le _ _ _ _ _ E) as Hle. simpl in Hle.
        assert (R1 : In (alpha (set_cur s1 k)) (reachS A)) by (eapply alpha_reach; eauto).
        apply (IHp cx (reachS A)) in E; auto.
        destruct sg2.
        + apply IH in H1; [| intros Hg; eapply gone_mono; [exact Hle | auto]].
          destruct H1 as [Hl2 Hr]. split; [lia | exact Hr].
        + inversion H1; subst. split; auto. eapply loop_in_body; eauto.
        + inversion H1; subst. split; auto. eapply loop_in_body; eauto. }
    assert (L : forall fuel stack seen s1, (gone w s = true -> gone w s1 = true) ->
              walk (exec w p cx) F_PUSH (kids_of w (s_acc s)) fuel stack seen s1 = (sg, s') ->
              In (abs_sig sg, alpha s') (loop_out (an opt p cx) A)).
    { induction fuel as [|f IH]; intros stack seen s1 Hin H1; simpl in H1.
      - inversion H1; subst. apply loop_in_normal. eapply alpha_reach; eauto.
      - destruct stack as [|pid rest].
        + inversion H1; subst. apply loop_in_normal. eapply alpha_reach; eauto.
        + destruct (existsb (String.eqb pid) seen); [eapply IH; eauto|].
          destruct (visit (exec w p cx) F_PUSH (kids_of w (s_acc s) pid) rest s1) as [[sg1 s2] st2] eqn:E.
          apply V in E; auto. destruct E as [Hle Hr].
          destruct sg1.
          * eapply IH; [| exact H1]. intros Hg. eapply gone_mono; [exact Hle | auto].
          * inversion H1; subst. exact Hr.
          * inversion H1; subst. exact Hr. }
    apply (L (S (List.length (s_acc s))) [w_self w] [] s); [auto | exact H].
Qed.

(* ---- the theorems about guarded scripts *)
Lemma entry_in : forall s, s_cache s = false -> In (alpha s) entries.
Proof. intros s Hc. unfold alpha, entries. rewrite Hc. destruct (gone w s), (ogone w s); inl. Qed.
Lemma gone_entry_in : forall s, s_cache s = false -> gone w s = true -> In (alpha s) gone_entries.
Proof. intros s Hc Hg. unfold alpha, gone_entries. rewrite Hc, Hg. destruct (ogone w s); inl. Qed.

Lemma all_ends_sound : forall ok es p, all_ends ok es opt p = true ->
  forall s, In (alpha s) es -> forall sg s', exec w p XPy s = (sg, s') -> ok (abs_sig sg, alpha s') = true.
Proof.
  intros ok es p Hg s Hin sg s' E. eapply an_sound in E; [| exact Hin].
  unfold all_ends in Hg. eapply forallb_forall in Hg; eauto.
Qed.

Theorem well_guarded_sound_w : forall p, well_guarded opt p = true ->
  forall s, s_cache s = false -> allowed (fst (run w p s)) (gone w (snd (run w p s))).
Proof.
  intros p Hg s Hc. unfold run.
  destruct (exec w p XPy s) as [sg s'] eqn:E.
  pose proof (all_ends_sound _ _ _ Hg s (entry_in s Hc) _ _ E) as Ho.
  destruct sg; simpl; auto.
  unfold alpha in Ho. simpl in Ho.
  destruct x; try discriminate; simpl; auto; destruct w0; try discriminate; auto.
Qed.

Theorem tree_guarded_sound_w : forall p, tree_guarded opt p = true ->
  forall s, s_cache s = false -> allowed_tree (fst (run w p s)) (gone w (snd (run w p s))).
Proof.
  intros p Hg s Hc. unfold run.
  destruct (exec w p XPy s) as [sg s'] eqn:E.
  pose proof (all_ends_sound _ _ _ Hg s (entry_in s Hc) _ _ E) as Ho.
  destruct sg; simpl; auto.
  unfold alpha in Ho. simpl in Ho.
  destruct x; try discriminate; simpl; auto; destruct w0; try discriminate; simpl; auto.
Qed.

Theorem wait_guarded_sound_w : forall p, wait_guarded opt p = true ->
  forall s, s_cache s = false -> allowed_wait (fst (run w p s)) (gone w (snd (run w p s))).
Proof.
  intros p Hg s Hc. unfold run.
  destruct (exec w p XPy s) as [sg s'] eqn:E.
  pose proof (all_ends_sound _ _ _ Hg s (entry_in s Hc) _ _ E) as Ho.
  destruct sg; simpl; auto.
  unfold alpha in Ho. simpl in Ho.
  destruct x; try discriminate; simpl; auto; try (destruct w0; try discriminate; auto).
  unfold ag in Ho. simpl in Ho. destruct (gone w s'); auto; discriminate.
Qed.

Theorem gone_guarded_sound_w : forall p, gone_guarded opt p = true ->
  forall s, s_cache s = false -> gone w s = true -> fst (run w p s) = RExc (XNSP Self).
Proof.
  intros p Hg s Hc Hgone. unfold run.
  destruct (exec w p XPy s) as [sg s'] eqn:E.
  pose proof (all_ends_sound _ _ _ Hg s (gone_entry_in s Hc Hgone) _ _ E) as Ho.
  destruct sg; simpl in Ho; try discriminate.
  destruct x; try discriminate. destruct w0; try discriminate. reflexivity.
Qed.

Theorem gone_value_sound_w : forall p, gone_value opt p = true ->
  forall s, s_cache s = false -> gone w s = true -> fst (run w p s) = RVal.
Proof.
  intros p Hg s Hc Hgone. unfold run.
  destruct (exec w p XPy s) as [sg s'] eqn:E.
  pose proof (all_ends_sound _ _ _ Hg s (gone_entry_in s Hc Hgone) _ _ E) as Ho.
  destruct sg; simpl in Ho; try discriminate; reflexivity.
Qed.
End Sound.
