(* C03 -- proofs about the native getpriority path. *)
From PV Require Import Base.Prelude C03.Native.

(* the query answers what the specification demands, for EVERY kernel answer and EVERY prior errno *)
Theorem nice_meets_spec : forall errno0 k, wf_kans k -> nice_query errno0 k = spec_nice k.
Proof.
  intros errno0 [n | e] Hk; unfold nice_query, nice_with, posix_getpriority, c_getpriority; simpl.
  - reflexivity.
  - simpl in Hk. destruct (e =? 0) eqn:E; [apply Z.eqb_eq in E; contradiction | reflexivity].
Qed.
(* every nice value -- -1 included -- comes back exactly *)
Theorem nice_exact : forall errno0 n, nice_query errno0 (KNice n) = Val n.
Proof. intros. reflexivity. Qed.
(* the answer does not depend on what earlier calls left in errno *)
Theorem nice_prior_independent : forall e1 e2 k, nice_query e1 k = nice_query e2 k.
Proof. intros e1 e2 [n | e]; reflexivity. Qed.

(* why the class (nice value x prior errno) matters: the variants of the C function that are wrong only there *)
Theorem no_reset_refuted : nice_with (c_getpriority false TestErrno) ESRCH_ (KNice 0) = Exc NoSuchProcess.
Proof. reflexivity. Qed.
Theorem ret_test_refuted : nice_with (c_getpriority true TestRetMinus1) 0 (KNice (-1)) <> Val (-1).
Proof. discriminate. Qed.
(* the classical libc idiom without the reset: wrong exactly when the nice value is -1 AND an earlier call failed *)
Theorem idiom_no_reset_refuted :
  nice_with (c_getpriority false TestBoth) ESRCH_ (KNice (-1)) = Exc NoSuchProcess /\
  (forall n, n <> -1 -> forall e, nice_with (c_getpriority false TestBoth) e (KNice n) = Val n) /\
  (forall n, nice_with (c_getpriority false TestBoth) 0 (KNice n) = Val n).
Proof.
  repeat split.
  - intros n Hn e. unfold nice_with, c_getpriority. simpl.
    destruct (n =? -1) eqn:E; [apply Z.eqb_eq in E; contradiction | reflexivity].
  - intros n. unfold nice_with, c_getpriority. simpl. destruct (n =? -1); reflexivity.
Qed.
